---------------------------- MODULE APA_StartEnd ----------------------------
(* Unbounded form of the exclusivity clause of C16 for Apalache: values are    *)
(* records with an arbitrary integer time, so the inductive invariant covers   *)
(* every value domain and every history length, not only the constants TLC     *)
(* enumerates in MC_StartEnd.  The step relation is RefStep of StartEnd.tla    *)
(* restricted to the setters and deleters, written out with type annotations.  *)
EXTENDS Integers

VARIABLES
    \* @type: { kind: Str, t: Int };
    dtstart,
    \* @type: { kind: Str, t: Int };
    endp,
    \* @type: { kind: Str, t: Int };
    dur

ValKinds == {"date", "naive", "utc", "zoned"}
Absent == [kind |-> "absent", t |-> 0]

\* @type: ({ kind: Str, t: Int }) => Bool;
IsSlotVal(x) == x.kind \in ValKinds \/ x = Absent
\* @type: ({ kind: Str, t: Int }) => Bool;
IsDurVal(x) == x.kind = "dur" \/ x = Absent

Init == dtstart = Absent /\ endp = Absent /\ dur = Absent

SetStart == \E k \in ValKinds : \E t \in Int : dtstart' = [kind |-> k, t |-> t] /\ UNCHANGED <<endp, dur>>
SetEnd == \E k \in ValKinds : \E t \in Int : endp' = [kind |-> k, t |-> t] /\ dur' = Absent /\ UNCHANGED dtstart
SetDuration == \E t \in Int : dur' = [kind |-> "dur", t |-> t] /\ endp' = Absent /\ UNCHANGED dtstart
DelStart == dtstart' = Absent /\ UNCHANGED <<endp, dur>>
DelEnd == endp' = Absent /\ UNCHANGED <<dtstart, dur>>
DelDuration == dur' = Absent /\ UNCHANGED <<dtstart, endp>>
Next == SetStart \/ SetEnd \/ SetDuration \/ DelStart \/ DelEnd \/ DelDuration

\* negative control: an end setter that forgets to remove DURATION (the seeded defect of DESIGN 5/C16)
SetEndBad == \E k \in ValKinds : \E t \in Int : endp' = [kind |-> k, t |-> t] /\ UNCHANGED <<dtstart, dur>>
NextBad == SetStart \/ SetEndBad \/ SetDuration \/ DelStart \/ DelEnd \/ DelDuration

TypeOK == IsSlotVal(dtstart) /\ IsSlotVal(endp) /\ IsDurVal(dur)
Exclusive == ~(endp # Absent /\ dur # Absent)
IndInv == TypeOK /\ Exclusive
\* any state satisfying IndInv (all variables constrained)
IndInit ==
    /\ \E k \in ValKinds \cup {"absent"} : \E t \in Int : dtstart = [kind |-> k, t |-> IF k = "absent" THEN 0 ELSE t]
    /\ \E k \in ValKinds \cup {"absent"} : \E t \in Int : endp = [kind |-> k, t |-> IF k = "absent" THEN 0 ELSE t]
    /\ \E k \in {"dur", "absent"} : \E t \in Int : dur = [kind |-> k, t |-> IF k = "absent" THEN 0 ELSE t]
    /\ IndInv
=============================================================================
