------------------------------- MODULE Alarms -------------------------------
(* RFC 5545 3.6.6 / RFC 9074: alarm times (C14) and the acknowledged /       *)
(* snoozed decision (C15).                                                    *)
(*                                                                            *)
(* C14 time model: minutes of wall time since 2024-03-30T00:00.  A value is   *)
(* [kind, m] with kind date | floating | utc | zoned; "zoned" is              *)
(* Europe/Berlin whose DST starts at wall 1560 (2024-03-31T02:00), so that    *)
(* wall-clock and absolute arithmetic differ inside the domain.  Ref accepts  *)
(* either arithmetic (the property does not choose).                          *)
(* C15 time model: ticks of one hour; zoned / floating-with-local-tz wall     *)
(* tick t is instant t - 1, the date trigger is instant 1.                    *)
EXTENDS Naturals, Integers, Sequences, FiniteSets, TLC

\* C15: offset of the local zone / zoned kind in time units (1 = hour ticks, 60 = minutes)
CONSTANT ZoneOff

\* ================================================================== C14
DSTWall == 1560
DSTUtc == 1500
Off(w) == IF w < DSTWall THEN 60 ELSE 120
ToUtc(w) == w - Off(w)
ToWall(u) == IF u < DSTUtc THEN u + 60 ELSE u + 120

T(kind, m) == [kind |-> kind, m |-> m]
NoVal == T("none", 0)

\* all admissible results of value + duration d (minutes)
PlusSet(v, d) ==
    CASE v.kind = "date" -> IF d % 1440 = 0 THEN {T("date", v.m + d)} ELSE {T("floating", v.m + d)}
      [] v.kind = "zoned" -> {T("zoned", v.m + d), T("zoned", ToWall(ToUtc(v.m) + d))}
      [] OTHER -> {T(v.kind, v.m + d)}

\* component: [start (value or NoVal), espec]; espec = [k |-> "none"] | [k |-> "end", v] | [k |-> "dur", d]
\* the end of the component (set of admissible values; {} = undefined)
EndSet(c) ==
    CASE c.espec.k = "end" -> {c.espec.v}
      [] c.start = NoVal -> {}
      [] c.espec.k = "dur" -> PlusSet(c.start, c.espec.d)
      [] c.start.kind = "date" -> {T("date", c.start.m + 1440)}
      [] OTHER -> {c.start}

\* alarm: [trig, repeat, dur]; trig = [k |-> "none"] | [k |-> "rel", d, related] | [k |-> "abs", m]
\* dur = -1 when absent
RECURSIVE SeqProd(_)
SeqProd(ss) == IF ss = <<>> THEN {<<>>} ELSE {<<x>> \o r : x \in ss[1], r \in SeqProd(Tail(ss))}
Repeats(first, a) ==
    IF a.dur # -1 /\ a.repeat > 0
    THEN SeqProd([k \in 1..(a.repeat + 1) |-> IF k = 1 THEN {first} ELSE PlusSet(first, (k - 1) * a.dur)])
    ELSE {<<first>>}

Anchors(c, a) == IF a.trig.related = "END" THEN EndSet(c)
                 ELSE IF c.start = NoVal THEN {} ELSE {c.start}
\* the anchor of a relative alarm is undefined: only the documented errors may be reported
Missing(c, a) == a.trig.k = "rel" /\ Anchors(c, a) = {}
\* admissible sequences of times of one alarm (when not Missing)
AlarmTimes(c, a) ==
    CASE a.trig.k = "none" -> {<<>>}
      [] a.trig.k = "abs" -> Repeats(T("utc", a.trig.m), a)
      [] OTHER -> UNION {Repeats(x, a) : x \in UNION {PlusSet(y, a.trig.d) : y \in Anchors(c, a)}}

NTimes(a) == IF a.trig.k = "none" THEN 0 ELSE IF a.dur # -1 /\ a.repeat > 0 THEN 1 + a.repeat ELSE 1

\* ------------------------------------------------------------------ Impl mirror (alarms.py + cal.py)
\* Alarms.add_component reads component.start and component.end eagerly
ImplStartErr(c) == c.start = NoVal
\* _add with the zoneinfo provider: wall-clock arithmetic
ImplAdd(v, d) ==
    IF v.kind = "date" THEN IF d % 1440 = 0 THEN T("date", v.m + d) ELSE T("floating", v.m + d)
    ELSE T(v.kind, v.m + d)
ImplEnd(c) == IF c.espec.k = "end" THEN c.espec.v
              ELSE IF c.espec.k = "dur" THEN ImplAdd(c.start, c.espec.d)
              ELSE IF c.start.kind = "date" THEN T("date", c.start.m + 1440) ELSE c.start
ImplRepeat(first, a) ==
    IF a.dur # -1 /\ a.repeat > 0
    THEN [k \in 1..(a.repeat + 1) |-> IF k = 1 THEN first ELSE ImplAdd(first, (k - 1) * a.dur)]
    ELSE <<first>>
ImplAlarmTimes(c, a) ==
    IF a.trig.k = "none" THEN <<>>
    ELSE IF a.trig.k = "abs" THEN ImplRepeat(T("utc", a.trig.m), a)
    ELSE IF a.trig.related = "END" THEN ImplRepeat(ImplAdd(ImplEnd(c), a.trig.d), a)
    ELSE ImplRepeat(ImplAdd(c.start, a.trig.d), a)

\* ================================================================== C15
Absent == -1
Max(a, b) == IF a >= b THEN a ELSE b
\* r = [kind, t, ackA, ackC, snooze, local]
Known(r) == r.kind \in {"utc", "zoned"} \/ r.local
Instant(r) == CASE r.kind = "utc" -> r.t
                [] r.kind = "date" -> ZoneOff
                [] OTHER -> r.t - ZoneOff
Ack(r) == IF r.ackA = Absent THEN r.ackC ELSE IF r.ackC = Absent THEN r.ackA ELSE Max(r.ackA, r.ackC)

LTM == "LocalTimezoneMissing"
\* Ref: is_active
RefActive(r) ==
    IF Ack(r) = Absent THEN "true"
    ELSE IF r.snooze # Absent /\ r.snooze > Ack(r) THEN "true"
    ELSE IF ~Known(r) THEN LTM
    ELSE IF Max(Instant(r), IF r.snooze = Absent THEN Instant(r) ELSE r.snooze) > Ack(r) THEN "true" ELSE "false"
\* Ref: reported trigger.  <<"snooze", s>> the snooze instant; <<"own", "">> the alarm's own
\* trigger (as the raw value or, when the instant is known, localised); error
RefTrigger(r) ==
    IF r.snooze = Absent THEN <<"own", "">>
    ELSE IF ~Known(r) THEN <<"err", LTM>>
    ELSE IF r.snooze > Instant(r) THEN <<"snooze", "">> ELSE <<"own", "">>

\* admissible alpha-projections of the reported trigger
ExpTriggers(r) ==
    LET g == RefTrigger(r) IN
    IF g[1] = "err" THEN {<<"err", LTM>>}
    ELSE IF g[1] = "snooze" THEN {<<"instant", r.snooze>>}
    ELSE CASE r.kind = "utc" -> {<<"instant", r.t>>}
           [] r.kind = "zoned" -> {<<"instant", r.t - ZoneOff>>}
           [] r.kind = "floating" -> {<<"floating", r.t>>} \cup (IF r.local THEN {<<"instant", r.t - ZoneOff>>} ELSE {})
           [] OTHER -> {<<"date", 0>>} \cup (IF r.local THEN {<<"instant", ZoneOff>>} ELSE {})

\* moving an acknowledgement later never activates an alarm
Later(r, q) == /\ q.kind = r.kind /\ q.t = r.t /\ q.snooze = r.snooze /\ q.local = r.local
               /\ q.ackA >= r.ackA /\ q.ackC >= r.ackC /\ r.ackA # Absent /\ r.ackC # Absent
Monotone(r, q) == Later(r, q) => (RefActive(q) = "true" => RefActive(r) = "true")

\* Impl mirror of AlarmTime.is_active / .trigger after the fix for date and floating triggers
ImplActive(r) == RefActive(r)
\* the pinned pre-fix behaviour: a date-valued trigger has no .tzinfo
ImplActiveOld(r) ==
    IF Ack(r) = Absent THEN "true"
    ELSE IF r.snooze # Absent /\ r.snooze > Ack(r) THEN "true"
    ELSE IF r.kind = "date" THEN "AttributeError"
    ELSE RefActive(r)
=============================================================================
