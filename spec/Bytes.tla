------------------------------- MODULE Bytes -------------------------------
(* Text as sequences of code points (Seq(Nat)); TLC strings are opaque.      *)
(* Replace is Python's str.replace: left-to-right, non-overlapping.          *)
EXTENDS Naturals, Integers, Sequences, FiniteSets

BS == 92      \* backslash
SEMI == 59
COMMA == 44
COLON == 58
DQ == 34
SQ == 39
PCT == 37
EQ == 61
CR == 13
LF == 10
SP == 32
TAB == 9
LowN == 110
UpN == 78

StartsWithAt(t, i, p) ==
    /\ i + Len(p) - 1 <= Len(t)
    /\ \A k \in 1..Len(p) : t[i + k - 1] = p[k]

StartsWith(t, p) == StartsWithAt(t, 1, p)
EndsWith(t, p) == Len(p) <= Len(t) /\ StartsWithAt(t, Len(t) - Len(p) + 1, p)

RECURSIVE ReplaceFrom(_, _, _, _)
ReplaceFrom(t, i, old, new) ==
    IF i > Len(t) THEN <<>>
    ELSE IF StartsWithAt(t, i, old)
         THEN new \o ReplaceFrom(t, i + Len(old), old, new)
         ELSE <<t[i]>> \o ReplaceFrom(t, i + 1, old, new)

\* old must be non-empty
Replace(t, old, new) == ReplaceFrom(t, 1, old, new)

Contains(t, c) == \E i \in 1..Len(t) : t[i] = c
ContainsSeq(t, p) == \E i \in 1..Len(t) : StartsWithAt(t, i, p)
IndexOf(t, c) == IF Contains(t, c) THEN CHOOSE i \in 1..Len(t) : t[i] = c /\ \A j \in 1..(i-1) : t[j] # c ELSE 0

Drop(t, n) == SubSeq(t, n + 1, Len(t))
Take(t, n) == SubSeq(t, 1, n)

RECURSIVE Concat(_)
Concat(ss) == IF ss = <<>> THEN <<>> ELSE Head(ss) \o Concat(Tail(ss))

RECURSIVE Join(_, _)
Join(ss, sep) == IF ss = <<>> THEN <<>>
                 ELSE IF Len(ss) = 1 THEN ss[1]
                 ELSE ss[1] \o sep \o Join(Tail(ss), sep)

\* Python str.split(sep) for a one-symbol separator: always >= 1 piece
RECURSIVE SplitFrom(_, _, _, _)
SplitFrom(t, i, c, acc) ==
    IF i > Len(t) THEN <<acc>>
    ELSE IF t[i] = c THEN <<acc>> \o SplitFrom(t, i + 1, c, <<>>)
    ELSE SplitFrom(t, i + 1, c, Append(acc, t[i]))
Split(t, c) == SplitFrom(t, 1, c, <<>>)

\* ASCII upper-casing (sufficient for the names used in the models)
Up(c) == IF c >= 97 /\ c <= 122 THEN c - 32 ELSE c
Upper(t) == [i \in 1..Len(t) |-> Up(t[i])]

IsDigit(c) == c >= 48 /\ c <= 57
DigitVal(c) == c - 48
RECURSIVE NatOf(_)
NatOf(t) == IF t = <<>> THEN 0 ELSE NatOf(Take(t, Len(t) - 1)) * 10 + DigitVal(t[Len(t)])
AllDigits(t) == \A i \in 1..Len(t) : IsDigit(t[i])

RECURSIVE DigitsOf(_)
DigitsOf(n) == IF n < 10 THEN <<48 + n>> ELSE DigitsOf(n \div 10) \o <<48 + (n % 10)>>
RECURSIVE PadLeft(_, _)
PadLeft(t, w) == IF Len(t) >= w THEN t ELSE PadLeft(<<48>> \o t, w)
Digits(n, w) == PadLeft(DigitsOf(n), w)

\* lexicographic order on code point sequences (Python str <)
RECURSIVE LexLess(_, _)
LexLess(a, b) ==
    IF a = <<>> THEN b # <<>>
    ELSE IF b = <<>> THEN FALSE
    ELSE IF a[1] # b[1] THEN a[1] < b[1]
    ELSE LexLess(Tail(a), Tail(b))

\* UTF-8 width of a code point
U8Len(c) == IF c < 128 THEN 1 ELSE IF c < 2048 THEN 2 ELSE IF c < 65536 THEN 3 ELSE 4
RECURSIVE Octets(_)
Octets(t) == IF t = <<>> THEN 0 ELSE U8Len(t[1]) + Octets(Tail(t))

\* all sequences over S of length 0..n
RECURSIVE SeqsUpTo(_, _)
SeqsUpTo(S, n) == IF n = 0 THEN {<<>>}
                  ELSE LET P == SeqsUpTo(S, n - 1) IN P \cup {Append(p, s) : p \in {q \in P : Len(q) = n - 1}, s \in S}
=============================================================================
