---------------------------- MODULE CalendarGen ----------------------------
(* Generator of well-formed calendars with a carried denotation.              *)
(* An abstract calendar is a shape (which components, how nested) plus, per   *)
(* component slot, a sequence of property-pool indices; the denotation of a   *)
(* pool entry (name, parameters, typed value) is fixed by the RFC reading     *)
(* recorded next to the pool (vf/calgen.py).  The rendering choices (line     *)
(* ending, BOM, str/bytes, fold placement and fold whitespace, letter case    *)
(* of names, trailing blank lines) are nondeterministic and, by RFC 5545,     *)
(* insignificant: every rendering of one abstract calendar denotes the same   *)
(* tree (C09) and the parser must recover exactly that tree (C01).            *)
EXTENDS Naturals, Sequences, FiniteSets, TLC
CONSTANTS Shapes, Slots, Pool, MaxProps

VARIABLES shape, props, ch
vars == <<shape, props, ch>>
Choices == [eol : {"crlf", "lf"}, bom : BOOLEAN, str : BOOLEAN, fold : 0..3, case : 0..2, trail : 0..2]
Plain == [eol |-> "crlf", bom |-> FALSE, str |-> FALSE, fold |-> 0, case |-> 0, trail |-> 0]

Init == shape \in Shapes /\ props = [s \in 1..Slots |-> <<>>] /\ ch = Plain
AddProp(s, i) == /\ Len(props[s]) < MaxProps
                 /\ props' = [props EXCEPT ![s] = Append(@, i)]
                 /\ UNCHANGED <<shape, ch>>
Rerender(c) == ch' = c /\ c # ch /\ UNCHANGED <<shape, props>>
Next == (\E s \in 1..Slots, i \in Pool : AddProp(s, i)) \/ (\E c \in Choices : Rerender(c))
Spec == Init /\ [][Next]_vars

\* the denotation does not mention the rendering choices
Denotation == [shape |-> shape, props |-> props]
RenderingInsignificant == [][(\E c \in Choices : Rerender(c)) => Denotation' = Denotation]_vars
=============================================================================
