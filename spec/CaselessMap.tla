---------------------------- MODULE CaselessMap ----------------------------
(* Reference model of the caseless ordered mapping behind CaselessDict,       *)
(* Parameters, Component and vRecur: a Python dict keyed by the upper-cased   *)
(* name, first-insertion order kept.  State m is a sequence of <<KEY, val>>.  *)
(* Every operation is a function  Apply(m, op) -> [res, m]  so that the same  *)
(* definition drives model checking, vector generation and trace validation.  *)
EXTENDS Bytes

None == -1          \* Python None as a value

Keys(m) == [i \in 1..Len(m) |-> m[i][1]]
Find(m, K) == IF \E i \in 1..Len(m) : m[i][1] = K
              THEN CHOOSE i \in 1..Len(m) : m[i][1] = K ELSE 0
Has(m, K) == Find(m, K) # 0
Val(m, K) == m[Find(m, K)][2]
Put(m, K, v) == IF Has(m, K) THEN [m EXCEPT ![Find(m, K)] = <<K, v>>] ELSE Append(m, <<K, v>>)
Remove(m, K) == LET j == Find(m, K) IN [i \in 1..(Len(m) - 1) |-> IF i < j THEN m[i] ELSE m[i + 1]]

RECURSIVE PutAll(_, _)
PutAll(m, pairs) == IF pairs = <<>> THEN m
                    ELSE PutAll(Put(m, Upper(pairs[1][1]), pairs[1][2]), Tail(pairs))

\* invariants of the representation
UpperOnly(m) == \A i \in 1..Len(m) : m[i][1] = Upper(m[i][1])
NoDup(m) == \A i, j \in 1..Len(m) : m[i][1] = m[j][1] => i = j

\* same content as a plain mapping given as pairs (order irrelevant, keys compared as stored)
SameContent(m, pairs) ==
    /\ \A i \in 1..Len(m) : \E j \in 1..Len(pairs) : pairs[j] = m[i]
    /\ \A j \in 1..Len(pairs) : \E i \in 1..Len(m) : pairs[j] = m[i]

KeyErr == <<"KeyError", 0>>
RNone == <<"none", 0>>
RVal(v) == IF v = None THEN RNone ELSE <<"val", v>>
RBool(b) == <<"bool", IF b THEN 1 ELSE 0>>

\* op is a record [op, k, v, pairs, kw]; unused fields are ignored
Apply(m, o) ==
    LET K == Upper(o.k) IN
    CASE o.op = "new"        -> [res |-> RNone, m |-> PutAll(PutAll(<<>>, o.pairs), o.kw)]
      [] o.op = "getitem"    -> [res |-> IF Has(m, K) THEN RVal(Val(m, K)) ELSE KeyErr, m |-> m]
      [] o.op = "setitem"    -> [res |-> RNone, m |-> Put(m, K, o.v)]
      [] o.op = "delitem"    -> IF Has(m, K) THEN [res |-> RNone, m |-> Remove(m, K)]
                                ELSE [res |-> KeyErr, m |-> m]
      [] o.op = "contains"   -> [res |-> RBool(Has(m, K)), m |-> m]
      [] o.op = "get"        -> [res |-> IF Has(m, K) THEN RVal(Val(m, K)) ELSE RVal(o.v), m |-> m]
      [] o.op = "pop"        -> IF Has(m, K) THEN [res |-> RVal(Val(m, K)), m |-> Remove(m, K)]
                                ELSE [res |-> RVal(o.v), m |-> m]
      [] o.op = "setdefault" -> IF Has(m, K) THEN [res |-> RVal(Val(m, K)), m |-> m]
                                ELSE [res |-> RVal(o.v), m |-> Put(m, K, o.v)]
      [] o.op = "update"     -> [res |-> RNone, m |-> PutAll(PutAll(m, o.pairs), o.kw)]
      [] o.op = "copy"       -> [res |-> <<"map", m>>, m |-> m]
      [] o.op = "or"         -> [res |-> <<"map", PutAll(m, o.pairs)>>, m |-> m]
      [] o.op = "ror"        -> [res |-> <<"map", PutAll(PutAll(<<>>, o.pairs), m)>>, m |-> m]
      [] o.op = "ior"        -> [res |-> RNone, m |-> PutAll(m, o.pairs)]
      [] o.op = "eq"         -> \* compared with a mapping whose keys are already upper-case
                                [res |-> RBool(SameContent(m, o.pairs)), m |-> m]
      [] o.op = "keys"       -> [res |-> <<"keys", Keys(m)>>, m |-> m]
      [] o.op = "len"        -> [res |-> <<"val", Len(m)>>, m |-> m]
      [] o.op = "clear"      -> [res |-> RNone, m |-> <<>>]
      [] o.op = "popitem"    -> IF m = <<>> THEN [res |-> KeyErr, m |-> m]
                                ELSE [res |-> <<"item", m[Len(m)]>>, m |-> SubSeq(m, 1, Len(m) - 1)]

\* ------------------------------------------------------------------ canonical key order
\* priority names first in their declared order, all others after them alphabetically
RECURSIVE SortLex(_)
SortLex(S) == IF S = {} THEN <<>>
              ELSE LET mn == CHOOSE x \in S : \A y \in S : y # x => LexLess(x, y)
                   IN <<mn>> \o SortLex(S \ {mn})
InSeq(x, q) == \E i \in 1..Len(q) : q[i] = x
RECURSIVE FilterSeq(_, _)
FilterSeq(q, S) == IF q = <<>> THEN <<>>
                   ELSE IF q[1] \in S THEN <<q[1]>> \o FilterSeq(Tail(q), S) ELSE FilterSeq(Tail(q), S)
CanonSort(S, order) == FilterSeq(order, S) \o SortLex({x \in S : ~InSeq(x, order)})
=============================================================================
