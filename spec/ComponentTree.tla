---------------------------- MODULE ComponentTree ----------------------------
(* Component trees as flat arrays: node i has parent par[i] < i (root: 0),     *)
(* name nm[i] and property map pr[i] (an opaque value: equal maps are equal    *)
(* values; insertion order and name case are already abstracted away).         *)
(* Ref : PreOrder / Walk and Equiv (same kind, same properties, equal          *)
(*       multisets of children).                                               *)
(* Impl: Component.__eq__ as pinned (ImplEqOld) and after the fix (ImplEqNew). *)
EXTENDS Naturals, Sequences, FiniteSets, TLC

N(t) == Len(t.par)
\* children of i in subcomponent order
RECURSIVE KidsFrom(_, _, _)
KidsFrom(t, i, j) == IF j > N(t) THEN <<>>
                     ELSE IF t.par[j] = i THEN <<j>> \o KidsFrom(t, i, j + 1) ELSE KidsFrom(t, i, j + 1)
Kids(t, i) == KidsFrom(t, i, i + 1)

RECURSIVE Pre(_, _)
RECURSIVE PreList(_, _)
Pre(t, i) == <<i>> \o PreList(t, Kids(t, i))
PreList(t, ks) == IF ks = <<>> THEN <<>> ELSE Pre(t, ks[1]) \o PreList(t, Tail(ks))
PreOrder(t) == Pre(t, 1)

\* Walk restricted to a name ("" = all)
RECURSIVE FilterName(_, _, _)
FilterName(t, q, name) == IF q = <<>> THEN <<>>
                          ELSE IF name = "" \/ t.nm[q[1]] = name THEN <<q[1]>> \o FilterName(t, Tail(q), name)
                          ELSE FilterName(t, Tail(q), name)
Walk(t, name) == FilterName(t, PreOrder(t), name)

\* ------------------------------------------------------------------ Ref equality
Perms(n) == {f \in [1..n -> 1..n] : \A a, b \in 1..n : f[a] = f[b] => a = b}
RECURSIVE Equiv(_, _, _, _)
Equiv(t, i, u, j) ==
    /\ t.nm[i] = u.nm[j]
    /\ t.pr[i] = u.pr[j]
    /\ LET a == Kids(t, i)
           b == Kids(u, j)
       IN /\ Len(a) = Len(b)
          /\ \E f \in Perms(Len(a)) : \A k \in 1..Len(a) : Equiv(t, a[k], u, b[f[k]])
EquivT(t, u) == Equiv(t, 1, u, 1)

\* ------------------------------------------------------------------ Impl mirrors
\* pinned: kinds not compared; every child of self is `in` other's children
RECURSIVE ImplEqOld(_, _, _, _)
ImplEqOld(t, i, u, j) ==
    LET a == Kids(t, i)
        b == Kids(u, j)
    IN /\ Len(a) = Len(b)
       /\ t.pr[i] = u.pr[j]
       /\ \A k \in 1..Len(a) : \E m \in 1..Len(b) : ImplEqOld(t, a[k], u, b[m])

\* after the fix: same name, greedy matching with removal
RECURSIVE ImplEqNew(_, _, _, _)
RECURSIVE Greedy(_, _, _, _)
Without(q, m) == [x \in 1..(Len(q) - 1) |-> IF x < m THEN q[x] ELSE q[x + 1]]
Greedy(t, a, u, rest) ==
    IF a = <<>> THEN TRUE
    ELSE IF \E m \in 1..Len(rest) : ImplEqNew(t, a[1], u, rest[m])
         THEN LET m == CHOOSE m \in 1..Len(rest) :
                         ImplEqNew(t, a[1], u, rest[m]) /\ \A m2 \in 1..(m - 1) : ~ImplEqNew(t, a[1], u, rest[m2])
              IN Greedy(t, Tail(a), u, Without(rest, m))
         ELSE FALSE
ImplEqNew(t, i, u, j) ==
    /\ t.nm[i] = u.nm[j]
    /\ Len(Kids(t, i)) = Len(Kids(u, j))
    /\ t.pr[i] = u.pr[j]
    /\ Greedy(t, Kids(t, i), u, Kids(u, j))
=============================================================================
