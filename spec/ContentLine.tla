---------------------------- MODULE ContentLine ----------------------------
(* Content lines  name *(";" param) ":" value                                *)
(*                                                                           *)
(* Ref*  : the RFC 5545 section 3.1/3.2 reading (contract).                  *)
(* Impl* : branch-for-branch transcription of icalendar/parser.py            *)
(*         (q_split, dquote, Parameters.to_ical/from_ical,                   *)
(*          escape_string/unescape_string, Contentline.parts/from_parts).    *)
(* Parameters are sequences of records [k, list, vals]; a scalar value is    *)
(* list = FALSE with Len(vals) = 1.                                          *)
EXTENDS Bytes

\* ------------------------------------------------------------------ q_split
\* transcription of parser.q_split(st, sep, maxsplit); maxsplit = -1 unlimited
RECURSIVE QSplitLoop(_, _, _, _, _, _, _, _)
QSplitLoop(st, sep, maxsplit, i, cursor, inq, splits, result) ==
    \* i is 0-based like the Python loop
    IF i >= Len(st) THEN result
    ELSE
      LET ch == st[i + 1]
          inq2 == IF ch = DQ THEN ~inq ELSE inq
          doSplit == ~inq2 /\ ch = sep
          result2 == IF doSplit THEN Append(result, SubSeq(st, cursor + 1, i)) ELSE result
          cursor2 == IF doSplit THEN i + 1 ELSE cursor
          splits2 == IF doSplit THEN splits + 1 ELSE splits
      IN IF i + 1 = Len(st) \/ splits2 = maxsplit
         THEN Append(result2, SubSeq(st, cursor2 + 1, Len(st)))
         ELSE QSplitLoop(st, sep, maxsplit, i + 1, cursor2, inq2, splits2, result2)

QSplit(st, sep, maxsplit) ==
    IF maxsplit = 0 THEN <<st>> ELSE QSplitLoop(st, sep, maxsplit, 0, 0, FALSE, 0, <<>>)

\* ------------------------------------------------------------------ dquote / param_value
\* QUOTABLE = [,;: ’']   (U+2019 = 8217)
Quotable(c) == c \in {COMMA, SEMI, COLON, SP, 8217, SQ}
ImplDquote(v) ==
    LET w == [i \in 1..Len(v) |-> IF v[i] = DQ THEN SQ ELSE v[i]]
    IN IF \E i \in 1..Len(w) : Quotable(w[i]) THEN <<DQ>> \o w \o <<DQ>> ELSE w

ImplParamValue(p) ==
    IF p.list THEN Join([i \in 1..Len(p.vals) |-> ImplDquote(p.vals[i])], <<COMMA>>)
    ELSE ImplDquote(p.vals[1])

\* stable selection sort of parameter records by key -- by the key AS STORED, i.e. upper-cased ("q" sorts as "Q", before "X9")
RECURSIVE SortParams(_)
SortParams(ps) ==
    IF Len(ps) <= 1 THEN ps
    ELSE LET m == CHOOSE i \in 1..Len(ps) :
                    \A j \in 1..Len(ps) : j # i =>
                        (LexLess(Upper(ps[i].k), Upper(ps[j].k)) \/ (Upper(ps[i].k) = Upper(ps[j].k) /\ i < j))
             rest == [j \in 1..(Len(ps) - 1) |-> IF j < m THEN ps[j] ELSE ps[j + 1]]
         IN <<ps[m]>> \o SortParams(rest)

\* Parameters.to_ical(sorted): keys are stored upper-case by the caseless mapping
ImplParamsToIcal(ps, sorted) ==
    LET qs == IF sorted THEN SortParams(ps) ELSE ps
    IN Join([i \in 1..Len(qs) |-> Upper(qs[i].k) \o <<EQ>> \o ImplParamValue(qs[i])], <<SEMI>>)

\* ------------------------------------------------------------------ validate_*
\* NAME = [\w.-]+ : ASCII letters, digits, underscore, dot, hyphen; the only
\* non-ASCII word characters used by the models are e-acute (233) and a-umlaut (228)
IsWord(c) == (c >= 48 /\ c <= 57) \/ (c >= 65 /\ c <= 90) \/ (c >= 97 /\ c <= 122)
             \/ c = 95 \/ c = 46 \/ c = 45 \/ c \in {233, 228}
ValidToken(t) == t # <<>> /\ \A i \in 1..Len(t) : IsWord(t[i])

IsCtl(c) == (c <= 8) \/ (c >= 10 /\ c <= 31) \/ c = 127
QUnsafe(v) == \E i \in 1..Len(v) : IsCtl(v[i]) \/ v[i] = DQ
Unsafe(v) == \E i \in 1..Len(v) : IsCtl(v[i]) \/ v[i] \in {DQ, COMMA, COLON, SEMI}

\* v.strip('"')
RECURSIVE LStripQ(_)
LStripQ(v) == IF v # <<>> /\ v[1] = DQ THEN LStripQ(Tail(v)) ELSE v
RECURSIVE RStripQ(_)
RStripQ(v) == IF v # <<>> /\ v[Len(v)] = DQ THEN RStripQ(Take(v, Len(v) - 1)) ELSE v
StripQ(v) == RStripQ(LStripQ(v))

\* ------------------------------------------------------------------ Parameters.from_ical
Bad == [ok |-> FALSE]

\* one parameter "key=val"; result [ok, k, list, vals] ; strict upper-cases unquoted values
ImplParamFromIcal(param, strict) ==
    LET kv == QSplit(param, EQ, 1)
    IN IF Len(kv) # 2 THEN Bad
       ELSE LET key == kv[1]
                val == kv[2]
                raw == QSplit(val, COMMA, -1)
                quoted(v) == v # <<>> /\ v[1] = DQ /\ v[Len(v)] = DQ
                okv(v) == IF quoted(v) THEN ~QUnsafe(StripQ(v)) ELSE ~Unsafe(v)
                dec(v) == IF quoted(v) THEN StripQ(v) ELSE IF strict THEN Upper(v) ELSE v
            IN IF ~ValidToken(key) THEN Bad
               ELSE IF \E i \in 1..Len(raw) : ~okv(raw[i]) THEN Bad
               ELSE IF raw = <<>> THEN [ok |-> TRUE, k |-> key, list |-> FALSE, vals |-> <<val>>]
               ELSE [ok |-> TRUE, k |-> key, list |-> Len(raw) > 1,
                     vals |-> [i \in 1..Len(raw) |-> dec(raw[i])]]

\* caseless mapping insert: later duplicates overwrite the value, keep the first position
RECURSIVE PutParam(_, _)
PutParam(ps, p) ==
    IF ps = <<>> THEN <<p>>
    ELSE IF Upper(ps[1].k) = Upper(p.k) THEN <<[p EXCEPT !.k = Upper(p.k)]>> \o Tail(ps)
    ELSE <<ps[1]>> \o PutParam(Tail(ps), p)

RECURSIVE FoldParams(_, _, _)
FoldParams(parts, strict, acc) ==
    IF parts = <<>> THEN [ok |-> TRUE, ps |-> acc]
    ELSE LET r == ImplParamFromIcal(parts[1], strict)
         IN IF ~r.ok THEN Bad
            ELSE FoldParams(Tail(parts), strict,
                            PutParam(acc, [k |-> Upper(r.k), list |-> r.list, vals |-> r.vals]))

ImplParamsFromIcal(st, strict) == FoldParams(QSplit(st, SEMI, -1), strict, <<>>)

\* ------------------------------------------------------------------ escape_string / parts
P2C == <<PCT, 50, 67>>
P3A == <<PCT, 51, 65>>
P3B == <<PCT, 51, 66>>
P5C == <<PCT, 53, 67>>
ImplEscapeString(v) ==
    Replace(Replace(Replace(Replace(v, <<BS, COMMA>>, P2C), <<BS, COLON>>, P3A), <<BS, SEMI>>, P3B), <<BS, BS>>, P5C)
ImplUnescapeString(v) ==
    Replace(Replace(Replace(Replace(v, P2C, <<COMMA>>), P3A, <<COLON>>), P3B, <<SEMI>>), P5C, <<BS>>)

\* the scan of Contentline.parts; -1 is Python's None; "not x" is x \in {-1, 0}
RECURSIVE ScanLoop(_, _, _, _, _)
ScanLoop(st, i, ns, vs, inq) ==
    IF i >= Len(st) THEN [ns |-> ns, vs |-> vs]
    ELSE LET ch == st[i + 1]
             ns2 == IF ~inq /\ ch \in {COLON, SEMI} /\ ns \in {-1, 0} THEN i ELSE ns
             vs2 == IF ~inq /\ ch = COLON /\ vs \in {-1, 0} THEN i ELSE vs
             inq2 == IF ch = DQ THEN ~inq ELSE inq
         IN ScanLoop(st, i + 1, ns2, vs2, inq2)

PySlice(st, a, b) == IF b <= a THEN <<>> ELSE SubSeq(st, a + 1, IF b > Len(st) THEN Len(st) ELSE b)

ImplParts(line, strict) ==
    LET st == ImplEscapeString(line)
        sc == ScanLoop(st, 0, -1, -1, FALSE)
        name == ImplUnescapeString(IF sc.ns = -1 THEN st ELSE PySlice(st, 0, sc.ns))
        vs == IF sc.vs \in {-1, 0} THEN Len(st) ELSE sc.vs
    IN IF name = <<>> \/ ~ValidToken(name) THEN Bad
       ELSE IF sc.ns \in {-1, 0} \/ sc.ns + 1 = vs THEN Bad
       ELSE LET pr == ImplParamsFromIcal(PySlice(st, sc.ns + 1, vs), strict)
            IN IF ~pr.ok THEN Bad
               ELSE [ok |-> TRUE, name |-> name,
                     params |-> [i \in 1..Len(pr.ps) |->
                                   [k |-> Upper(ImplUnescapeString(pr.ps[i].k)), list |-> pr.ps[i].list,
                                    vals |-> [j \in 1..Len(pr.ps[i].vals) |-> ImplUnescapeString(pr.ps[i].vals[j])]]],
                     value |-> ImplUnescapeString(PySlice(st, vs + 1, Len(st)))]

\* Contentline.from_parts given the already encoded value text
\* from_parts decodes the encoded value with utf-8-sig: one leading U+FEFF of the value text is dropped (finding C07-K3)
StripBomCL(v) == IF v # <<>> /\ v[1] = 65279 THEN Tail(v) ELSE v
ImplFromParts(name, ps, valueText0, sorted) ==
    LET valueText == StripBomCL(valueText0) IN
    IF ps = <<>> THEN name \o <<COLON>> \o valueText
    ELSE name \o <<SEMI>> \o ImplParamsToIcal(ps, sorted) \o <<COLON>> \o valueText

\* ------------------------------------------------------------------ Ref (RFC 5545 3.1, 3.2)
\* first unquoted occurrence of a symbol from S at or after 0-based position i; Len(st) if none
RECURSIVE FirstUnq(_, _, _, _)
FirstUnq(st, i, S, inq) ==
    IF i >= Len(st) THEN Len(st)
    ELSE IF ~inq /\ st[i + 1] \in S THEN i
    ELSE FirstUnq(st, i + 1, S, IF st[i + 1] = DQ THEN ~inq ELSE inq)

\* split on unquoted separators (never on quoted ones); "" -> <<"">>
RECURSIVE RefSplitQ(_, _)
RefSplitQ(st, sep) ==
    LET j == FirstUnq(st, 0, {sep}, FALSE)
    IN IF j = Len(st) THEN <<st>> ELSE <<PySlice(st, 0, j)>> \o RefSplitQ(PySlice(st, j + 1, Len(st)), sep)

RefUnquote(v) == IF Len(v) >= 2 /\ v[1] = DQ /\ v[Len(v)] = DQ THEN SubSeq(v, 2, Len(v) - 1) ELSE v
RefIsQuoted(v) == Len(v) >= 2 /\ v[1] = DQ /\ v[Len(v)] = DQ

\* param = name "=" value *("," value); a value is a quoted-string or paramtext
RefParam(param) ==
    LET j == FirstUnq(param, 0, {EQ}, FALSE)
    IN IF j = Len(param) THEN Bad
       ELSE LET key == PySlice(param, 0, j)
                raw == RefSplitQ(PySlice(param, j + 1, Len(param)), COMMA)
                okv(v) == IF RefIsQuoted(v) THEN ~QUnsafe(RefUnquote(v)) ELSE ~Unsafe(v)
            IN IF ~ValidToken(key) \/ \E i \in 1..Len(raw) : ~okv(raw[i]) THEN Bad
               ELSE [ok |-> TRUE, k |-> Upper(key), list |-> Len(raw) > 1,
                     vals |-> [i \in 1..Len(raw) |-> RefUnquote(raw[i])]]

\* Ref split of a whole content line
RefSplit(line) ==
    LET n == FirstUnq(line, 0, {COLON, SEMI}, FALSE)
        c == FirstUnq(line, 0, {COLON}, FALSE)
    IN IF n = 0 \/ n = Len(line) \/ c = Len(line) THEN Bad
       ELSE LET name == PySlice(line, 0, n)
                ptxt == IF n = c THEN <<>> ELSE PySlice(line, n + 1, c)
                praw == IF ptxt = <<>> THEN <<>> ELSE RefSplitQ(ptxt, SEMI)
                prs == [i \in 1..Len(praw) |-> RefParam(praw[i])]
            IN IF ~ValidToken(name) \/ (n # c /\ ptxt = <<>>) \/ \E i \in 1..Len(prs) : ~prs[i].ok THEN Bad
               ELSE [ok |-> TRUE, name |-> name,
                     params |-> [i \in 1..Len(prs) |-> [k |-> prs[i].k, list |-> prs[i].list, vals |-> prs[i].vals]],
                     value |-> PySlice(line, c + 1, Len(line))]

\* a value MUST be quoted on the wire when it contains , ; :
MustQuote(v) == \E i \in 1..Len(v) : v[i] \in {COMMA, SEMI, COLON}

\* parameter maps compared as the property states: caseless names, same values
\* in the same order; a one-element list is NOT the same as a scalar only in
\* the sense that arity is kept (list flag)
SameParams(a, b) ==
    /\ Len(a) = Len(b)
    /\ \A i \in 1..Len(a) : \E j \in 1..Len(b) :
         Upper(a[i].k) = Upper(b[j].k) /\ a[i].vals = b[j].vals /\ (Len(a[i].vals) > 1 => b[j].list)
                                        /\ (Len(b[j].vals) > 1 => a[i].list)
=============================================================================
