------------------------------ MODULE Findings ------------------------------
(* Input classes of the known findings (KNOWN_FINDINGS.json).  A P-clause    *)
(* failure is suppressed only if the failing input is in the class AND the   *)
(* observed wrong result equals the Impl mirror's result (decided by the     *)
(* trace spec / vector), so a different wrong answer is still a violation.   *)
(* MC modules check  Delta \subseteq KF  over their bounded domains.         *)
EXTENDS Bytes

\* C07-K2: Contentline.parts un-escapes \, \; \: \\ and %2C %3A %3B %5C in the value
\* before the TEXT decoder runs, so backslash sequences are decoded twice and
\* literal %XX sequences are rewritten
KF_C07_PropUnescape(s) == Contains(s, BS) \/ Contains(s, PCT)
\* C07-K3: from_parts decodes the encoded value with utf-8-sig: a leading U+FEFF is dropped
KF_C07_Bom(s) == s # <<>> /\ s[1] = 65279
\* C07-K4: vCategory.from_ical unescapes the joined text and then splits on ','
KF_C07_ListComma(items) == \E i \in 1..Len(items) : Contains(items[i], COMMA)
KF_C07_List(items) == \/ KF_C07_ListComma(items)
                      \/ \E i \in 1..Len(items) : KF_C07_PropUnescape(items[i])
                      \/ KF_C07_Bom(items[1])
\* C08-K1 / C05-K1: Contentline.parts runs escape_string/unescape_string over the whole line,
\* parameter section included
KF_C08_Unescape(ps) == \E i \in 1..Len(ps) : \E j \in 1..Len(ps[i].vals) :
                          Contains(ps[i].vals[j], BS) \/ Contains(ps[i].vals[j], PCT)
\* C05-K2: a parameter value ending in a backslash turns the ':' (or a following ';' ',') that
\* ends the parameter section into a placeholder, so text of the property value is read as
\* further parameters (possible with raw value types such as URI)
KF_C05_ParamBackslash(ps) == \E i \in 1..Len(ps) : \E j \in 1..Len(ps[i].vals) : Contains(ps[i].vals[j], BS)
=============================================================================
