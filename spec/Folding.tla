------------------------------ MODULE Folding ------------------------------
(* RFC 5545 3.1 line folding.                                                *)
(* Ref : IsFolding(line, out, limit) on code points; IsFoldingBytes on       *)
(*       octets (UTF-8 decoded per physical line by a DFA-style decoder).    *)
(* Impl: parser.foldline -- the ASCII fast path slicing every limit-1        *)
(*       characters, otherwise the per-character octet counting loop.        *)
EXTENDS Bytes

\* ------------------------------------------------------------------ Ref
\* physical lines: split at every CR LF pair
RECURSIVE PhysFrom(_, _, _)
PhysFrom(t, i, acc) ==
    IF i > Len(t) THEN <<acc>>
    ELSE IF t[i] = CR /\ i < Len(t) /\ t[i + 1] = LF THEN <<acc>> \o PhysFrom(t, i + 2, <<>>)
    ELSE PhysFrom(t, i + 1, Append(acc, t[i]))
Phys(t) == PhysFrom(t, 1, <<>>)

RECURSIVE UnfoldPhys(_)
UnfoldPhys(ph) == IF Len(ph) = 1 THEN ph[1] ELSE ph[1] \o UnfoldPhys(<<Tail(ph[2])>> \o SubSeq(ph, 3, Len(ph)))

IsFolding(line, out, limit) ==
    LET ph == Phys(out)
    IN /\ \A i \in 1..Len(ph) : Octets(ph[i]) <= limit                 \* budget
       /\ \A i \in 2..Len(ph) : ph[i] # <<>> /\ ph[i][1] = SP          \* one added space
       /\ ~Contains(Concat(ph), LF)                                     \* no stray line feed
       /\ UnfoldPhys(ph) = line                                         \* exact unfolding

\* UTF-8 decoding of one physical line given as octets; ok = FALSE when a character is cut
RECURSIVE U8Dec(_, _)
U8Dec(b, i) ==
    IF i > Len(b) THEN [ok |-> TRUE, cps |-> <<>>]
    ELSE LET c == b[i]
             n == IF c < 128 THEN 1 ELSE IF c >= 194 /\ c < 224 THEN 2
                  ELSE IF c >= 224 /\ c < 240 THEN 3 ELSE IF c >= 240 /\ c < 245 THEN 4 ELSE 0
         IN IF n = 0 \/ i + n - 1 > Len(b) \/ \E k \in 1..(n - 1) : b[i + k] < 128 \/ b[i + k] >= 192
            THEN [ok |-> FALSE, cps |-> <<>>]
            ELSE LET cp == IF n = 1 THEN c
                           ELSE IF n = 2 THEN (c - 192) * 64 + (b[i + 1] - 128)
                           ELSE IF n = 3 THEN (c - 224) * 4096 + (b[i + 1] - 128) * 64 + (b[i + 2] - 128)
                           ELSE (c - 240) * 262144 + (b[i + 1] - 128) * 4096 + (b[i + 2] - 128) * 64 + (b[i + 3] - 128)
                     rest == U8Dec(b, i + n)
                 IN [ok |-> rest.ok, cps |-> <<cp>> \o rest.cps]

\* the same relation on the serialised octets
FoldBytesClauses(line, bytes, limit) ==
    LET ph == Phys(bytes)
        dec == [i \in 1..Len(ph) |-> U8Dec(ph[i], 1)]
    IN [budget |-> \A i \in 1..Len(ph) : Len(ph[i]) <= limit,
        utf8 |-> \A i \in 1..Len(ph) : dec[i].ok,
        space |-> \A i \in 2..Len(ph) : ph[i] # <<>> /\ ph[i][1] = SP,
        unfold |-> (\A i \in 1..Len(ph) : dec[i].ok) /\
                   UnfoldPhys([i \in 1..Len(ph) |-> dec[i].cps]) = line,
        nolf |-> ~Contains(Concat(ph), LF)]

\* ------------------------------------------------------------------ Impl
FoldSep == <<CR, LF, SP>>
IsAscii(t) == \A i \in 1..Len(t) : t[i] < 128

RECURSIVE AsciiChunks(_, _)
AsciiChunks(t, n) == IF Len(t) <= n THEN <<t>> ELSE <<Take(t, n)>> \o AsciiChunks(Drop(t, n), n)

RECURSIVE FoldLoop(_, _, _, _)
FoldLoop(t, i, count, limit) ==
    IF i > Len(t) THEN <<>>
    ELSE LET w == U8Len(t[i])
         IN IF count + w >= limit
            THEN FoldSep \o <<t[i]>> \o FoldLoop(t, i + 1, w, limit)
            ELSE <<t[i]>> \o FoldLoop(t, i + 1, count + w, limit)

ImplFold(t, limit) ==
    IF IsAscii(t) THEN (IF t = <<>> THEN <<>> ELSE Join(AsciiChunks(t, limit - 1), FoldSep))
    ELSE FoldLoop(t, 1, 0, limit)

\* the unfold regex  (\r?\n)+[ \t]  applied as re.sub('', .): leftmost, greedy
RECURSIVE SkipNewlines(_, _)
SkipNewlines(t, i) ==   \* position after the longest run of (\r?\n) starting at i (i itself if none)
    IF i <= Len(t) /\ t[i] = LF THEN SkipNewlines(t, i + 1)
    ELSE IF i < Len(t) /\ t[i] = CR /\ t[i + 1] = LF THEN SkipNewlines(t, i + 2)
    ELSE i
RECURSIVE ImplUnfoldFrom(_, _)
ImplUnfoldFrom(t, i) ==
    IF i > Len(t) THEN <<>>
    ELSE LET j == SkipNewlines(t, i)
         IN IF j > i /\ j <= Len(t) /\ t[j] \in {SP, TAB} THEN ImplUnfoldFrom(t, j + 1)
            ELSE <<t[i]>> \o ImplUnfoldFrom(t, i + 1)
ImplUnfold(t) == ImplUnfoldFrom(t, 1)
=============================================================================
