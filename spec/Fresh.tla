------------------------------- MODULE Fresh -------------------------------
(* History independence of calls that hand out (mutable) results.             *)
(*                                                                            *)
(* Call(f, x) of a library function, made while the process is in             *)
(* configuration m (the active time zone provider), returns an object to the  *)
(* caller, who may then mutate what it got (append to a list, set a key, add  *)
(* a property).  Ref: every call returns a FRESH object holding F(x, m) --    *)
(* what a caller sees through the handle h depends only on the input and the  *)
(* configuration of the call that produced h and on the mutations applied     *)
(* through h itself.  Nothing else of the history is visible: not the         *)
(* mutations other callers made, not what was computed under another          *)
(* configuration.                                                             *)
(*                                                                            *)
(* Memo names the classic ways to break this while every single-shot test     *)
(* still passes: a cache in front of f (functools.lru_cache, a class-level    *)
(* dict) that hands out ONE shared object per input                           *)
(*   "shared"   keyed by (f, x, m): aliasing only;                            *)
(*   "stale"    keyed by (f, x), forgetting the configuration: a result       *)
(*              computed under the other provider is returned.                *)
(* TLC refutes Independence on both; the harness uses the refutations as      *)
(* vacuity guards and replays every behaviour of the Memo = "none" model into *)
(* the real functions.                                                        *)
EXTENDS Naturals, Sequences, FiniteSets, TLC

CONSTANTS Funs,        \* names of the functions under test
          Inputs,      \* abstract inputs
          Modes,       \* configurations (1 = zoneinfo, 2 = pytz); a singleton for configuration-free functions
          MaxCalls, MaxOps,
          Fails,       \* BOOLEAN: failing calls occur in the histories
          Memo         \* "none" | "shared" | "stale" | "residue"

VARIABLES mode,        \* current configuration
          origin,      \* origin[h] = <<f, x, m>> : the call that produced handle h
          obj,         \* obj[h]    = identity of the object behind handle h
          content,     \* content[o] = <<x, m>> the object was computed from
          dirty,       \* identities of the objects that were mutated
          hist,        \* the operations so far
          residue      \* a failed call left something behind that the next computed result will contain
vars == <<mode, origin, obj, content, dirty, hist, residue>>

N == Len(origin)
Init == mode = 1 /\ origin = <<>> /\ obj = <<>> /\ content = <<>> /\ dirty = {} /\ hist = <<>> /\ residue = FALSE

Key(f, x, m) == IF Memo = "stale" THEN <<f, x, 0>> ELSE <<f, x, m>>
Cached(f, x, m) == {h \in 1..N : Key(origin[h][1], origin[h][2], origin[h][3]) = Key(f, x, m)}
Hit(f, x, m) == Memo # "none" /\ Cached(f, x, m) # {}

Call(f, x) ==
    /\ N < MaxCalls /\ Len(hist) < MaxOps
    /\ origin' = Append(origin, <<f, x, mode>>)
    /\ IF Hit(f, x, mode)
       THEN /\ obj' = Append(obj, obj[CHOOSE h \in Cached(f, x, mode) : TRUE])
            /\ UNCHANGED content
       ELSE /\ obj' = Append(obj, Len(content) + 1)
            /\ content' = Append(content, IF residue THEN <<x, mode, "tainted">> ELSE <<x, mode>>)
    /\ hist' = Append(hist, [op |-> "call", f |-> f, x |-> x, h |-> N + 1, m |-> mode])
    /\ UNCHANGED <<dirty, mode>>

Mutate(h) ==
    /\ Len(hist) < MaxOps
    /\ ~\E i \in 1..Len(hist) : hist[i].op = "mutate" /\ hist[i].h = h      \* once per handle
    /\ dirty' = dirty \cup {obj[h]}
    /\ hist' = Append(hist, [op |-> "mutate", f |-> origin[h][1], x |-> origin[h][2], h |-> h, m |-> origin[h][3]])
    /\ UNCHANGED <<origin, obj, content, mode>>

Switch(m) ==
    /\ m # mode /\ Len(hist) < MaxOps
    /\ hist # <<>> /\ hist[Len(hist)].op # "switch"
    /\ mode' = m
    /\ hist' = Append(hist, [op |-> "switch", f |-> "", x |-> 0, h |-> 0, m |-> m])
    /\ UNCHANGED <<origin, obj, content, dirty>>

\* a call that FAILS (malformed input: the function raises).  Ref: it leaves nothing behind.  Memo = "residue" models an
\* error path that leaves partial state in a module- or class-level buffer, which the next fresh result then contains.
Fail(f) ==
    /\ Fails /\ Len(hist) < MaxOps
    /\ (hist # <<>> => hist[Len(hist)].op # "fail")
    /\ residue' = (Memo = "residue")
    /\ hist' = Append(hist, [op |-> "fail", f |-> f, x |-> 0, h |-> 0, m |-> mode])
    /\ UNCHANGED <<origin, obj, content, dirty, mode>>

Next == \/ \E f \in Funs, x \in Inputs : Call(f, x) /\ residue' = FALSE
        \/ \E h \in 1..N : Mutate(h) /\ UNCHANGED residue
        \/ \E m \in Modes : Switch(m) /\ UNCHANGED residue
        \/ \E f \in Funs : Fail(f)
Spec == Init /\ [][Next]_vars

\* what the caller sees through h, and what it must see
Seen(h) == [val |-> content[obj[h]], state |-> IF obj[h] \in dirty THEN "mutated" ELSE "pristine"]
MutatedThrough(h) == \E i \in 1..Len(hist) : hist[i].op = "mutate" /\ hist[i].h = h
Expected(h) == [val |-> <<origin[h][2], origin[h][3]>>, state |-> IF MutatedThrough(h) THEN "mutated" ELSE "pristine"]
Independence == \A h \in 1..N : Seen(h) = Expected(h)

\* a fresh call never returns an object somebody already holds
FreshIdentity == \A h, k \in 1..N : h # k => obj[h] # obj[k]
=============================================================================
