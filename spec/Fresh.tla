------------------------------- MODULE Fresh -------------------------------
(* History independence of calls that hand out mutable results.               *)
(*                                                                            *)
(* Call(f, x) of a library function returns an object to the caller, who may  *)
(* then mutate what it got (append to a list, set a key, add a property).     *)
(* Ref: every call returns a FRESH object -- what a caller sees through the   *)
(* handle h depends only on the input of the call that produced h and on the  *)
(* mutations applied through h itself; in particular a later call with the    *)
(* same input gives the pristine value again.                                 *)
(*                                                                            *)
(* Memo = TRUE is the classic way to break this while every single-shot test  *)
(* still passes: a cache in front of f that hands out ONE shared object per   *)
(* input (functools.lru_cache over a function returning a list or dict, a     *)
(* memoised parse).  TLC refutes Independence on that variant; the harness    *)
(* uses the refutation as a vacuity guard and replays every behaviour of the  *)
(* Memo = FALSE model into the real functions.                                *)
EXTENDS Naturals, Sequences, FiniteSets, TLC

CONSTANTS Funs,        \* names of the functions under test
          Inputs,      \* abstract inputs
          MaxCalls, MaxOps,
          Memo         \* BOOLEAN: model the shared-object cache

VARIABLES origin,      \* origin[h] = <<f, x>> : the call that produced handle h
          obj,         \* obj[h]    = identity of the object behind handle h
          dirty,       \* identities of the objects that were mutated
          hist         \* the operations so far
vars == <<origin, obj, dirty, hist>>

N == Len(origin)
Init == origin = <<>> /\ obj = <<>> /\ dirty = {} /\ hist = <<>>

Cached(f, x) == {h \in 1..N : origin[h] = <<f, x>>}
NewObj(f, x) == IF Memo /\ Cached(f, x) # {} THEN obj[CHOOSE h \in Cached(f, x) : TRUE] ELSE N + 1

Call(f, x) ==
    /\ N < MaxCalls /\ Len(hist) < MaxOps
    /\ origin' = Append(origin, <<f, x>>)
    /\ obj' = Append(obj, NewObj(f, x))
    /\ hist' = Append(hist, [op |-> "call", f |-> f, x |-> x, h |-> N + 1])
    /\ UNCHANGED dirty

Mutate(h) ==
    /\ Len(hist) < MaxOps
    /\ ~\E i \in 1..Len(hist) : hist[i].op = "mutate" /\ hist[i].h = h      \* once per handle
    /\ dirty' = dirty \cup {obj[h]}
    /\ hist' = Append(hist, [op |-> "mutate", f |-> origin[h][1], x |-> origin[h][2], h |-> h])
    /\ UNCHANGED <<origin, obj>>

Next == (\E f \in Funs, x \in Inputs : Call(f, x)) \/ (\E h \in 1..N : Mutate(h))
Spec == Init /\ [][Next]_vars

\* what the caller sees through h, and what it must see
Seen(h) == IF obj[h] \in dirty THEN "mutated" ELSE "pristine"
MutatedThrough(h) == \E i \in 1..Len(hist) : hist[i].op = "mutate" /\ hist[i].h = h
Expected(h) == IF MutatedThrough(h) THEN "mutated" ELSE "pristine"
Independence == \A h \in 1..N : Seen(h) = Expected(h)

\* a fresh call never returns an object somebody already holds
FreshIdentity == \A h, k \in 1..N : h # k => obj[h] # obj[k]
=============================================================================
