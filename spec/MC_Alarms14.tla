----------------------------- MODULE MC_Alarms14 -----------------------------
(* C14: every component shape x every single alarm shape, plus pairs of        *)
(* alarms; per alarm the set of admissible time sequences (Ref) and the        *)
(* zoneinfo-provider mirror.  InvImpl: the mirror's answer is admissible.      *)
EXTENDS Alarms, Json
CONSTANTS Deltas, RepeatMax, RDurs
VARIABLE x

StartVals == {NoVal, T("date", 0), T("floating", 720), T("utc", 720), T("zoned", 720)}
Especs(s) == {[k |-> "none", v |-> NoVal, d |-> 0], [k |-> "dur", v |-> NoVal, d |-> IF s.kind = "date" THEN 1440 ELSE 60],
              [k |-> "end", v |-> IF s = NoVal THEN T("utc", 810)
                                  ELSE IF s.kind = "date" THEN T("date", 2880) ELSE T(s.kind, s.m + 90), d |-> 0]}
Comps == {[start |-> s, espec |-> e] : s \in StartVals, e \in UNION {Especs(s2) : s2 \in StartVals}}
GoodComps == {c \in Comps : c.espec \in Especs(c.start)}
Trigs == {[k |-> "none", d |-> 0, related |-> "", m |-> 0], [k |-> "abs", d |-> 0, related |-> "", m |-> 700]}
         \cup {[k |-> "rel", d |-> d, related |-> r, m |-> 0] : d \in Deltas, r \in {"START", "END", "absent"}}
AlarmsAll == {[trig |-> t, repeat |-> n, dur |-> d] : t \in Trigs, n \in 0..RepeatMax, d \in RDurs \cup {-1}}
PairPool == {a \in AlarmsAll : a.repeat = 1 /\ a.dur = 10 /\ (a.trig.k # "rel" \/ a.trig.d \in {-90, 1440})}

Init == x \in {[c |-> c, alarms |-> <<a>>] : c \in GoodComps, a \in AlarmsAll}
          \cup {[c |-> c, alarms |-> <<a, b>>] : c \in GoodComps, a \in PairPool, b \in PairPool}
Next == UNCHANGED x
Spec == Init /\ [][Next]_x

\* a date start with a time-of-day DURATION is a forbidden state (C16): excluded by Especs
InvImpl == \A i \in 1..Len(x.alarms) :
              (x.c.start # NoVal /\ ~Missing(x.c, x.alarms[i])) => ImplAlarmTimes(x.c, x.alarms[i]) \in AlarmTimes(x.c, x.alarms[i])
\* cardinality theorem of Ref
InvCount == \A i \in 1..Len(x.alarms) : ~Missing(x.c, x.alarms[i]) =>
              \A s \in AlarmTimes(x.c, x.alarms[i]) : Len(s) = NTimes(x.alarms[i])
Vec == PrintT(ToJson([x |-> x,
         per |-> [i \in 1..Len(x.alarms) |->
                    [missing |-> Missing(x.c, x.alarms[i]),
                     ref |-> IF Missing(x.c, x.alarms[i]) THEN {} ELSE AlarmTimes(x.c, x.alarms[i]),
                     impl |-> IF x.c.start = NoVal THEN <<>> ELSE ImplAlarmTimes(x.c, x.alarms[i])]]]))
=============================================================================
