----------------------------- MODULE MC_Alarms15 -----------------------------
(* The whole C15 decision table: one state per row, one vector per row;       *)
(* monotonicity is checked on all pairs of rows related by "acknowledged      *)
(* later".                                                                    *)
EXTENDS Alarms, Json
CONSTANTS Ticks, Old
VARIABLE r
Opt == Ticks \cup {Absent}
Rows == {x \in [kind : {"utc", "zoned", "floating", "date"}, t : Ticks, ackA : Opt, ackC : Opt,
                snooze : Opt, local : BOOLEAN] : x.kind = "date" => x.t = 1}
Init == r \in Rows
\* AckLater: the same alarm with an acknowledgement moved later
Next == \E q \in Rows : Later(r, q) /\ q # r /\ r' = q
Spec == Init /\ [][Next]_r
InvImpl == (IF Old THEN ImplActiveOld(r) ELSE ImplActive(r)) = RefActive(r)
InvErr == RefActive(r) \in {"true", "false", LTM} /\ (RefActive(r) = LTM => (r.kind \in {"floating", "date"} /\ ~r.local))
\* action property: moving an acknowledgement later never activates an alarm
NeverActivates == [][RefActive(r') = "true" => RefActive(r) = "true"]_r
Vec == PrintT(ToJson([r |-> r, active |-> RefActive(r), trig |-> RefTrigger(r), ack |-> Ack(r),
                      inst |-> Instant(r), known |-> Known(r)]))
=============================================================================
