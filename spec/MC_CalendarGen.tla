--------------------------- MODULE MC_CalendarGen ---------------------------
EXTENDS CalendarGen, Json
Vec == PrintT(ToJson([shape |-> shape, props |-> props, ch |-> ch]))
=============================================================================
