----------------------------- MODULE MC_CanonSort -----------------------------
(* Canonical key order: every subset of Names against a declared priority     *)
(* order; one vector per subset.                                              *)
EXTENDS CaselessMap, TLC, Json
CONSTANTS Names, Order
VARIABLE S
Init == S \in SUBSET Names
Next == UNCHANGED S
Spec == Init /\ [][Next]_S
Sorted == CanonSort(S, Order)
\* Ref cross-check: a second formulation (position-wise characterisation)
InvPerm == /\ Len(Sorted) = Cardinality(S)
           /\ \A i, j \in 1..Len(Sorted) : i < j =>
                 \/ (InSeq(Sorted[i], Order) /\ ~InSeq(Sorted[j], Order))
                 \/ (InSeq(Sorted[i], Order) /\ InSeq(Sorted[j], Order) /\
                       (CHOOSE a \in 1..Len(Order) : Order[a] = Sorted[i]) < (CHOOSE b \in 1..Len(Order) : Order[b] = Sorted[j]))
                 \/ (~InSeq(Sorted[i], Order) /\ ~InSeq(Sorted[j], Order) /\ LexLess(Sorted[i], Sorted[j]))
Vec == PrintT(ToJson([S |-> S, sorted |-> Sorted]))
=============================================================================
