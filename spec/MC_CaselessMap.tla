--------------------------- MODULE MC_CaselessMap ---------------------------
(* Full reachable graph of the caseless mapping over a small key set that    *)
(* contains case variants of the same name.  One state per transition        *)
(* m; Next prints every transition as a self-contained vector.        *)
EXTENDS CaselessMap, TLC, Json

CONSTANTS RawKeys, Vals, MaxPairs

VARIABLE m
vars == m

UKeys == {Upper(k) : k \in RawKeys}
RawPairs == SeqsUpTo(RawKeys \X Vals, MaxPairs)
PlainUpper == {p \in SeqsUpTo(UKeys \X Vals, 2) : \A i, j \in 1..Len(p) : p[i][1] = p[j][1] => i = j}

Triple(q) == q[1][1] = q[3][1] /\ q[1][1] # q[2][1] /\ Upper(q[1][1]) = Upper(q[2][1]) /\ q[1][2] # q[3][2]
O(op, k, v, pairs, kw) == [op |-> op, k |-> k, v |-> v, pairs |-> pairs, kw |-> kw]
Ops ==
    {O(op, k, 0, <<>>, <<>>) : op \in {"getitem", "delitem", "contains"}, k \in RawKeys}
    \cup {O("setitem", k, v, <<>>, <<>>) : k \in RawKeys, v \in Vals}
    \cup {O(op, k, v, <<>>, <<>>) : op \in {"get", "pop", "setdefault"}, k \in RawKeys, v \in Vals \cup {None}}
    \cup {O(op, <<>>, 0, p, kw) : op \in {"new", "update"}, p \in RawPairs,
                                   kw \in {q \in RawPairs : Len(q) <= 1}}
    \cup {O(op, <<>>, 0, p, <<>>) : op \in {"or", "ror", "ior"}, p \in RawPairs}
    \* three pairs: a spelling repeated after a different-case variant of the same name
    \cup {O(op, <<>>, 0, p, <<>>) : op \in {"new", "update"}, p \in {q \in [1..3 -> RawKeys \X Vals] : Triple(q)}}
    \cup {O("eq", <<>>, 0, p, <<>>) : p \in PlainUpper}
    \cup {O(op, <<>>, 0, <<>>, <<>>) : op \in {"copy", "keys", "len", "clear", "popitem"}}

\* keys that survive a step keep their relative order; new keys are appended
OrderPred(a, b) ==
    /\ \A i, j \in 1..Len(a) : (i < j /\ Has(b, a[i][1]) /\ Has(b, a[j][1]))
                                  => Find(b, a[i][1]) < Find(b, a[j][1])
    /\ \A i \in 1..Len(b), j \in 1..Len(b) : (Has(a, b[i][1]) /\ ~Has(a, b[j][1])) => i < j

Init == m = <<>>
\* each state is expanded once, so every transition (m, o) is printed exactly once
Next == \E o \in Ops :
          LET r == Apply(m, o)
          IN /\ Assert(o.op = "new" \/ OrderPred(m, r.m), <<"OrderKept violated", m, o>>)
             /\ PrintT(ToJson([o |-> o, res |-> r.res, pre |-> m, post |-> r.m]))
             /\ m' = r.m
Spec == Init /\ [][Next]_vars

InvUpper == UpperOnly(m)
InvNoDup == NoDup(m)
=============================================================================
