--------------------------- MODULE MC_ComponentTree ---------------------------
(* All trees with <= MaxN nodes over Names x Props, and all pairs of them.      *)
EXTENDS ComponentTree, Json
CONSTANTS MaxN, Names, Props, Pairs, Old
VARIABLES t, u

ParentArrays(n) == {p \in [1..n -> 0..(n - 1)] : p[1] = 0 /\ \A i \in 2..n : p[i] >= 1 /\ p[i] < i}
Trees == UNION {{[par |-> p, nm |-> m, pr |-> r] : p \in ParentArrays(n), m \in [1..n -> Names], r \in [1..n -> Props]} : n \in 1..MaxN}

Init == t \in Trees /\ (IF Pairs THEN u \in Trees ELSE u = t)
Next == UNCHANGED <<t, u>>
Spec == Init /\ [][Next]_<<t, u>>

InvRefl == EquivT(t, t)
InvSym == EquivT(t, u) = EquivT(u, t)
InvImpl == (IF Old THEN ImplEqOld(t, 1, u, 1) ELSE ImplEqNew(t, 1, u, 1)) = EquivT(t, u)

\* single-field perturbations of t are never equivalent to t
Perturbed == UNION {{[t EXCEPT !.nm[i] = x] : x \in Names \ {t.nm[i]}} : i \in 1..N(t)}
             \cup UNION {{[t EXCEPT !.pr[i] = x] : x \in Props \ {t.pr[i]}} : i \in 1..N(t)}
InvPerturb == \A v \in Perturbed : ~EquivT(t, v)
\* reversing the children of every node (a permutation of subcomponents) keeps equivalence:
\* the mirrored tree is rebuilt by listing nodes in mirrored pre-order
RECURSIVE MPre(_, _)
RECURSIVE MPreList(_, _)
MPre(x, i) == <<i>> \o MPreList(x, Kids(x, i))
MPreList(x, ks) == IF ks = <<>> THEN <<>> ELSE MPre(x, ks[Len(ks)]) \o MPreList(x, SubSeq(ks, 1, Len(ks) - 1))
Mirror(x) == LET ord == MPre(x, 1)
                 pos(i) == CHOOSE k \in 1..Len(ord) : ord[k] = i
             IN [par |-> [k \in 1..N(x) |-> IF x.par[ord[k]] = 0 THEN 0 ELSE pos(x.par[ord[k]])],
                 nm |-> [k \in 1..N(x) |-> x.nm[ord[k]]], pr |-> [k \in 1..N(x) |-> x.pr[ord[k]]]]
InvMirror == EquivT(t, Mirror(t))

VecTree == PrintT(ToJson([t |-> t, pre |-> PreOrder(t), mirror |-> Mirror(t),
                          walks |-> [n \in Names |-> Walk(t, n)]]))
VecPair == PrintT(ToJson([t |-> t, u |-> u, eq |-> EquivT(t, u)]))
=============================================================================
