--------------------------- MODULE MC_ContentLine ---------------------------
(* C08: parameter maps through Parameters.to_ical/from_ical and through a     *)
(*      content line;  C05: join/split inverse and injection outcomes.        *)
(* State = one case (parameter list ps, value kind, value v); Init picks the  *)
(* enumeration family, Next stutters.  One vector per case.                   *)
EXTENDS TextCodec, Findings, TLC, Json

CONSTANTS PAlpha, VAlpha, PLen, VLen, LLen, Family

VARIABLE c
PName == <<80>>                \* "P"
QName == <<113>>               \* "q"  (lower case on purpose)
Scalar(k, v) == [k |-> k, list |-> FALSE, vals |-> <<v>>]
ListP(k, vs) == [k |-> k, list |-> Len(vs) > 1, vals |-> vs]
PW == SeqsUpTo(PAlpha, PLen)
LW == SeqsUpTo(PAlpha, LLen)
VW == SeqsUpTo(VAlpha, VLen)

Cases ==
    CASE Family = "scalar" -> {[ps |-> <<Scalar(PName, p)>>, kind |-> "text", v |-> <<118>>] : p \in PW}
      [] Family = "list"   -> {[ps |-> <<ListP(PName, vs)>>, kind |-> "text", v |-> <<118>>] :
                                 vs \in UNION {[1..n -> LW] : n \in 2..3}}
      [] Family = "two"    -> {[ps |-> <<Scalar(k1, p1), Scalar(k2, p2)>>, kind |-> "text", v |-> <<118>>] :
                                 k1 \in {PName, QName}, k2 \in {PName, QName, <<65>>}, p1 \in LW, p2 \in LW} 
      [] Family = "inject" -> {[ps |-> <<Scalar(PName, p)>>, kind |-> k, v |-> v] :
                                 p \in PW, v \in VW, k \in {"text", "raw"}}
      [] Family = "injectlist" -> {[ps |-> <<ListP(PName, vs)>>, kind |-> k, v |-> v] :
                                 vs \in UNION {[1..n -> PW] : n \in 2..2}, v \in VW, k \in {"raw"}}
      [] Family = "value"  -> {[ps |-> <<>>, kind |-> k, v |-> v] : v \in VW, k \in {"text", "raw"}}

Init == c \in {x \in Cases : \A i, j \in 1..Len(x.ps) : Upper(x.ps[i].k) = Upper(x.ps[j].k) => i = j}
Next == UNCHANGED c
Spec == Init /\ [][Next]_c

Enc(kind, v) == IF kind = "text" THEN ImplEsc(v) ELSE v
Dec(kind, t) == IF kind = "text" THEN ImplUnesc(t) ELSE t

\* ---- level (a): Parameters alone
WireA(ps) == ImplParamsToIcal(ps, TRUE)
BackA(ps) == ImplParamsFromIcal(WireA(ps), FALSE)
OkA(ps) == LET b == BackA(ps) IN b.ok /\ SameParams(b.ps, ps)
\* ---- level (b,c): inside a content line (line and parts are computed once per case)
LineOf(x) == ImplFromParts(NameX, x.ps, Enc(x.kind, x.v), TRUE)
ParamNames(ps) == {Upper(ps[i].k) : i \in 1..Len(ps)}
Facts(x) ==
    LET line == LineOf(x)
        refused == Contains(line, LF)              \* Contentline.__new__ asserts
        p == ImplParts(line, FALSE)
        r == RefSplit(line)
    IN [line |-> line, refused |-> refused, parts |-> p,
        okB |-> p.ok /\ p.name = NameX /\ SameParams(p.params, x.ps),
        okValue |-> p.ok /\ Dec(x.kind, p.value) \in Norms(x.v),
        \* the wire, read by the RFC grammar, denotes the same parameters (=> proper quoting)
        quoteOK |-> r.ok /\ SameParams(r.params, x.ps),
        \* injection outcome: structure = property name + parameter names
        outcome |-> IF refused THEN "refused"
                    ELSE IF ~p.ok THEN "rejected"
                    ELSE IF p.name = NameX /\ ParamNames(p.params) = ParamNames(x.ps) /\ Len(p.params) = Len(x.ps)
                         THEN "exact" ELSE "corrupted"]
Refused(x) == Contains(LineOf(x), LF)
InvNoLfOnWire == TRUE   \* by construction of Refused; kept for the cfg files

\* domain of C08: values free of DQUOTE and control characters
InDomain08(ps) == \A i \in 1..Len(ps) : \A j \in 1..Len(ps[i].vals) : ~QUnsafe(ps[i].vals[j])

\* the mirror's failure set lies inside the known-finding classes
InvKF08 == LET f == Facts(c) IN
           (InDomain08(c.ps) /\ ~f.refused /\ ~(OkA(c.ps) /\ f.okB /\ f.quoteOK)) => KF_C08_Unescape(c.ps)
InvKF05 == LET f == Facts(c) IN
           /\ f.outcome = "corrupted" => KF_C05_ParamBackslash(c.ps)
           /\ (~f.refused /\ f.parts.ok /\ ~f.okValue) => (KF_C08_Unescape(c.ps) \/ KF_C07_PropUnescape(c.v) \/ KF_C07_Bom(c.v))

Vec == LET f == Facts(c) IN PrintT(ToJson([c |-> c, dom08 |-> InDomain08(c.ps),
          wireA |-> WireA(c.ps), backA |-> BackA(c.ps), okA |-> OkA(c.ps),
          line |-> f.line, refused |-> f.refused, parts |-> f.parts,
          okB |-> f.okB, okValue |-> f.okValue, quoteOK |-> f.quoteOK, outcome |-> f.outcome]))
=============================================================================
