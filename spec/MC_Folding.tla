----------------------------- MODULE MC_Folding -----------------------------
(* Impl |= IsFolding for every line over Alpha up to MaxLen (InitEnum/NextEnum) *)
(* and for the boundary family a^i w a^j around the 75-octet limit            *)
(* (InitBoundary/NextNone).  One vector per line.                             *)
EXTENDS Folding, TLC, Json
CONSTANTS Limit, MaxLen, Alpha, Wide, Lo, Hi, Tails, Emit

VARIABLE s
InitEnum == s = <<>>
NextEnum == Len(s) < MaxLen /\ \E c \in Alpha : s' = Append(s, c)

Rep(c, n) == [i \in 1..n |-> c]
InitBoundary == s \in {Rep(97, i) \o w \o Rep(97, j) :
                         i \in Lo..Hi, w \in (SeqsUpTo(Wide, 2) \ {<<>>}), j \in Tails}
NextNone == UNCHANGED s

InvFold == IsFolding(s, ImplFold(s, Limit), Limit)
InvUnfold == ImplUnfold(ImplFold(s, Limit)) = s
\* the octet-level formulation agrees (Ref cross-check is done in the trace spec)
Vec == Emit => PrintT(ToJson([s |-> s, limit |-> Limit, out |-> ImplFold(s, Limit)]))
=============================================================================
