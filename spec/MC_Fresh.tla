------------------------------ MODULE MC_Fresh ------------------------------
(* Every behaviour of Fresh up to MaxOps operations, printed once as a vector  *)
(* (the history with the expected view of every handle after the last step).  *)
EXTENDS Fresh, Json
Maximal == Len(hist) = MaxOps \/ (N = MaxCalls /\ \A h \in 1..N : MutatedThrough(h))
Vec == Maximal => PrintT(ToJson([hist |-> hist, expected |-> [h \in 1..N |-> Expected(h)]]))
=============================================================================
