------------------------------ MODULE MC_Parser ------------------------------
(* Every abstract line sequence up to MaxLen; stability and isolation are      *)
(* invariants; one vector per sequence (when Emit).                            *)
EXTENDS Parser, Json
CONSTANTS MaxLen, EmitLen
VARIABLE x
Tokens == {L("B", "CAL", "", ""), L("B", "EV", "", ""), L("B", "X", "", ""), L("E", "", "", ""),
           L("P", "", "SUMMARY", "v1"), L("P", "", "DTSTART", "v1"), L("PB", "", "DTSTART", ""),
           L("J", "", "", ""), L("XC", "", "X-COMMENT", "v1")}
Rank == [n \in {"SUMMARY", "DTSTART", "X-COMMENT"} |-> CASE n = "SUMMARY" -> 1 [] n = "DTSTART" -> 2 [] OTHER -> 3]
Init == x = <<>>
Next == Len(x) < MaxLen /\ \E t \in Tokens : x' = Append(x, t)
Spec == Init /\ [][Next]_x
InvStable == Stable(x, Rank)
InvIsolated == \A i \in 0..Len(x) : \A b \in {L("J", "", "", ""), L("PB", "", "DTSTART", "")} : Isolated(x, i, b)
\* termination of the loop: every sequence is consumed and the outcome is one of two
InvTotal == Parse(x, TRUE)[1] \in {"ok", "err"} /\ Parse(x, FALSE)[1] \in {"ok", "err"}
Vec == Len(x) <= EmitLen => PrintT(ToJson([x |-> x, multi |-> Parse(x, TRUE), single |-> Parse(x, FALSE)]))
=============================================================================
