----------------------------- MODULE MC_ParserRun -----------------------------
(* The line loop as a stepping system: one action per consumed line.  Liveness:  *)
(* every input is consumed (or the loop stops/raises) -- checked with weak       *)
(* fairness and without any state constraint.  Safety: the stepping system and   *)
(* the recursive fold Parser!Run agree.                                          *)
EXTENDS Parser
CONSTANTS MaxLen
VARIABLES input, rest, s
vars == <<input, rest, s>>
Tokens == {L("B", "CAL", "", ""), L("B", "EV", "", ""), L("E", "", "", ""), L("P", "", "SUMMARY", "v1"),
           L("PB", "", "DTSTART", ""), L("J", "", "", ""), L("XC", "", "X-COMMENT", "v1")}
Init == /\ input \in UNION {[1..n -> Tokens] : n \in 0..MaxLen}
        /\ rest = input /\ s = S0
Consume == /\ rest # <<>> /\ s.out = "run"
           /\ s' = Step(s, rest[1]) /\ rest' = Tail(rest) /\ UNCHANGED input
Next == Consume
Spec == Init /\ [][Next]_vars /\ WF_vars(Consume)
Done == rest = <<>> \/ s.out # "run"
Terminates == <>Done
\* at the end the stepping system has computed what the fold computes
InvAgree == Done => (s.out = Run(S0, input).out /\ (s.out # "err" => s.comps = Run(S0, input).comps))
=============================================================================
