--------------------------- MODULE MC_PropertyTypes ---------------------------
EXTENDS PropertyTypes, Json
VARIABLE c
Init == c \in Cells
Next == UNCHANGED c
Spec == Init /\ [][Next]_c
InvTable == TableConsistent
Vec == PrintT(ToJson([n |-> c[1], k |-> c[2], default |-> Table[c[1]].default, type |-> Kinds[c[2]].type,
                      list |-> Kinds[c[2]].list, zone |-> IF c[1] \in UtcOnly THEN "utc" ELSE Kinds[c[2]].zone]))
=============================================================================
