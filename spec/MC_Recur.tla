------------------------------ MODULE MC_Recur ------------------------------
(* Rules = FREQ plus up to MaxParts further parts from Pool, in every          *)
(* insertion order.  One vector per rule.                                      *)
EXTENDS Recur, TLC, Json
CONSTANTS Pool, Freqs, MaxParts, Canon
VARIABLE rule
Init == rule = <<>>
Next == /\ Len(rule) < MaxParts + 1
        /\ \E p \in Pool \cup Freqs : p[1] \notin PartNames(rule) /\ rule' = Append(rule, p)
Spec == Init /\ [][Next]_rule
HasFreq == FREQ \in PartNames(rule)
Text == ImplEnc(rule, Canon)
InvGrammar == HasFreq => InG_Recur(Text)
InvDen == HasFreq => RefParse(Text) = ImplCanon(rule, Canon)
InvStable == HasFreq => ImplEnc(RefParse(Text), Canon) = Text
\* the order in which the caller supplied the parts does not matter
InvOrder == HasFreq => \A i \in 1..(Len(rule) - 1) :
               ImplEnc([k \in 1..Len(rule) |-> IF k = i THEN rule[i + 1] ELSE IF k = i + 1 THEN rule[i] ELSE rule[k]], Canon) = Text
Vec == HasFreq => PrintT(ToJson([rule |-> rule, text |-> Text, canon |-> ImplCanon(rule, Canon)]))
=============================================================================
