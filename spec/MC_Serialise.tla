----------------------------- MODULE MC_Serialise -----------------------------
(* Insertion histories of one VEVENT: add(name, id) and add_component(alarm id). *)
(* State = history; one vector per history.                                     *)
EXTENDS Serialise, Json
CONSTANTS AddOps, SubIds, MaxLen, Canon
VARIABLE hist

Ops == AddOps \cup {<<"sub", <<>>, c>> : c \in SubIds}
Init == hist = <<>>
Next == Len(hist) < MaxLen /\ \E o \in Ops : hist' = Append(hist, o)
Spec == Init /\ [][Next]_hist

RECURSIVE PropsOf(_, _)
PropsOf(h, acc) ==
    IF h = <<>> THEN acc
    ELSE IF h[1][1] # "add" THEN PropsOf(Tail(h), acc)
    ELSE LET n == h[1][2]
             id == h[1][3]
         IN IF \E k \in 1..Len(acc) : acc[k][1] = n
            THEN PropsOf(Tail(h), [k \in 1..Len(acc) |-> IF acc[k][1] = n THEN <<n, Append(acc[k][2], id)>> ELSE acc[k]])
            ELSE PropsOf(Tail(h), Append(acc, <<n, <<id>>>>))
SubsOf(h) == SelectSeq(h, LAMBDA o : o[1] = "sub")
XID == <<88, 45, 73, 68>>
Tree(h) ==
    LET subs == SubsOf(h) IN
    [par |-> <<0>> \o [k \in 1..Len(subs) |-> 1],
     nm |-> <<"VEVENT">> \o [k \in 1..Len(subs) |-> "VALARM"],
     props |-> <<PropsOf(h, <<>>)>> \o [k \in 1..Len(subs) |-> <<<<XID, <<subs[k][3]>>>>>>],
     canon |-> <<Canon>> \o [k \in 1..Len(subs) |-> <<>>]]

Swap(h, k) == [i \in 1..Len(h) |-> IF i = k THEN h[k + 1] ELSE IF i = k + 1 THEN h[k] ELSE h[i]]
\* two neighbouring operations commute unless they add the same name or are both subcomponents
Commute(a, b) == IF a[1] = "sub" /\ b[1] = "sub" THEN FALSE
                 ELSE IF a[1] = "add" /\ b[1] = "add" THEN a[2] # b[2] ELSE TRUE
InvSwap == \A k \in 1..(Len(hist) - 1) :
              Commute(hist[k], hist[k + 1]) => Emit(Tree(Swap(hist, k)), TRUE) = Emit(Tree(hist), TRUE)
InvBalanced == Balanced(Emit(Tree(hist), TRUE)) /\ Balanced(Emit(Tree(hist), FALSE))
\* the sorted and the unsorted output contain the same lines
InvSameLines == LET a == Emit(Tree(hist), TRUE)
                    b == Emit(Tree(hist), FALSE)
                IN {a[i] : i \in 1..Len(a)} = {b[i] : i \in 1..Len(b)} /\ Len(a) = Len(b)
Vec == PrintT(ToJson([hist |-> hist, sorted |-> Emit(Tree(hist), TRUE), unsorted |-> Emit(Tree(hist), FALSE)]))
=============================================================================
