----------------------------- MODULE MC_StartEnd -----------------------------
(* Full reachable graph from every slot combination (any combination can be   *)
(* produced by parsing) under all mutators.  so = "only setters/deleters were *)
(* applied since the empty component".                                        *)
EXTENDS StartEnd, Json
CONSTANTS Vals, Durs, Old
VARIABLES s, so

SlotVals == Vals \cup {ABSENT, MULTI, GARBAGE}
DurVals == {Dur(h) : h \in Durs} \cup {ABSENT, MULTI, GARBAGE, WRONG}
States == [dtstart : SlotVals, endp : SlotVals, dur : DurVals]

O(op, v) == [op |-> op, v |-> v]
Ops == {O(op, v) : op \in {"set_start", "set_DTSTART", "set_end", "set_END"}, v \in Vals \cup {PYNONE}}
       \cup {O("set_DURATION", v) : v \in {Dur(h) : h \in Durs} \cup {PYNONE}}
       \cup {O(op, ABSENT) : op \in {"del_DTSTART", "del_END", "del_DURATION"}}
       \cup {O(op, v) : op \in {"add_DTSTART", "add_END"}, v \in Vals \cup {GARBAGE}}
       \cup {O("add_DURATION", v) : v \in {Dur(h) : h \in Durs} \cup {GARBAGE, WRONG}}

Init == \/ s = Empty /\ so = TRUE
        \/ s \in States /\ so = FALSE
Next == \E o \in Ops :
          LET t == RefStep(s, o)
              so2 == so /\ o.op \in SetterOps
          IN /\ PrintT(ToJson([pre |-> s, so |-> so, o |-> o, post |-> t, obs |-> ImplObs(t)]))
             /\ s' = t /\ so' = so2
Spec == Init /\ [][Next]_<<s, so>>

InvExclusive == so => Exclusive(s)
ObsOf(x) == IF Old THEN [ImplObs(x) EXCEPT !.DURATION = ImplGetDurationOld(x.dur)] ELSE ImplObs(x)
InvObs == ObsOK(s, ObsOf(s)) /\ Identities(s, ObsOf(s))
\* one vector per state for the parse binding
VecState == so \/ PrintT(ToJson([state |-> s, obs |-> ImplObs(s)]))
=============================================================================
