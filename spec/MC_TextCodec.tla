---------------------------- MODULE MC_TextCodec ----------------------------
(* Enumerates every string over Alpha up to MaxLen (one state per string),   *)
(* checks the clauses that hold of the Impl mirror as invariants and prints  *)
(* one JSON vector per string for replay into the real code.                 *)
EXTENDS TextCodec, Findings, TLC, Json

CONSTANTS MaxLen, Alpha, Emit

VARIABLE s
Init == s = <<>>
Next == Len(s) < MaxLen /\ \E c \in Alpha : s' = Append(s, c)
Spec == Init /\ [][Next]_s

\* P:C07:enc-den, P:C07:enc-safe hold of the mirror for every string
InvEnc == EncOK(s)

\* the failure set of the mirror lies inside the known-finding classes; the codec alone is lossless
InvCodec == CodecOK(s)
InvKF == ~PropOK(s) => (KF_C07_PropUnescape(s) \/ KF_C07_Bom(s))
InvOld == ImplUnescOld(ImplEsc(s)) \in Norms(s)      \* refuted: the fixed defect C07-F1

\* grammar-valid escaped texts decode to Den (codec alone), as far as the mirror goes
DecOK(t) == InTextGrammar(t) => ImplUnesc(t) \in {Den(t), N1(Den(t))}

Vec == Emit => PrintT(ToJson([
          s |-> s, esc |-> ImplEsc(s), norms |-> Norms(s),
          codec |-> ImplCodec(s), codecOK |-> CodecOK(s),
          prop |-> ImplProp(s), propOK |-> PropOK(s),
          gram |-> InTextGrammar(s), den |-> Den(s), unesc |-> ImplUnesc(s), decOK |-> DecOK(s)]))
=============================================================================
