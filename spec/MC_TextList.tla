----------------------------- MODULE MC_TextList -----------------------------
(* CATEGORIES-style lists: every list of 1..MaxItems items over Alpha with   *)
(* items of length <= MaxLen; one JSON vector per list.                      *)
EXTENDS TextCodec, Findings, TLC, Json

CONSTANTS MaxLen, MaxItems, Alpha

Words == SeqsUpTo(Alpha, MaxLen)

VARIABLE items
Init == items \in UNION {[1..n -> Words] : n \in 1..MaxItems}
Next == UNCHANGED items
Spec == Init /\ [][Next]_items

\* the wire text always denotes the items under the RFC reading (the encoder is right)
WireDen(its) == LET w == Join([i \in 1..Len(its) |-> ImplEsc(its[i])], <<COMMA>>)
                IN ItemsOK(its, DenList(w))
InvWire == WireDen(items)

InvKF == /\ ~ItemsOK(items, ImplCatCodec(items)) => (KF_C07_ListComma(items) \/ KF_C07_Bom(items[1]))
         /\ (LET r == ImplCatProp(items) IN ~(r.ok /\ ItemsOK(items, r.v)) => KF_C07_List(items))

Vec == PrintT(ToJson([
          items |-> items, wire |-> ImplCatWire(items),
          codec |-> ImplCatCodec(items), codecOK |-> ItemsOK(items, ImplCatCodec(items)),
          prop |-> ImplCatProp(items),
          propOK |-> (LET r == ImplCatProp(items) IN r.ok /\ ItemsOK(items, r.v))]))
=============================================================================
