------------------------------ MODULE MC_TzCache ------------------------------
EXTENDS TzCache, Json
CONSTANTS Defs, MaxItems
VARIABLE cache
Cals == {c \in UNION {[1..n -> Defs \cup {0}] : n \in 2..MaxItems} : WellFormedCal(c)}
Init == cache = 0
ParseCal(c) == cache' = ImplParse(c, cache).cache /\ PrintT(ToJson([cache |-> cache, cal |-> c, impl |-> ImplParse(c, cache).uses,
                                                                  ref |-> RefUse(c), kf |-> KF_History(c, cache)]))
Switch == cache' = 0
Next == (\E c \in Cals : ParseCal(c)) \/ Switch
Spec == Init /\ [][Next]_cache
\* wherever the mirror departs from Ref the case lies in the known-finding class, and vice versa
InvDelta == \A c \in Cals : (\E k \in 1..Len(ImplParse(c, cache).uses) : ImplParse(c, cache).uses[k] # RefUse(c)) <=> KF_History(c, cache)
\* refuted: the design does not meet the history clause
InvHistory == \A c \in Cals : \A k \in 1..Len(ImplParse(c, cache).uses) : ImplParse(c, cache).uses[k] = RefUse(c)
=============================================================================
