---------------------------- MODULE MC_TzCacheCap ----------------------------
EXTENDS TzCacheCap
VARIABLE cache
Cals == UNION {[1..n -> Items] : n \in 1..MaxItems}
Init == cache = <<>>
Next == \E cal \in Cals : cache' = Parse(cal, cache).cache
Spec == Init /\ [][Next]_cache
\* a regular calendar gets its own definitions, whatever was parsed before (holds for Cap = 0, refuted for Cap > 0)
OwnDefinition == \A cal \in Cals : Regular(cal, cache) => Parse(cal, cache).uses = RefUses(cal)
=============================================================================
