----------------------------- MODULE MC_TzSearch -----------------------------
(* The coarse-to-fine search of Timezone.from_tzinfo on integer ticks: does it  *)
(* find every transition of every source with at most MaxTr transitions?        *)
EXTENDS VTimezone
CONSTANTS Horizon, MaxTr, MinGap
Ladder == <<8, 4, 2, 1>>
VARIABLE src
Init == src \in {s \in SUBSET (1..(Horizon - 1)) : Cardinality(s) <= MaxTr /\ \A a, b \in s : a # b => (a - b >= MinGap \/ b - a >= MinGap)}
Next == UNCHANGED src
Spec == Init /\ [][Next]_src
\* refuted when MinGap is smaller than the largest step: a short excursion is skipped
InvFindsAll == Search(src, 0, Ladder, Horizon) = TrueStarts(src, Horizon)
\* termination: every recorded start is a new one (the recursion strictly advances)
InvSound == Search(src, 0, Ladder, Horizon) \subseteq TrueStarts(src, Horizon)
=============================================================================
