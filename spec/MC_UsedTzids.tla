---------------------------- MODULE MC_UsedTzids ----------------------------
EXTENDS UsedTzids, Json
\* one vector per state (queries) -- transitions are re-derived by the harness from RefAfterAddMissing
Vec == PrintT(ToJson([uses |-> uses, present |-> present, used |-> RefUsed, missing |-> RefMissing,
                      after |-> RefAfterAddMissing]))
=============================================================================
