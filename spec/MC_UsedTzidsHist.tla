-------------------------- MODULE MC_UsedTzidsHist --------------------------
EXTENDS UsedTzidsHist, Json
Vec == (Len(hist) = MaxOps /\ hist[Len(hist)].op = "addmissing") =>
         PrintT(ToJson([hist |-> hist, missing |-> uses \ present, present |-> present]))
=============================================================================
