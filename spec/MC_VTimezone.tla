----------------------------- MODULE MC_VTimezone -----------------------------
(* Families of VTIMEZONE definitions given by parameters; per zone the probes    *)
(* (every onset -1/0/+1 minute and midpoints) with the admissible answers.       *)
EXTENDS VTimezone, Json
CONSTANTS Y0s, Y0Old, OffPairs, Ends, Fixed, Cross   \* Y0Old: start years before 1900 (yearly pairs only)
VARIABLE z        \* sequence of observance parameter records

None == [k |-> "none", set |-> {}, m |-> 0, n |-> 0, w |-> 0, hm |-> 0, y0 |-> 0, endk |-> "", endv |-> 0]
RDate(S) == [None EXCEPT !.k = "rdate", !.set = S]
Yearly(m, n, w, hm, y0, endk, endv) == [k |-> "yearly", set |-> {}, m |-> m, n |-> n, w |-> w, hm |-> hm, y0 |-> y0, endk |-> endk, endv |-> endv]
Ob(kind, name, from, to, start, rec) == [kind |-> kind, name |-> name, from |-> from, to |-> to, start |-> start, rec |-> rec]
YStart(m, n, w, hm, y0) == Minutes(y0, m, NthWeekday(y0, m, n, w), hm)
EndV(e, y0) == IF e = "count" THEN 3 ELSE IF e = "until" THEN Minutes(y0 + 5, 7, 1, 0) ELSE 0

\* rule shapes: <<month std, nth, weekday, hm>>, <<month dst, nth, weekday, hm>>
Rules == {<<<<10, -1, 0, 180>>, <<3, -1, 0, 120>>>>,          \* EU: last Sunday of October 03:00 / March 02:00
          <<<<11, 1, 0, 120>>, <<3, 2, 0, 120>>>>,            \* US: first Sunday of November / second Sunday of March
          <<<<4, 1, 0, 180>>, <<10, 1, 6, 120>>>>,            \* southern: DST starts first Saturday of October, ends April
          <<<<9, 4, 5, 0>>, <<5, 1, 1, 1380>>>>}              \* odd: fourth Friday 00:00 / first Monday 23:00
FixedZones == {<<Ob("STANDARD", "FIX", o, o, Minutes(1970, 1, 1, 0), None)>> : o \in Fixed}
YearlyZones == {<<Ob("STANDARD", "STD", p[2], p[1], YStart(r[1][1], r[1][2], r[1][3], r[1][4], y0),
                     Yearly(r[1][1], r[1][2], r[1][3], r[1][4], y0, e1, EndV(e1, y0))),
                  Ob("DAYLIGHT", "DST", p[1], p[2], YStart(r[2][1], r[2][2], r[2][3], r[2][4], y0),
                     Yearly(r[2][1], r[2][2], r[2][3], r[2][4], y0, e2, EndV(e2, y0)))>> :
                  y0 \in Y0s \cup Y0Old, p \in OffPairs, r \in Rules, e1 \in Ends, e2 \in Ends}
\* UNTIL on the inclusive boundary: the UTC instant of the rule's own onset three years on (that onset still takes place;
\* east of Greenwich its local time is later than the UNTIL read as a local time)
UntilAt(r, from, y0) == YStart(r[1], r[2], r[3], r[4], y0 + 3) - from
UntilXZones == {<<Ob("STANDARD", "STD", p[2], p[1], YStart(r[1][1], r[1][2], r[1][3], r[1][4], y0),
                     Yearly(r[1][1], r[1][2], r[1][3], r[1][4], y0, IF which \in {1, 3} THEN "until" ELSE "open", IF which \in {1, 3} THEN UntilAt(r[1], p[2], y0) ELSE 0)),
                  Ob("DAYLIGHT", "DST", p[1], p[2], YStart(r[2][1], r[2][2], r[2][3], r[2][4], y0),
                     Yearly(r[2][1], r[2][2], r[2][3], r[2][4], y0, IF which \in {2, 3} THEN "until" ELSE "open", IF which \in {2, 3} THEN UntilAt(r[2], p[1], y0) ELSE 0))>> :
                  y0 \in Y0s, p \in OffPairs, r \in Rules, which \in {1, 2, 3}}     \* 3: both rules end on their boundary
RDateZones == {<<Ob("STANDARD", "S", p[2], p[1], Minutes(y0, 10, 25, 180), RDate({Minutes(y0 + 1, 10, 30, 180), Minutes(y0 + 3, 11, 2, 180)})),
                 Ob("DAYLIGHT", "D", p[1], p[2], Minutes(y0 + 1, 3, 28, 120), RDate({Minutes(y0 + 3, 4, 1, 120)}))>> :
                 y0 \in Y0s, p \in OffPairs}
\* a permanent change of the standard offset followed by a yearly pair
ThreeZones == {<<Ob("STANDARD", "OLD", p[1] - 60, p[1] - 60, Minutes(1970, 1, 1, 0), None),
                 Ob("STANDARD", "STD", p[2], p[1], YStart(10, -1, 0, 180, y0), Yearly(10, -1, 0, 180, y0, "open", 0)),
                 Ob("DAYLIGHT", "DST", p[1] - 60, p[2], Minutes(y0, 3, 1, 0), RDate({})),
                 Ob("DAYLIGHT", "DST", p[1], p[2], YStart(3, -1, 0, 120, y0 + 1), Yearly(3, -1, 0, 120, y0 + 1, "open", 0))>> :
                 y0 \in Y0s, p \in OffPairs}
\* two observances whose onsets keep one order in local time and the other in UTC (far-apart TZOFFSETFROM)
CrossZones == {<<Ob("STANDARD", "A", a, 0, Minutes(2001, 6, 1, 600), None),
                 Ob("DAYLIGHT", "B", b, 60, Minutes(2001, 6, 1, 600 - d), None)>> :
                 a \in {840, 600}, b \in {-720, -300}, d \in {30, 240}}
\* the abbreviation changes while the offset stays (+1000 EST -> AEST): the name is part of the answer
RenameZones == {<<Ob("STANDARD", "OLDN", o, o, Minutes(1970, 1, 1, 0), None),
                  Ob("STANDARD", "NEWN", o, o, Minutes(y0, 3, 1, 120), None)>> : o \in Fixed, y0 \in Y0s}
              \cup {<<Ob("STANDARD", "N1", o, o, Minutes(1970, 1, 1, 0), None),
                      Ob("DAYLIGHT", "N2", o, o, Minutes(y0, 3, 1, 120), None),
                      Ob("STANDARD", "N3", o, o, Minutes(y0 + 1, 10, 1, 180), RDate({Minutes(y0 + 3, 10, 1, 180)})),
                      Ob("DAYLIGHT", "N2", o, o, Minutes(y0 + 2, 3, 1, 120), None)>> : o \in Fixed, y0 \in Y0s}
Init == z \in FixedZones \cup YearlyZones \cup UntilXZones \cup RDateZones \cup ThreeZones \cup RenameZones \cup (IF Cross THEN CrossZones ELSE {})
Next == UNCHANGED z
Spec == Init /\ [][Next]_z

Zone == [i \in 1..Len(z) |-> WithLocal(z[i])]
ProbesOf(T) == {t + d : t \in T, d \in {-1, 0, 1}} \cup {t + 60 * 24 * 45 : t \in T}
Answers ==
    LET zone == Zone
        ons == Onsets(zone)
        T == {o.t : o \in ons}
        first == CHOOSE a \in T : \A b \in T : a <= b
        good == {t \in ProbesOf(T) : t >= first}
        tr == ImplTransitions(zone)
        times == ImplTimes(tr)
    IN [t \in good |-> LET act == ActiveIn(ons, t) IN
                         [off |-> {zone[i].to : i \in act}, name |-> {zone[i].name : i \in act}, kind |-> {zone[i].kind : i \in act},
                          impl |-> ImplAnswerIn(zone, tr, times, t)]]
\* Ref cross-check: the answer is unique whenever no two observances share an onset instant
InvUnique == LET a == Answers
                 ons == Onsets(Zone)
             IN (\A x, y \in ons : x.t = y.t => x.i = y.i) => \A t \in DOMAIN a : Cardinality(a[t].off) = 1
InvNonEmpty == DOMAIN Answers # {}
\* the pytz-path mirror answers like Ref wherever Ref is unambiguous (refuted on CrossZones: local order # UTC order)
InvPytzMirror == LET a == Answers
                 IN \A t \in DOMAIN a : Cardinality(a[t].off) = 1 => (a[t].impl.off \in a[t].off /\ a[t].impl.name \in a[t].name)
Vec == PrintT(ToJson([z |-> z, probes |-> Answers]))
=============================================================================
