---------------------------- MODULE MC_ValueCodecs ----------------------------
(* Value families per type; per value: the Impl encoder's text (where the       *)
(* encoder is mirrored), the set of admissible RFC texts, and invariants        *)
(* Impl_enc(v) in G_T, Den_T(Impl_enc(v)) = v, Den_T(t) = v for admissible t,   *)
(* classifier = grammar membership.                                             *)
EXTENDS ValueCodecs, TLC, Json
CONSTANTS Family, Years, Days, Hs, Ms, Ss, DDays, OffSecsSet
VARIABLE c      \* [type, v]

Dates == {<<y, m, d>> : y \in Years, m \in 1..12, d \in Days}
ValidDates == {v \in Dates : ValidDate(v[1], v[2], v[3])}
Times == {<<h, m, s>> : h \in Hs, m \in Ms, s \in Ss}
Durs == {<<sg, d, h * 3600 + m * 60 + s>> : sg \in {1, -1}, d \in DDays, h \in {0, 1, 23}, m \in {0, 1, 59}, s \in {0, 1, 59}}
NormDurs == {v \in Durs : ~(v[2] = 0 /\ v[3] = 0 /\ v[1] = -1)}
Offs == {v \in {<<sg, s>> : sg \in {1, -1}, s \in OffSecsSet} : ~(v[2] = 0 /\ v[1] = -1)}

Cases ==
    CASE Family = "date" -> {[type |-> "date", v |-> v] : v \in ValidDates}
      [] Family = "time" -> {[type |-> "time", v |-> v] : v \in Times}
      [] Family = "datetime" -> {[type |-> "date-time", v |-> d \o t \o <<u>>] : d \in ValidDates, t \in Times, u \in {0, 1}}
      [] Family = "duration" -> {[type |-> "duration", v |-> v] : v \in NormDurs}
      [] Family = "offset" -> {[type |-> "utc-offset", v |-> v] : v \in Offs}
      [] Family = "period" -> {[type |-> "period", v |-> <<d \o t \o <<u>>, k, IF k = "e" THEN d \o <<23, 59, 59>> \o <<u>> ELSE dv>>] :
                                 d \in ValidDates, t \in Times, u \in {0, 1}, k \in {"e", "d"},
                                 dv \in {x \in NormDurs : x[1] = 1 /\ x[2] \in {0, 1} /\ x[3] \in {0, 3600, 3661}}}
Init == c \in Cases
Next == UNCHANGED c
Spec == Init /\ [][Next]_c

\* ---- admissible texts
DurTexts(v) ==
    LET sg == IF v[1] = -1 THEN {<<cMinus>>} ELSE {<<>>, <<cPlus>>}
        d == v[2]
        hh == v[3] \div 3600
        mm == (v[3] % 3600) \div 60
        ss == v[3] % 60
        full == <<cT>> \o DigitsOf(hh) \o <<cH>> \o DigitsOf(mm) \o <<cM>> \o DigitsOf(ss) \o <<cS>>
        bodies == {DigitsOf(d) \o <<cD>> \o full}
                  \cup (IF v[3] = 0 THEN {DigitsOf(d) \o <<cD>>} ELSE {})
                  \cup (IF v[3] = 0 /\ d % 7 = 0 /\ d > 0 THEN {DigitsOf(d \div 7) \o <<cW>>} ELSE {})
                  \cup (IF d = 0 THEN {full, <<cT>> \o DigitsOf(v[3]) \o <<cS>>, <<cT>> \o DigitsOf(hh * 60 + mm) \o <<cM>> \o DigitsOf(ss) \o <<cS>>} ELSE {})
                  \cup (IF ss = 0 /\ v[3] # 0 THEN {DigitsOf(d) \o <<cD, cT>> \o DigitsOf(hh) \o <<cH>> \o DigitsOf(mm) \o <<cM>>} ELSE {})
    IN {s \o <<cP>> \o b : s \in sg, b \in bodies} \cup {ImplEnc_Duration(v)}
OffTexts(v) ==
    LET hh == v[2] \div 3600
        mm == (v[2] % 3600) \div 60
        ss == v[2] % 60
        sg == IF v[1] = -1 THEN cMinus ELSE cPlus
    IN {<<sg>> \o Digits(hh, 2) \o Digits(mm, 2) \o Digits(ss, 2)} \cup {ImplEnc_Offset(v)}
PeriodText(v) == Enc_DateTime(v[1]) \o <<cSlash>> \o (IF v[2] = "e" THEN Enc_DateTime(v[3]) ELSE ImplEnc_Duration(v[3]))

Impl(x) == CASE x.type = "date" -> Enc_Date(x.v) [] x.type = "time" -> Enc_Time(x.v)
             [] x.type = "date-time" -> Enc_DateTime(x.v) [] x.type = "duration" -> ImplEnc_Duration(x.v)
             [] x.type = "utc-offset" -> ImplEnc_Offset(x.v) [] x.type = "period" -> PeriodText(x.v)
Texts(x) == CASE x.type = "duration" -> DurTexts(x.v) [] x.type = "utc-offset" -> OffTexts(x.v)
              [] x.type = "time" -> {Enc_Time(x.v), Enc_Time(x.v) \o <<cZ>>}
              [] x.type = "period" -> {PeriodText(x.v)} \cup
                    (IF x.v[2] = "d" THEN {Enc_DateTime(x.v[1]) \o <<cSlash>> \o t : t \in DurTexts(x.v[3])} ELSE {})
              [] OTHER -> {Impl(x)}
InG(type, t) == CASE type = "date" -> InG_Date(t) [] type = "time" -> InG_Time(t) [] type = "date-time" -> InG_DateTime(t)
                  [] type = "duration" -> InG_Duration(t) [] type = "utc-offset" -> InG_Offset(t) [] type = "period" -> InG_Period(t)
Den(type, t) == CASE type = "date" -> Den_Date(t) [] type = "time" -> Den_Time(t) [] type = "date-time" -> Den_DateTime(t)
                  [] type = "duration" -> Den_Duration(t) [] type = "utc-offset" -> Den_Offset(t) [] type = "period" -> Den_Period(t)

InvEnc == InG(c.type, Impl(c)) /\ Den(c.type, Impl(c)) = c.v
InvTexts == \A t \in Texts(c) : InG(c.type, t) /\ Den(c.type, t) = c.v
InvClass == c.type = "utc-offset" \/ \A t \in Texts(c) : GrammarsDisjoint(t) /\ RefClass(t) = c.type /\ ImplClass(t) = c.type
Vec == PrintT(ToJson([type |-> c.type, v |-> c.v, impl |-> Impl(c), texts |-> Texts(c)]))
=============================================================================
