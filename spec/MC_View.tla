------------------------------ MODULE MC_View ------------------------------
(* Every behaviour of View of exactly MaxOps operations that ends with a view *)
(* and contains an edit through a held value, printed once as a vector.       *)
EXTENDS View, Json, TLC
Interesting == /\ Len(hist) = MaxOps /\ hist[MaxOps].op = "read"
               /\ \E i \in 1..MaxOps : hist[i].op \in {"inner", "poke"}
               /\ \E i \in 1..(MaxOps - 1) : hist[i].op = "read"
Vec == Interesting => PrintT(ToJson([hist |-> hist, truth |-> last.truth]))
=============================================================================
