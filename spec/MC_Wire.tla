------------------------------- MODULE MC_Wire -------------------------------
(* Every short list of abstract lines from LinePool under every rendering       *)
(* choice: the Ref frame and the Impl frame are independent of the choices.     *)
EXTENDS Wire, TLC
CONSTANTS LinePool, MaxLines
VARIABLES ls, ch
Choices == [eol : {"crlf", "lf"}, bom : BOOLEAN, str : BOOLEAN, fold : 0..3, case : 0..2, trail : 0..2]
Init == ls \in UNION {[1..n -> LinePool] : n \in 1..MaxLines} /\ ch \in {c \in Choices : ~(c.str /\ c.bom)}
Next == UNCHANGED <<ls, ch>>
Spec == Init /\ [][Next]_<<ls, ch>>
InvRef == Frame(Render(ls, ch)) = Frame(Render(ls, PlainCh))
InvRefReads == \A i \in 1..Len(ls) : Frame(Render(ls, PlainCh))[i].ok
InvImpl == ImplFrame(Render(ls, ch), ch.str) = ImplFrame(Render(ls, PlainCh), FALSE)
=============================================================================
