----------------------------- MODULE MC_ZonedTime -----------------------------
(* Toy domain: zones {"floating", "UTC", "K1", "K2"}, wall ticks 0..MaxTick,      *)
(* every offset function with at most two steps per keyed zone (gaps and folds).  *)
EXTENDS ZonedTime
CONSTANTS MaxTick, Offs
VARIABLES v, off
Zones == {"floating", "UTC", "K1", "K2"}
\* an offset function: constant, or a step at some tick (up = gap, down = fold)
OffFns == {[w \in 0..MaxTick |-> IF w < s THEN a ELSE b] : s \in 0..MaxTick, a \in Offs, b \in Offs}
Init == v \in [wall : 0..MaxTick, zone : Zones] /\ off \in OffFns
Next == UNCHANGED <<v, off>>
Spec == Init /\ [][Next]_<<v, off>>
OffOf(x) == IF x.zone = "UTC" THEN 0 ELSE off[x.wall]
\* write then read returns the same wall time and zone, hence the same provider offset
InvRoundTrip == Read(Write(v)) = v /\ WireOK(v, Write(v)) /\ OffOf(Read(Write(v))) = OffOf(v)
\* a UTC-forced property denotes the same instant
InvUtc == v.zone # "floating" => LET w == WriteUtc(v, OffOf(v)) IN w.z /\ w.text = v.wall - OffOf(v)
=============================================================================
