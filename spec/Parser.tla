------------------------------- MODULE Parser -------------------------------
(* The line loop of Component.from_ical (cal.py) as an automaton over         *)
(* abstract lines, its inverse Emit, and the two theorems the properties      *)
(* need: stability (C01) and isolation of bad property lines (C04).           *)
(*                                                                            *)
(* Abstract lines (records [k, c, n, v]):                                     *)
(*   k = "B"  BEGIN of a component of kind c ("CAL", "EV", "TODO", "X")       *)
(*   k = "E"  END (the name is NOT compared by the code: c is ignored)        *)
(*   k = "P"  a property line name n, value v, that splits and decodes        *)
(*   k = "PB" a property line whose value decoder raises ValueError           *)
(*   k = "J"  a line that Contentline.parts() rejects                         *)
(*   k = "XC" the property X-COMMENT                                          *)
(* A component value is [name, props, errs, kids]; props = seq of <<n, v>> in *)
(* arrival order, errs = seq of names ("" for an unsplittable line).          *)
EXTENDS Naturals, Sequences, FiniteSets, TLC

Lenient(c) == c = "EV"              \* only Event sets ignore_exceptions
NewNode(c) == [name |-> c, props |-> <<>>, errs |-> <<>>, kids |-> <<>>]
L(k, c, n, v) == [k |-> k, c |-> c, n |-> n, v |-> v]

\* state of the loop: stack (innermost last), comps, out in {"run", "stop", "err"}
S0 == [stack |-> <<>>, comps |-> <<>>, out |-> "run"]
Top(s) == s.stack[Len(s.stack)]
SetTop(s, node) == [s EXCEPT !.stack[Len(s.stack)] = node]

Step(s, ln) ==
    IF s.out # "run" THEN s
    ELSE CASE ln.k = "J" ->
                IF s.stack = <<>> \/ ~Lenient(Top(s).name) THEN [s EXCEPT !.out = "err"]
                ELSE SetTop(s, [Top(s) EXCEPT !.errs = Append(@, "")])
           [] ln.k = "B" -> [s EXCEPT !.stack = Append(@, NewNode(ln.c))]
           [] ln.k = "E" ->
                IF s.stack = <<>> THEN [s EXCEPT !.out = "err"]
                ELSE LET node == Top(s)
                         rest == SubSeq(s.stack, 1, Len(s.stack) - 1)
                     IN IF rest = <<>> THEN [s EXCEPT !.stack = rest, !.comps = Append(@, node)]
                        ELSE [s EXCEPT !.stack = [rest EXCEPT ![Len(rest)].kids = Append(@, node)]]
           [] ln.k \in {"P", "XC"} ->
                IF s.stack = <<>> THEN (IF ln.k = "XC" THEN [s EXCEPT !.out = "stop"] ELSE [s EXCEPT !.out = "err"])
                ELSE SetTop(s, [Top(s) EXCEPT !.props = Append(@, <<ln.n, ln.v>>)])
           [] ln.k = "PB" ->
                IF s.stack = <<>> THEN [s EXCEPT !.out = "err"]
                ELSE IF ~Lenient(Top(s).name) THEN [s EXCEPT !.out = "err"]
                ELSE SetTop(s, [Top(s) EXCEPT !.errs = Append(@, ln.n)])

RECURSIVE Run(_, _)
Run(s, x) == IF x = <<>> THEN s ELSE Run(Step(s, x[1]), Tail(x))

\* result: <<"err">> | <<"ok", comps>>; unclosed components are silently discarded
Parse(x, multiple) ==
    LET f == Run(S0, x) IN
    IF f.out = "err" THEN <<"err">>
    ELSE IF multiple THEN <<"ok", f.comps>>
    ELSE IF Len(f.comps) = 1 THEN <<"ok", f.comps>> ELSE <<"err">>

\* ------------------------------------------------------------------ Emit (property_items)
\* properties grouped by name in the order given by Rank (canonical sort), values in arrival order
RECURSIVE PropsByRank(_, _, _)
PropsByRank(props, names, rank) ==
    IF names = {} THEN <<>>
    ELSE LET n == CHOOSE a \in names : \A b \in names : rank[a] <= rank[b]
         IN SelectSeq(props, LAMBDA p : p[1] = n) \o PropsByRank(props, names \ {n}, rank)
RECURSIVE Emit(_, _)
RECURSIVE EmitAll(_, _)
Emit(node, rank) ==
    <<L("B", node.name, "", "")>>
      \o LET ps == PropsByRank(node.props, {node.props[i][1] : i \in 1..Len(node.props)}, rank)
         IN [i \in 1..Len(ps) |-> IF ps[i][1] = "X-COMMENT" THEN L("XC", "", ps[i][1], ps[i][2]) ELSE L("P", "", ps[i][1], ps[i][2])]
      \o EmitAll(node.kids, rank) \o <<L("E", node.name, "", "")>>
EmitAll(nodes, rank) == IF nodes = <<>> THEN <<>> ELSE Emit(nodes[1], rank) \o EmitAll(Tail(nodes), rank)

\* ------------------------------------------------------------------ tree comparison
\* same names, same per-name value sequences, same nesting (errors are not part of the tree)
RECURSIVE Same(_, _)
Same(a, b) ==
    /\ a.name = b.name
    /\ Len(a.kids) = Len(b.kids)
    /\ \A n \in {a.props[i][1] : i \in 1..Len(a.props)} \cup {b.props[i][1] : i \in 1..Len(b.props)} :
          SelectSeq(a.props, LAMBDA p : p[1] = n) = SelectSeq(b.props, LAMBDA p : p[1] = n)
    /\ \A i \in 1..Len(a.kids) : Same(a.kids[i], b.kids[i])
SameAll(x, y) == Len(x) = Len(y) /\ \A i \in 1..Len(x) : Same(x[i], y[i])

\* C01: parse -> serialise -> parse is stable, and serialise is idempotent after it
Stable(x, rank) ==
    LET r == Parse(x, TRUE) IN
    r[1] = "ok" =>
        LET e1 == EmitAll(r[2], rank)
            r2 == Parse(e1, TRUE)
        IN r2[1] = "ok" /\ SameAll(r[2], r2[2]) /\ EmitAll(r2[2], rank) = e1

\* C04: a bad line inserted at position i (0..Len(x)) of an accepted sequence
Insert(x, i, b) == SubSeq(x, 1, i) \o <<b>> \o SubSeq(x, i + 1, Len(x))
RECURSIVE StripErrs(_)
StripErrs(node) == [node EXCEPT !.errs = <<>>, !.kids = [i \in 1..Len(node.kids) |-> StripErrs(node.kids[i])]]
RECURSIVE ErrCount(_)
RECURSIVE ErrCountAll(_)
ErrCount(node) == Len(node.errs) + ErrCountAll(node.kids)
ErrCountAll(nodes) == IF nodes = <<>> THEN 0 ELSE ErrCount(nodes[1]) + ErrCountAll(Tail(nodes))
Isolated(x, i, b) ==
    LET pre == Run(S0, SubSeq(x, 1, i))
        base == Parse(x, TRUE)
        y == Parse(Insert(x, i, b), TRUE)
    IN base[1] = "ok" =>
         IF pre.out = "stop" THEN y = base                      \* the line is never read
         ELSE IF pre.out = "run" /\ pre.stack # <<>> /\ Lenient(Top(pre).name)
              THEN /\ y[1] = "ok"
                   /\ [k \in 1..Len(y[2]) |-> StripErrs(y[2][k])] = [k \in 1..Len(base[2]) |-> StripErrs(base[2][k])]
                   /\ ErrCountAll(y[2]) <= ErrCountAll(base[2]) + 1
              ELSE y[1] = "err"
=============================================================================
