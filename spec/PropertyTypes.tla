---------------------------- MODULE PropertyTypes ----------------------------
(* RFC 5545 3.7 / 3.8 (and RFC 9074 ACKNOWLEDGED): the value type of every     *)
(* property -- transcribed from the RFC text, not from the library's table --  *)
(* and the rule for the VALUE and TZID parameters on the wire.                 *)
EXTENDS Naturals, Sequences, FiniteSets, TLC

Row(d, alts, lst) == [default |-> d, allowed |-> {d} \cup alts, list |-> lst]
Table ==
    [n \in {"CALSCALE", "METHOD", "PRODID", "VERSION", "CLASS", "COMMENT", "DESCRIPTION", "LOCATION", "STATUS", "SUMMARY",
            "TRANSP", "TZID", "TZNAME", "CONTACT", "RELATED-TO", "UID", "ACTION", "REQUEST-STATUS", "X-CUSTOM"}
        |-> Row("TEXT", {}, FALSE)]
    @@ [n \in {"CATEGORIES", "RESOURCES"} |-> Row("TEXT", {}, TRUE)]
    @@ [n \in {"ATTACH"} |-> Row("URI", {"BINARY"}, FALSE)]
    @@ [n \in {"TZURL", "URL"} |-> Row("URI", {}, FALSE)]
    @@ [n \in {"GEO"} |-> Row("GEO", {}, FALSE)]
    @@ [n \in {"PERCENT-COMPLETE", "PRIORITY", "REPEAT", "SEQUENCE"} |-> Row("INTEGER", {}, FALSE)]
    @@ [n \in {"COMPLETED", "CREATED", "DTSTAMP", "LAST-MODIFIED", "ACKNOWLEDGED"} |-> Row("DATE-TIME", {}, FALSE)]
    @@ [n \in {"DTEND", "DUE", "DTSTART", "RECURRENCE-ID"} |-> Row("DATE-TIME", {"DATE"}, FALSE)]
    @@ [n \in {"EXDATE"} |-> Row("DATE-TIME", {"DATE"}, TRUE)]
    @@ [n \in {"RDATE"} |-> Row("DATE-TIME", {"DATE", "PERIOD"}, TRUE)]
    @@ [n \in {"DURATION"} |-> Row("DURATION", {}, FALSE)]
    @@ [n \in {"TRIGGER"} |-> Row("DURATION", {"DATE-TIME"}, FALSE)]
    @@ [n \in {"FREEBUSY"} |-> Row("PERIOD", {}, TRUE)]
    @@ [n \in {"TZOFFSETFROM", "TZOFFSETTO"} |-> Row("UTC-OFFSET", {}, FALSE)]
    @@ [n \in {"ATTENDEE", "ORGANIZER"} |-> Row("CAL-ADDRESS", {}, FALSE)]
    @@ [n \in {"RRULE"} |-> Row("RECUR", {}, FALSE)]
Names == DOMAIN Table
\* properties whose DATE-TIME MUST be in UTC
UtcOnly == {"COMPLETED", "CREATED", "DTSTAMP", "LAST-MODIFIED", "ACKNOWLEDGED"}

\* value kinds the API accepts -> RFC value type, list-ness, zone class
KindRow(t, lst, z) == [type |-> t, list |-> lst, zone |-> z]
Kinds ==
    [k \in {"text"} |-> KindRow("TEXT", FALSE, "none")] @@ [k \in {"text-list"} |-> KindRow("TEXT", TRUE, "none")]
    @@ [k \in {"int"} |-> KindRow("INTEGER", FALSE, "none")] @@ [k \in {"geo"} |-> KindRow("GEO", FALSE, "none")]
    @@ [k \in {"date"} |-> KindRow("DATE", FALSE, "none")] @@ [k \in {"date-list"} |-> KindRow("DATE", TRUE, "none")]
    @@ [k \in {"dt-naive"} |-> KindRow("DATE-TIME", FALSE, "floating")] @@ [k \in {"dt-utc"} |-> KindRow("DATE-TIME", FALSE, "utc")]
    @@ [k \in {"dt-zoned"} |-> KindRow("DATE-TIME", FALSE, "zoned")] @@ [k \in {"dt-list-zoned"} |-> KindRow("DATE-TIME", TRUE, "zoned")]
    @@ [k \in {"dt-list-utc"} |-> KindRow("DATE-TIME", TRUE, "utc")]
    @@ [k \in {"duration"} |-> KindRow("DURATION", FALSE, "none")]
    @@ [k \in {"period-utc"} |-> KindRow("PERIOD", FALSE, "utc")] @@ [k \in {"period-zoned"} |-> KindRow("PERIOD", FALSE, "zoned")]
    @@ [k \in {"period-list-utc"} |-> KindRow("PERIOD", TRUE, "utc")]
    @@ [k \in {"recur"} |-> KindRow("RECUR", FALSE, "none")] @@ [k \in {"utc-offset"} |-> KindRow("UTC-OFFSET", FALSE, "none")]
    @@ [k \in {"uri"} |-> KindRow("URI", FALSE, "none")] @@ [k \in {"cal-address"} |-> KindRow("CAL-ADDRESS", FALSE, "none")]
    @@ [k \in {"binary"} |-> KindRow("BINARY", FALSE, "none")]
KindNames == DOMAIN Kinds

\* the cells of the cross product that the RFC admits
Cell(n, k) == Kinds[k].type \in Table[n].allowed /\ (Kinds[k].list => Table[n].list)
               /\ (n \in UtcOnly => Kinds[k].zone = "utc")
               \* RFC 5545 3.8.6.3: an absolute TRIGGER MUST be a UTC date-time
               /\ ((n = "TRIGGER" /\ Kinds[k].type = "DATE-TIME") => Kinds[k].zone = "utc")
               \* the API takes a tuple for a period; a bare tuple given to RDATE is read as a list of two values
               /\ ((n = "RDATE" /\ Kinds[k].type = "PERIOD") => Kinds[k].list)
Cells == {c \in Names \X KindNames : Cell(c[1], c[2])}

\* wire rule.  value = VALUE parameter ("" if absent), tzid = TZID parameter ("" if absent),
\* z = every date-time on the line ends in Z
LineOK(n, k, value, tzid, z, key) ==
    LET need == Kinds[k].type # Table[n].default
        zone == IF n \in UtcOnly THEN "utc" ELSE Kinds[k].zone
    IN [value_tag |-> (need => value = Kinds[k].type) /\ (value # "" => value = Kinds[k].type),
        tzid_tag |-> (zone = "zoned" => tzid = key /\ ~z) /\ (zone = "utc" => z /\ tzid = "")
                     /\ (zone \in {"floating", "none"} => tzid = "" /\ ~z)]
TableConsistent == \A n \in Names : Table[n].default \in Table[n].allowed
=============================================================================
