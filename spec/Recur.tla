------------------------------- MODULE Recur -------------------------------
(* RFC 5545 3.3.10 / RFC 7529 recurrence rules.                               *)
(* A rule is a sequence of parts <<NAME, vals>>; NAME is upper-case text,      *)
(* vals a non-empty sequence of typed values:                                  *)
(*   <<"i", sign, n>>  integer         <<"w", ord, NAME2>>  weekday(num)        *)
(*   <<"m", n, leap>>  month           <<"d", y, m, d>>     DATE                *)
(*   <<"t", y,m,d,h,mi,s,utc>> DATE-TIME   <<"s", text>>    token               *)
(* Ref : grammar of the text, FreqFirst, denotation RefParse.                  *)
(* Impl: vRecur.to_ical (canonical_order sort, per-part codec, comma join)     *)
(*       and vRecur.from_ical (split on ';' and '=', trailing ';' tolerated).  *)
EXTENDS ValueCodecs, CaselessMap

N_(s) == s      \* names are given as code point sequences by the model instance

SInt(sign, n) == (IF sign = -1 THEN <<cMinus>> ELSE <<>>) \o DigitsOf(n)
EncVal(v) ==
    CASE v[1] = "i" -> SInt(v[2], v[3])
      [] v[1] = "w" -> (IF v[2] = 0 THEN <<>> ELSE SInt(IF v[2] < 0 THEN -1 ELSE 1, IF v[2] < 0 THEN 0 - v[2] ELSE v[2])) \o v[3]
      [] v[1] = "m" -> DigitsOf(v[2]) \o (IF v[3] = 1 THEN <<cL>> ELSE <<>>)
      [] v[1] = "d" -> Enc_Date(<<v[2], v[3], v[4]>>)
      [] v[1] = "t" -> Enc_DateTime(<<v[2], v[3], v[4], v[5], v[6], v[7], v[8]>>)
      [] v[1] = "s" -> v[2]

PartText(p) == p[1] \o <<EQ>> \o Join([i \in 1..Len(p[2]) |-> EncVal(p[2][i])], <<COMMA>>)

\* ------------------------------------------------------------------ Impl encoder
PartNames(rule) == {rule[i][1] : i \in 1..Len(rule)}
PartOf(rule, n) == rule[CHOOSE i \in 1..Len(rule) : rule[i][1] = n]
ImplOrder(rule, canon) == CanonSort(PartNames(rule), canon)
ImplCanon(rule, canon) == LET o == ImplOrder(rule, canon) IN [i \in 1..Len(o) |-> PartOf(rule, o[i])]
ImplEnc(rule, canon) == LET c == ImplCanon(rule, canon) IN Join([i \in 1..Len(c) |-> PartText(c[i])], <<SEMI>>)

\* ------------------------------------------------------------------ Ref grammar / denotation
FREQ == <<70, 82, 69, 81>>
RSCALE == <<82, 83, 67, 65, 76, 69>>
UNTIL == <<85, 78, 84, 73, 76>>
BYMONTH == <<66, 89, 77, 79, 78, 84, 72>>
WeekdayParts == {<<66, 89, 68, 65, 89>>, <<87, 75, 83, 84>>}          \* BYDAY, WKST
IntParts == {<<67,79,85,78,84>>, <<73,78,84,69,82,86,65,76>>, <<66,89,83,69,67,79,78,68>>, <<66,89,77,73,78,85,84,69>>,
             <<66,89,72,79,85,82>>, <<66,89,77,79,78,84,72,68,65,89>>, <<66,89,89,69,65,82,68,65,89>>,
             <<66,89,87,69,69,75,78,79>>, <<66,89,83,69,84,80,79,83>>}
DecVal(name, t) ==
    IF name \in IntParts THEN (IF InG_Integer(t) THEN LET d == Den_Integer(t) IN <<"i", d[1], NatOf(d[2])>> ELSE <<"bad">>)
    ELSE IF name \in WeekdayParts THEN (IF InG_Weekday(t) THEN LET d == Den_Weekday(t) IN <<"w", d[1], d[2]>> ELSE <<"bad">>)
    ELSE IF name = BYMONTH THEN (IF InG_Month(t) THEN LET d == Den_Month(t) IN <<"m", d[1], d[2]>> ELSE <<"bad">>)
    ELSE IF name = UNTIL THEN (IF InG_Date(t) THEN <<"d">> \o Den_Date(t)
                               ELSE IF InG_DateTime(t) THEN <<"t">> \o Den_DateTime(t) ELSE <<"bad">>)
    ELSE <<"s", t>>
RefPart(txt) == LET k == IndexOf(txt, EQ) IN
                IF k <= 1 THEN <<"bad">>
                ELSE LET name == Upper(Take(txt, k - 1))
                         raw == Split(Drop(txt, k), COMMA)
                     IN <<name, [i \in 1..Len(raw) |-> DecVal(name, raw[i])]>>
\* a trailing ';' (empty last piece) is tolerated
RefParse(text) == LET ps == SelectSeq(Split(text, SEMI), LAMBDA x : x # <<>>) IN [i \in 1..Len(ps) |-> RefPart(ps[i])]
WellFormed(rule) == \A i \in 1..Len(rule) : Len(rule[i]) = 2 /\ \A j \in 1..Len(rule[i][2]) : rule[i][2][j] # <<"bad">>
FreqFirst(rule) == \/ (Len(rule) >= 1 /\ rule[1][1] = FREQ)
                   \/ (Len(rule) >= 2 /\ rule[1][1] = RSCALE /\ rule[2][1] = FREQ)
InG_Recur(text) == LET r == RefParse(text) IN
                   /\ text # <<>> /\ text[Len(text)] # SEMI
                   /\ WellFormed(r) /\ FreqFirst(r)
                   /\ \A i, j \in 1..Len(r) : r[i][1] = r[j][1] => i = j
=============================================================================
