------------------------------ MODULE Serialise ------------------------------
(* Component.to_ical / property_items as a function of the tree.               *)
(* A tree is flat (ComponentTree): par, nm (component names as strings), and   *)
(* per node  props = sequence of <<name, ids>> in first-insertion order        *)
(* (name: code points, ids: the value ids of that name in insertion order) and *)
(* canon = the component's canonical_order (sequence of names).                *)
(* A line token is <<"B", name>>, <<"E", name>> or <<"P", name, id>>.          *)
EXTENDS ComponentTree, CaselessMap

PropNames(node) == {node[k][1] : k \in 1..Len(node)}
ValsOfName(props, n) == (CHOOSE k \in 1..Len(props) : props[k][1] = n)
RECURSIVE LinesOfIds(_, _)
LinesOfIds(n, ids) == IF ids = <<>> THEN <<>> ELSE <<<<"P", n, ids[1]>>>> \o LinesOfIds(n, Tail(ids))
RECURSIVE PropLines(_, _)
PropLines(props, order) ==
    IF order = <<>> THEN <<>>
    ELSE LinesOfIds(order[1], props[ValsOfName(props, order[1])][2]) \o PropLines(props, Tail(order))

InsertionOrder(props) == [k \in 1..Len(props) |-> props[k][1]]
NameOrder(t, i, sorted) == IF sorted THEN CanonSort(PropNames(t.props[i]), t.canon[i]) ELSE InsertionOrder(t.props[i])

RECURSIVE EmitNode(_, _, _)
RECURSIVE EmitKids(_, _, _)
EmitNode(t, i, sorted) ==
    <<<<"B", t.nm[i]>>>> \o PropLines(t.props[i], NameOrder(t, i, sorted))
        \o EmitKids(t, Kids(t, i), sorted) \o <<<<"E", t.nm[i]>>>>
EmitKids(t, ks, sorted) == IF ks = <<>> THEN <<>> ELSE EmitNode(t, ks[1], sorted) \o EmitKids(t, Tail(ks), sorted)
Emit(t, sorted) == EmitNode(t, 1, sorted)

\* balanced and properly nested BEGIN/END blocks: pushdown acceptor
RECURSIVE Accept(_, _)
Accept(lines, stack) ==
    IF lines = <<>> THEN stack = <<>>
    ELSE LET x == lines[1] IN
         IF x[1] = "B" THEN Accept(Tail(lines), <<x[2]>> \o stack)
         ELSE IF x[1] = "E" THEN stack # <<>> /\ stack[1] = x[2] /\ Accept(Tail(lines), Tail(stack))
         ELSE stack # <<>> /\ Accept(Tail(lines), stack)
Balanced(lines) == lines # <<>> /\ lines[1][1] = "B" /\ Accept(lines, <<>>)
=============================================================================
