------------------------------ MODULE StartEnd ------------------------------
(* DTSTART / DTEND|DUE / DURATION of VEVENT and VTODO under setters,          *)
(* deleters, raw adds and parsing.                                            *)
(* A slot is a record [kind, t]: kind absent | multi | garbage | wrongtype |  *)
(* date | naive | utc | zoned | dur (t = hours).  Times are                  *)
(* whole hours; kind "zoned" is a fixed +1h zone, so Abs(v) = t - 1.          *)
(* Ref : RefStep (what each mutator must leave behind) and RefAllowed (the    *)
(*       set of admissible answers of each of the six observables).           *)
(* Impl: transcription of cal.py create_single_property / _set_duration /     *)
(*       _get_duration / _get_start_end_duration / start / end / duration.    *)
EXTENDS Naturals, Integers, Sequences, FiniteSets, TLC

K(k) == [kind |-> k, t |-> 0]
ABSENT == K("absent")
MULTI == K("multi")
GARBAGE == K("garbage")
WRONG == K("wrongtype")
PYNONE == K("None")
Dur(h) == [kind |-> "dur", t |-> h]
IsVal(x) == x.kind \in {"date", "naive", "utc", "zoned"}
IsDur(x) == x.kind = "dur"
IsDateV(v) == v.kind = "date"
Aware(v) == v.kind \in {"utc", "zoned"}
Abs(v) == IF v.kind = "zoned" THEN v.t - 1 ELSE v.t

INV == <<"err", "InvalidCalendar", 0>>
INC == <<"err", "IncompleteComponent", 0>>
TYP == <<"err", "TypeError", 0>>
NONE == <<"none", "", 0>>
V(v) == <<"v", v.kind, v.t>>
D(h) == <<"d", "", h>>

\* date + whole days stays a date; datetime + hours (wall clock)
Plus(v, h) == [v EXCEPT !.t = v.t + h]
\* difference in hours; mixing naive and aware (or date and datetime) has no defined difference
Minus(a, b) == IF a.kind = "date" /\ b.kind = "date" THEN D(a.t - b.t)
               ELSE IF a.kind = "date" \/ b.kind = "date" THEN TYP
               ELSE IF Aware(a) # Aware(b) THEN TYP
               ELSE IF Aware(a) THEN D(Abs(a) - Abs(b)) ELSE D(a.t - b.t)

\* ------------------------------------------------------------------ state and Ref steps
\* s = [dtstart, endp, dur]
Empty == [dtstart |-> ABSENT, endp |-> ABSENT, dur |-> ABSENT]

\* op = [op, v]; the setters of the exclusive pair remove the sibling
RefStep(s, o) ==
    CASE o.op \in {"set_start", "set_DTSTART"} ->
           [s EXCEPT !.dtstart = IF o.v = PYNONE THEN ABSENT ELSE o.v]
      [] o.op \in {"set_end", "set_END"} ->
           IF o.v = PYNONE THEN [s EXCEPT !.endp = ABSENT]
           ELSE [s EXCEPT !.endp = o.v, !.dur = ABSENT]
      [] o.op = "set_DURATION" ->
           IF o.v = PYNONE THEN [s EXCEPT !.dur = ABSENT]
           ELSE [s EXCEPT !.dur = o.v, !.endp = ABSENT]
      [] o.op = "del_DTSTART" -> [s EXCEPT !.dtstart = ABSENT]
      [] o.op = "del_END" -> [s EXCEPT !.endp = ABSENT]
      [] o.op = "del_DURATION" -> [s EXCEPT !.dur = ABSENT]
      \* Component.add appends: a second value makes the property multi-valued
      [] o.op = "add_DTSTART" -> [s EXCEPT !.dtstart = IF s.dtstart = ABSENT THEN o.v ELSE MULTI]
      [] o.op = "add_END" -> [s EXCEPT !.endp = IF s.endp = ABSENT THEN o.v ELSE MULTI]
      [] o.op = "add_DURATION" -> [s EXCEPT !.dur = IF s.dur = ABSENT THEN o.v ELSE MULTI]
      [] o.op = "parse" -> o.v

SetterOps == {"set_start", "set_DTSTART", "set_end", "set_END", "set_DURATION",
              "del_DTSTART", "del_END", "del_DURATION"}

Exclusive(s) == ~(s.endp # ABSENT /\ s.dur # ABSENT)

\* ------------------------------------------------------------------ Ref: admissible observations
\* well-formed, RFC-permitted state with a start
Forbidden(s) ==
    \/ s.dtstart \in {MULTI, GARBAGE} \/ s.endp \in {MULTI, GARBAGE}
    \/ s.dur \in {MULTI, GARBAGE, WRONG}
    \/ (s.endp # ABSENT /\ s.dur # ABSENT)
    \/ (IsVal(s.dtstart) /\ IsVal(s.endp) /\ IsDateV(s.dtstart) # IsDateV(s.endp))
    \/ (IsVal(s.dtstart) /\ IsDateV(s.dtstart) /\ IsDur(s.dur) /\ s.dur.t % 24 # 0)
Errors == {INV, INC}

RefStart(s) == IF IsVal(s.dtstart) THEN V(s.dtstart) ELSE INC
RefEnd(s) == IF IsVal(s.endp) THEN V(s.endp)
             ELSE IF ~IsVal(s.dtstart) THEN INC
             ELSE IF IsDur(s.dur) THEN V(Plus(s.dtstart, s.dur.t))
             ELSE IF IsDateV(s.dtstart) THEN V(Plus(s.dtstart, 24)) ELSE V(s.dtstart)
RefDuration(s) ==
    IF ~IsVal(s.dtstart) THEN INC
    ELSE IF IsVal(s.endp) THEN Minus(s.endp, s.dtstart)
    ELSE IF IsDur(s.dur) THEN D(s.dur.t)
    ELSE IF IsDateV(s.dtstart) THEN D(24) ELSE D(0)

\* admissible answers per observable: exact in permitted states; in forbidden or
\* incomplete states one of the two documented errors (or the natural value)
RefAllowed(s) ==
    LET bad == Forbidden(s)
        opt(x) == IF bad THEN Errors \cup {x} ELSE {x}
    IN [DTSTART  |-> IF IsVal(s.dtstart) THEN {V(s.dtstart)} ELSE IF s.dtstart = ABSENT THEN {NONE} ELSE {INV},
        END      |-> IF IsVal(s.endp) THEN {V(s.endp)} ELSE IF s.endp = ABSENT THEN {NONE} ELSE {INV},
        DURATION |-> IF IsDur(s.dur) THEN {D(s.dur.t)} ELSE IF s.dur = ABSENT THEN {NONE} ELSE {INV},
        start    |-> opt(RefStart(s)),
        end      |-> opt(RefEnd(s)),
        \* a naive/aware mixture has no difference: outside the property's list (M-clause), any outcome
        duration |-> IF RefDuration(s) = TYP THEN Errors \cup {TYP} ELSE opt(RefDuration(s))]

\* ------------------------------------------------------------------ Impl mirror (cal.py)
ImplGetSingle(x) == IF x = ABSENT THEN NONE ELSE IF x = MULTI THEN INV
                    ELSE IF ~IsVal(x) THEN INV ELSE V(x)
\* _get_duration after the fix "DURATION must be a timedelta"
ImplGetDuration(x) == IF x = ABSENT THEN NONE ELSE IF IsDur(x) THEN D(x.t) ELSE INV
\* _get_duration as pinned before that fix: a vDDDTypes holding a date-time is handed out as is
ImplGetDurationOld(x) == IF x = WRONG THEN <<"v", "naive", 24>> ELSE ImplGetDuration(x)

IsErr(r) == r[1] = "err"
\* _get_start_end_duration: returns OK or an error
OK == <<"ok", "", 0>>
ImplCheck(s) ==
    LET st == ImplGetSingle(s.dtstart)
        en == ImplGetSingle(s.endp)
        du == ImplGetDuration(s.dur)
    IN IF IsErr(st) THEN st ELSE IF IsErr(en) THEN en ELSE IF IsErr(du) THEN du
       ELSE IF du # NONE /\ en # NONE THEN INV
       ELSE IF st # NONE /\ s.dtstart.kind = "date" /\ du # NONE /\ s.dur.t % 24 # 0 THEN INV
       ELSE IF st # NONE /\ en # NONE /\ IsDateV(s.dtstart) # IsDateV(s.endp) THEN INV
       ELSE OK
ImplStart(s) == LET c == ImplCheck(s) IN IF IsErr(c) THEN c ELSE IF s.dtstart = ABSENT THEN INC ELSE V(s.dtstart)
ImplEnd(s) ==
    LET c == ImplCheck(s) IN
    IF IsErr(c) THEN c
    ELSE IF s.endp = ABSENT /\ s.dur = ABSENT
         THEN IF s.dtstart = ABSENT THEN INC
              ELSE IF IsDateV(s.dtstart) THEN V(Plus(s.dtstart, 24)) ELSE V(s.dtstart)
    ELSE IF s.dur # ABSENT THEN IF s.dtstart # ABSENT THEN V(Plus(s.dtstart, s.dur.t)) ELSE INC
    ELSE V(s.endp)
ImplDuration(s) ==
    LET e == ImplEnd(s)
        b == ImplStart(s)
    IN IF IsErr(e) THEN e ELSE IF IsErr(b) THEN b
       ELSE Minus([kind |-> e[2], t |-> e[3]], [kind |-> b[2], t |-> b[3]])
ImplObs(s) == [DTSTART |-> ImplGetSingle(s.dtstart), END |-> ImplGetSingle(s.endp),
               DURATION |-> ImplGetDuration(s.dur),
               start |-> ImplStart(s), end |-> ImplEnd(s), duration |-> ImplDuration(s)]

ObsOK(s, obs) == LET a == RefAllowed(s) IN
    /\ obs.DTSTART \in a.DTSTART /\ obs.END \in a.END /\ obs.DURATION \in a.DURATION
    /\ obs.start \in a.start /\ obs.end \in a.end /\ obs.duration \in a.duration
\* the algebraic identities among whatever values are returned
Identities(s, obs) ==
    /\ (obs.start[1] = "v" /\ obs.end[1] = "v" /\ obs.duration[1] = "d") =>
          Minus([kind |-> obs.end[2], t |-> obs.end[3]], [kind |-> obs.start[2], t |-> obs.start[3]]) = obs.duration
    /\ (IsDur(s.dur) /\ obs.start[1] = "v" /\ obs.end[1] = "v") =>
          obs.end = V(Plus([kind |-> obs.start[2], t |-> obs.start[3]], s.dur.t))
=============================================================================
