----------------------------- MODULE TextCodec -----------------------------
(* RFC 5545 3.3.11 TEXT.                                                     *)
(* Ref : Den (single left-to-right pass), Norms, Safe.                       *)
(* Impl: the two ordered str.replace chains of parser.escape_char /          *)
(*       unescape_char, vCategory join / unescape-then-split, and the        *)
(*       property path through ContentLine!ImplParts.                        *)
EXTENDS ContentLine

\* ------------------------------------------------------------------ Ref
\* denotation of an escaped TEXT; escapes outside the grammar are kept verbatim
RECURSIVE Den(_)
Den(t) ==
    IF t = <<>> THEN <<>>
    ELSE IF t[1] = BS /\ Len(t) >= 2 /\ t[2] \in {BS, SEMI, COMMA}
         THEN <<t[2]>> \o Den(Drop(t, 2))
    ELSE IF t[1] = BS /\ Len(t) >= 2 /\ t[2] \in {LowN, UpN}
         THEN <<LF>> \o Den(Drop(t, 2))
    ELSE <<t[1]>> \o Den(Tail(t))

\* every backslash starts one of the five escapes
RECURSIVE InTextGrammar(_)
InTextGrammar(t) ==
    IF t = <<>> THEN TRUE
    ELSE IF t[1] = BS THEN Len(t) >= 2 /\ t[2] \in {BS, SEMI, COMMA, LowN, UpN} /\ InTextGrammar(Drop(t, 2))
    ELSE t[1] \notin {LF} /\ InTextGrammar(Tail(t))

\* the documented normalisations, in either order
N1(s) == Replace(s, <<CR, LF>>, <<LF>>)
N2(s) == Replace(s, <<BS, UpN>>, <<LF>>)
Norms(s) == {N1(N2(s)), N2(N1(s))}

\* no raw line break (LF; CRLF contains LF), every ; and , escaped:
\* walking left to right, a backslash consumes the next symbol
RECURSIVE Safe(_)
Safe(t) ==
    IF t = <<>> THEN TRUE
    ELSE IF t[1] = BS THEN (Len(t) >= 2 => t[2] # LF) /\ Safe(Drop(t, 2))
    ELSE t[1] \notin {LF, SEMI, COMMA} /\ Safe(Tail(t))

\* unescaped commas split a list value (RFC: text *("," text))
RECURSIVE SplitUnescaped(_, _)
SplitUnescaped(t, acc) ==
    IF t = <<>> THEN <<acc>>
    ELSE IF t[1] = BS /\ Len(t) >= 2 THEN SplitUnescaped(Drop(t, 2), acc \o <<t[1], t[2]>>)
    ELSE IF t[1] = COMMA THEN <<acc>> \o SplitUnescaped(Tail(t), <<>>)
    ELSE SplitUnescaped(Tail(t), Append(acc, t[1]))
DenList(t) == LET ps == SplitUnescaped(t, <<>>) IN [i \in 1..Len(ps) |-> Den(ps[i])]

\* ------------------------------------------------------------------ Impl
ImplEsc(s) ==
    Replace(Replace(Replace(Replace(Replace(Replace(s,
        <<BS, UpN>>, <<LF>>), <<BS>>, <<BS, BS>>), <<SEMI>>, <<BS, SEMI>>),
        <<COMMA>>, <<BS, COMMA>>), <<CR, LF>>, <<BS, LowN>>), <<LF>>, <<BS, LowN>>)

\* unescape_char after the fix "decode TEXT escapes in a single pass":
\* CRLF -> LF, then one left-to-right pass (which is Den)
ImplUnesc(t) == Den(Replace(t, <<CR, LF>>, <<LF>>))

\* unescape_char as pinned before that fix (kept as the record of finding C07-F1:
\* TLC refutes  ImplUnescOld(ImplEsc(s)) \in Norms(s)  at s = <<92, 110>>)
ImplUnescOld(t) ==
    Replace(Replace(Replace(Replace(Replace(Replace(t,
        <<BS, UpN>>, <<BS, LowN>>), <<CR, LF>>, <<LF>>), <<BS, LowN>>, <<LF>>),
        <<BS, COMMA>>, <<COMMA>>), <<BS, SEMI>>, <<SEMI>>), <<BS, BS>>, <<BS>>)

\* vText codec used directly
ImplCodec(s) == ImplUnesc(ImplEsc(s))

\* property path: value text -> content line -> parts -> vText.from_ical.
\* A leading U+FEFF of the value is dropped by from_parts (utf-8-sig).
BOM == 65279
StripBom(t) == IF t # <<>> /\ t[1] = BOM THEN Tail(t) ELSE t
NameX == <<88, 45, 65>>      \* "X-A"
ImplWireValue(s) == StripBom(ImplEsc(s))
ImplProp(s) ==
    LET p == ImplParts(NameX \o <<COLON>> \o ImplWireValue(s), FALSE)
    IN IF p.ok THEN [ok |-> TRUE, v |-> ImplUnesc(p.value)] ELSE Bad

\* list path (CATEGORIES): join escaped items, parts(), unescape, split on ','
ImplCatWire(items) == StripBom(Join([i \in 1..Len(items) |-> ImplEsc(items[i])], <<COMMA>>))
\* vCategory.from_ical receives the bytes of to_ical and decodes them with utf-8-sig
ImplCatCodec(items) == Split(ImplUnesc(StripBom(Join([i \in 1..Len(items) |-> ImplEsc(items[i])], <<COMMA>>))), COMMA)
ImplCatProp(items) ==
    LET p == ImplParts(NameX \o <<COLON>> \o ImplCatWire(items), FALSE)
    IN IF p.ok THEN [ok |-> TRUE, v |-> Split(ImplUnesc(p.value), COMMA)] ELSE Bad

\* ------------------------------------------------------------------ property clauses
EncOK(s) == Den(ImplEsc(s)) \in Norms(s) /\ Safe(ImplEsc(s))
CodecOK(s) == ImplCodec(s) \in Norms(s)
PropOK(s) == LET r == ImplProp(s) IN r.ok /\ r.v \in Norms(s)
NormItems(items) == {[i \in 1..Len(items) |-> f[i]] : f \in [1..Len(items) -> UNION {Norms(items[i]) : i \in 1..Len(items)}]}
ItemsOK(items, got) == Len(got) = Len(items) /\ \A i \in 1..Len(items) : got[i] \in Norms(items[i])
=============================================================================
