---------------------------- MODULE Trace_Alarms14 ----------------------------
(* Events: x = [c, alarms] (the case) and times = per alarm the sequence of     *)
(* computed trigger values, recorded from component.alarms.times.              *)
EXTENDS Alarms, Json, IOUtils
Events == ndJsonDeserialize(IOEnv.TRACE_FILE)
VARIABLE l
Init == l = 1
R(ok, clause) == IF ok THEN TRUE ELSE PrintT(<<"FAIL", l, clause>>)
Eval(e) ==
    /\ R(Len(e.times) = Len(e.x.alarms), "P:C14:one-sequence-per-alarm")
    /\ \A i \in 1..Len(e.x.alarms) :
          IF Missing(e.x.c, e.x.alarms[i]) THEN R(FALSE, "P:C14:missing-anchor-reported")
          ELSE /\ R(Len(e.times[i]) = NTimes(e.x.alarms[i]), "P:C14:count")
               /\ R(e.times[i] \in AlarmTimes(e.x.c, e.x.alarms[i]), "P:C14:alarm-times")
Next == \/ l <= Len(Events) /\ Eval(Events[l]) /\ l' = l + 1
        \/ l = Len(Events) + 1 /\ PrintT(<<"DONE", Len(Events)>>) /\ l' = l + 1
Spec == Init /\ [][Next]_l
=============================================================================
