---------------------------- MODULE Trace_Alarms15 ----------------------------
(* Rows recorded from real Event/Todo objects: r (the row, minute resolution)  *)
(* and ob (what times / is_active / trigger / acknowledged / active said).     *)
EXTENDS Alarms, Json, IOUtils
Events == ndJsonDeserialize(IOEnv.TRACE_FILE)
VARIABLE l
Init == l = 1
R(ok, clause) == IF ok THEN TRUE ELSE PrintT(<<"FAIL", l, clause>>)
HasN(e) == "n" \in DOMAIN e.ob
Eval(e) ==
    IF ~HasN(e) \/ e.ob.n # 1 THEN R(FALSE, "P:C15:times")
    ELSE /\ R(e.ob.active = RefActive(e.r), "P:C15:is-active")
         /\ R(e.ob.trigger \in ExpTriggers(e.r), "P:C15:reported-trigger")
         /\ R(e.ob.ack = Ack(e.r), "P:C15:acknowledged-until")
         /\ R(e.ob.activelist = RefActive(e.r), "P:C15:active-sublist")
Next == \/ l <= Len(Events) /\ Eval(Events[l]) /\ l' = l + 1
        \/ l = Len(Events) + 1 /\ PrintT(<<"DONE", Len(Events)>>) /\ l' = l + 1
Spec == Init /\ [][Next]_l
=============================================================================
