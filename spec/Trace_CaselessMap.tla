-------------------------- MODULE Trace_CaselessMap --------------------------
(* Code -> spec: every logged call of a real mapping object (operation,       *)
(* arguments, result, full state after) must be the step Apply prescribes.    *)
(* An event with o.op = "reset" starts a new object.                          *)
EXTENDS CaselessMap, TLC, Json, IOUtils

Events == ndJsonDeserialize(IOEnv.TRACE_FILE)
VARIABLES l, m
Init == l = 1 /\ m = <<>>

Step(e) ==
    IF e.o.op = "reset" THEN TRUE
    ELSE LET r == Apply(m, e.o)
         IN /\ IF r.res = e.res THEN TRUE ELSE PrintT(<<"FAIL", l, "P:C17:result-" \o e.o.op>>)
            /\ IF r.m = e.post THEN TRUE ELSE PrintT(<<"FAIL", l, "P:C17:state-" \o e.o.op>>)
            /\ IF UpperOnly(e.post) /\ NoDup(e.post) THEN TRUE ELSE PrintT(<<"FAIL", l, "P:C17:upper-only">>)

Next ==
    \/ /\ l <= Len(Events)
       /\ Step(Events[l])
       /\ m' = Events[l].post          \* re-synchronise on the logged state
       /\ l' = l + 1
    \/ /\ l = Len(Events) + 1
       /\ PrintT(<<"DONE", Len(Events)>>)
       /\ l' = l + 1 /\ UNCHANGED m
Spec == Init /\ [][Next]_<<l, m>>
=============================================================================
