-------------------------- MODULE Trace_ComponentTree --------------------------
(* Events from real trees (flat alpha-projection):                              *)
(*  "eq"   [a, b, eq, eqr, ne]   a == b, b == a, a != b as answered by the code *)
(*  "copy" [a, b, eq, eqr, ne, same_bytes, how]  b is a copy of a               *)
(*  "walk" [a, order]            names returned by walk() in order              *)
EXTENDS ComponentTree, Json, IOUtils
Events == ndJsonDeserialize(IOEnv.TRACE_FILE)
VARIABLE l
Init == l = 1
R(ok, clause) == IF ok THEN TRUE ELSE PrintT(<<"FAIL", l, clause>>)
Eval(e) ==
    CASE e.k = "eq" ->
           LET q == EquivT(e.a, e.b) IN
           /\ R(e.eq = q, "P:C20:eq-matches-ref")
           /\ R(e.eqr = q, "P:C20:eq-symmetric")
           /\ R(e.ne = ~q, "P:C20:ne-consistent")
      [] e.k = "copy" ->
           /\ R(EquivT(e.a, e.b), "P:C20:copy-equivalent-" \o e.how)
           /\ R(e.eq /\ e.eqr /\ ~e.ne, "P:C20:copy-equal-" \o e.how)
           /\ R(e.same_bytes, "P:C20:copy-serialises-identically-" \o e.how)
      [] e.k = "walk" ->
           R(e.order = [i \in 1..N(e.a) |-> PreOrder(e.a)[i]], "P:C20:walk-preorder")
      [] OTHER -> PrintT(<<"FAIL", l, "M:unknown-event">>)
Next == \/ l <= Len(Events) /\ Eval(Events[l]) /\ l' = l + 1
        \/ l = Len(Events) + 1 /\ PrintT(<<"DONE", Len(Events)>>) /\ l' = l + 1
Spec == Init /\ [][Next]_l
=============================================================================
