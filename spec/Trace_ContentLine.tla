-------------------------- MODULE Trace_ContentLine --------------------------
(* Events recorded from Parameters / Contentline / Event round trips.         *)
(*  "paramsA": [ps, wire, back]   Parameters(ps).to_ical() and from_ical of it *)
(*  "line"   : [c, refused, line, parts]  from_parts and parts of a case c     *)
(* Ref clauses are evaluated on what the code produced; KNOWN is printed when  *)
(* the product equals the pinned mirror's.                                    *)
EXTENDS TextCodec, TLC, Json, IOUtils
Events == ndJsonDeserialize(IOEnv.TRACE_FILE)
VARIABLE l
Init == l = 1
Report(ok, known, clause) ==
    IF ok THEN TRUE ELSE IF known THEN PrintT(<<"KNOWN", l, clause>>) ELSE PrintT(<<"FAIL", l, clause>>)

Enc(kind, v) == IF kind = "text" THEN ImplEsc(v) ELSE v
Dec(kind, t) == IF kind = "text" THEN ImplUnesc(t) ELSE t
InDomain08(ps) == \A i \in 1..Len(ps) : \A j \in 1..Len(ps[i].vals) : ~QUnsafe(ps[i].vals[j])
ParamNames(ps) == {Upper(ps[i].k) : i \in 1..Len(ps)}

Eval(e) ==
    CASE e.k = "paramsA" ->
           LET m == ImplParamsFromIcal(ImplParamsToIcal(e.ps, TRUE), FALSE)
               known == e.wire = ImplParamsToIcal(e.ps, TRUE) /\ e.back.ok = m.ok /\ (m.ok => e.back.ps = m.ps)
               rp == RefSplit(NameX \o <<SEMI>> \o e.wire \o <<COLON>>)
           IN IF ~InDomain08(e.ps) \/ e.ps = <<>> THEN TRUE
              ELSE /\ Report(e.back.ok /\ SameParams(e.back.ps, e.ps), known, "P:C08:params-roundtrip")
                   /\ Report(rp.ok /\ SameParams(rp.params, e.ps), known, "P:C08:quoting")
      [] e.k = "line" ->
           LET c == e.c
               mline == ImplFromParts(NameX, c.ps, Enc(c.kind, c.v), TRUE)
               mparts == ImplParts(mline, FALSE)
               known == ~e.refused /\ e.line = mline /\ e.parts = mparts
               r == RefSplit(e.line)
           IN IF e.refused THEN TRUE
              ELSE /\ IF InDomain08(c.ps)
                      THEN /\ Report(e.parts.ok /\ e.parts.name = NameX /\ SameParams(e.parts.params, c.ps),
                                     known, "P:C08:line-roundtrip")
                           /\ Report(c.ps = <<>> \/ (r.ok /\ SameParams(r.params, c.ps)), known, "P:C08:line-quoting")
                      ELSE TRUE
                   /\ Report(~e.parts.ok \/ Dec(c.kind, e.parts.value) \in Norms(c.v), known, "P:C05:value-roundtrip")
                   /\ Report(~Contains(e.line, LF), FALSE, "P:C05:no-raw-lf")
                   /\ Report(~e.parts.ok \/ (e.parts.name = NameX /\ ParamNames(e.parts.params) = ParamNames(c.ps)
                                             /\ Len(e.parts.params) = Len(c.ps)),
                             known, "P:C05:no-injection")
      [] e.k = "sparts" ->
           \* a call of Contentline.parts observed in a real execution (the repository's own test-suite):
           \* the mirror must explain it exactly; where the line is an RFC content line, the split must be the RFC one
           LET m == ImplParts(e.line, FALSE)
               known == e.parts = m
               r == RefSplit(e.line)
               plain == ~Contains(e.line, BS) /\ ~Contains(e.line, PCT)
           IN /\ IF known THEN TRUE ELSE PrintT(<<"FAIL", l, "M:C01:parts-mirror">>)
              /\ IF ~r.ok THEN TRUE
                 ELSE /\ Report(e.parts.ok /\ e.parts.name = r.name /\ SameParams(e.parts.params, r.params),
                                known, "P:C01:split-matches-rfc")
                      /\ Report(~plain \/ ~e.parts.ok \/ e.parts.value = r.value, known, "P:C01:split-value")
      [] e.k = "sjoin" ->
           \* a call of Contentline.from_parts observed in a real execution: the RFC reading of the produced
           \* line gives back the name, the parameters and the value text
           LET m == ImplFromParts(e.name, e.ps, e.v, e.sorted)
               known == e.line = m
               r == RefSplit(e.line)
           IN /\ IF known THEN TRUE ELSE PrintT(<<"FAIL", l, "M:C05:join-mirror">>)
              /\ IF ~ValidToken(e.name) \/ ~InDomain08(e.ps) \/ Contains(e.v, LF) THEN TRUE
                 ELSE /\ Report(r.ok /\ r.name = e.name /\ r.value = e.v, known, "P:C05:join-split")
                      /\ Report(r.ok /\ SameParams(r.params, e.ps), known, "P:C08:join-split-params")
      [] OTHER -> PrintT(<<"FAIL", l, "M:unknown-event">>)
Next == \/ l <= Len(Events) /\ Eval(Events[l]) /\ l' = l + 1
        \/ l = Len(Events) + 1 /\ PrintT(<<"DONE", Len(Events)>>) /\ l' = l + 1
Spec == Init /\ [][Next]_l
=============================================================================
