---------------------------- MODULE Trace_Folding ----------------------------
(* Events: [k |-> "fold", line (code points), limit, out (octets)] recorded    *)
(* from foldline / Contentline.to_ical, and [k |-> "unfold", out (octets as    *)
(* code points of the decoded text), line] from Contentline.from_ical.        *)
EXTENDS Folding, TLC, Json, IOUtils
Events == ndJsonDeserialize(IOEnv.TRACE_FILE)
VARIABLE l
Init == l = 1
R(ok, clause) == IF ok THEN TRUE ELSE PrintT(<<"FAIL", l, clause>>)
Eval(e) ==
    CASE e.k = "fold" ->
           LET c == FoldBytesClauses(e.line, e.out, e.limit)
           IN /\ R(c.budget, "P:C06:budget")
              /\ R(c.utf8, "P:C06:utf8-per-line")
              /\ R(c.space, "P:C06:one-space")
              /\ R(c.unfold, "P:C06:unfold-exact")
              /\ R(c.nolf, "P:C06:no-stray-lf")
      [] e.k = "unfold" ->
           \* the library's own unfolding of a folded text returns the original line
           R(e.got = e.line, "P:C06:library-unfold")
      [] OTHER -> PrintT(<<"FAIL", l, "M:unknown-event">>)
Next == \/ l <= Len(Events) /\ Eval(Events[l]) /\ l' = l + 1
        \/ l = Len(Events) + 1 /\ PrintT(<<"DONE", Len(Events)>>) /\ l' = l + 1
Spec == Init /\ [][Next]_l
=============================================================================
