----------------------------- MODULE Trace_Parser -----------------------------
(* Outcome events of real parses (hostile pools, fuzz): out in {"ok","err","exc"} *)
(* ("exc" = an exception other than ValueError escaped from parsing, serialising  *)
(* or walking), ms = CPU time.                                                    *)
EXTENDS Naturals, Sequences, TLC, Json, IOUtils
CONSTANT Budget
Events == ndJsonDeserialize(IOEnv.TRACE_FILE)
VARIABLE l
Init == l = 1
R(ok, clause) == IF ok THEN TRUE ELSE PrintT(<<"FAIL", l, clause>>)
Eval(e) == /\ R(e.out \in {"ok", "err"}, "P:C04:only-valueerror")
           /\ R(e.ms <= Budget, "P:C04:terminates-in-budget")
Next == \/ l <= Len(Events) /\ Eval(Events[l]) /\ l' = l + 1
        \/ l = Len(Events) + 1 /\ PrintT(<<"DONE", Len(Events)>>) /\ l' = l + 1
Spec == Init /\ [][Next]_l
=============================================================================
