-------------------------- MODULE Trace_ParserLines --------------------------
(* Code -> spec for the from_ical line loop, using the guarded hooks of         *)
(* icalendar/_verif.py: one event per consumed line, emitted after the branch's *)
(* effect, carrying the raw (unfolded) line, the stack depth and the number of  *)
(* finished top-level components.  The line is classified by the mirror of     *)
(* Contentline.parts (ContentLine!ImplParts); whether a value decodes is the    *)
(* one fact taken from the log (prop vs prop-error/prop-raise).  The automaton  *)
(* of spec/Parser.tla must take exactly the logged step.                        *)
EXTENDS Parser, ContentLine, Json, IOUtils
Events == ndJsonDeserialize(IOEnv.TRACE_FILE)
VARIABLES l, s
Init == l = 1 /\ s = S0
R(ok, clause) == IF ok THEN TRUE ELSE PrintT(<<"FAIL", l, clause>>)

BEGINw == <<66, 69, 71, 73, 78>>
ENDw == <<69, 78, 68>>
XCw == <<88, 45, 67, 79, 77, 77, 69, 78, 84>>
VEVENTw == <<86, 69, 86, 69, 78, 84>>
VCALw == <<86, 67, 65, 76, 69, 78, 68, 65, 82>>
KindOf(v) == IF Upper(v) = VEVENTw THEN "EV" ELSE IF Upper(v) = VCALw THEN "CAL" ELSE "X"

\* abstract line of an event
LineOf(e) ==
    LET p == ImplParts(e.line, FALSE) IN
    IF ~p.ok THEN L("J", "", "", "")
    ELSE IF Upper(p.name) = BEGINw THEN L("B", KindOf(p.value), "", "")
    ELSE IF Upper(p.name) = ENDw THEN L("E", "", "", "")
    ELSE IF e.ev \in {"prop-error", "prop-raise"} THEN L("PB", "", Upper(p.name), "")
    ELSE IF Upper(p.name) = XCw THEN L("XC", "", Upper(p.name), "v")
    ELSE L("P", "", Upper(p.name), "v")

\* the event the code must emit for line ln in state st
Expected(st, ln) ==
    LET t == Step(st, ln) IN
    CASE ln.k = "J" -> IF t.out = "err" THEN "junk-raise" ELSE "junk-skip"
      [] ln.k = "B" -> "begin"
      [] ln.k = "E" -> IF t.out = "err" THEN "end-raise" ELSE "end"
      [] ln.k = "PB" -> IF t.out = "err" THEN (IF st.stack = <<>> THEN "noparent-raise" ELSE "prop-raise") ELSE "prop-error"
      [] OTHER -> IF t.out = "stop" THEN "xcomment-stop" ELSE IF t.out = "err" THEN "noparent-raise" ELSE "prop"

StepEv(e) ==
    IF e.ev = "start" THEN TRUE
    ELSE IF e.ev = "finish" THEN
        /\ R((e.outcome = "err") = (s.out = "err") \/ e.outcome = "err", "P:C04:outcome-vs-automaton")
        /\ R(e.outcome = "err" \/ e.ncomps < 0 \/ e.ncomps = Len(s.comps), "P:C04:finished-components")
    ELSE LET ln == LineOf(e)
             t == Step(s, ln)
         IN /\ R(s.out = "run", "M:parser:line-after-stop")
            /\ R(e.ev = Expected(s, ln), "P:C04:line-action-" \o e.ev)
            /\ R(e.depth = Len(t.stack) /\ e.comps = Len(t.comps), "P:C04:stack-after-line")
Next ==
    \/ /\ l <= Len(Events)
       /\ StepEv(Events[l])
       /\ s' = IF Events[l].ev = "start" THEN S0
               ELSE IF Events[l].ev = "finish" THEN s
               ELSE Step(s, LineOf(Events[l]))
       /\ l' = l + 1
    \/ l = Len(Events) + 1 /\ PrintT(<<"DONE", Len(Events)>>) /\ l' = l + 1 /\ UNCHANGED s
Spec == Init /\ [][Next]_<<l, s>>
=============================================================================
