-------------------------- MODULE Trace_PropertyTypes --------------------------
(* Events: one API-built property serialised and parsed back.                    *)
(* [n, k, value (VALUE param or ""), tzid (TZID param or ""), z, key,            *)
(*  same_name, same_params, equal_value, decoded_type]                           *)
EXTENDS PropertyTypes, Json, IOUtils
Events == ndJsonDeserialize(IOEnv.TRACE_FILE)
VARIABLE l
Init == l = 1
R(ok, clause) == IF ok THEN TRUE ELSE PrintT(<<"FAIL", l, clause>>)
Eval(e) ==
    LET f == LineOK(e.n, e.k, e.value, e.tzid, e.z, e.key) IN
    /\ R(Cell(e.n, e.k), "M:C02:cell-outside-rfc-table")
    /\ R(f.value_tag, "P:C02:value-parameter")
    /\ R(f.tzid_tag, "P:C02:tzid-parameter")
    /\ R(e.same_name, "P:C02:name-and-order")
    /\ R(e.same_params, "P:C02:parameters")
    /\ R(e.equal_value, "P:C02:value-equal")
    /\ R(e.decoded_type = Kinds[e.k].type, "P:C02:decoded-with-rfc-type")
Next == \/ l <= Len(Events) /\ Eval(Events[l]) /\ l' = l + 1
        \/ l = Len(Events) + 1 /\ PrintT(<<"DONE", Len(Events)>>) /\ l' = l + 1
Spec == Init /\ [][Next]_l
=============================================================================
