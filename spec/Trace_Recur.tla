----------------------------- MODULE Trace_Recur -----------------------------
(* "enc": rule (as supplied), text = vRecur(rule).to_ical(), back = alpha of    *)
(*        vRecur.from_ical(text), again = its to_ical(), occ_same                *)
(* "dec": text (an admissible text), back = alpha of vRecur.from_ical(text)      *)
EXTENDS Recur, TLC, Json, IOUtils
Events == ndJsonDeserialize(IOEnv.TRACE_FILE)
VARIABLE l
Init == l = 1
R(ok, clause) == IF ok THEN TRUE ELSE PrintT(<<"FAIL", l, clause>>)
PartsSet(r) == {r[i] : i \in 1..Len(r)}
Eval(e) ==
    LET r == RefParse(e.text)
        wf == WellFormed(r)
    IN IF e.k = "dec" THEN R(wf /\ e.back = r, "P:C19:decode-rfc-text")
       ELSE /\ R(wf /\ InG_Recur(e.text), "P:C19:grammar")
            /\ IF ~wf THEN TRUE
               ELSE /\ R(FreqFirst(r), "P:C19:freq-first")
                    /\ R(PartsSet(r) = PartsSet(e.rule) /\ Len(r) = Len(e.rule), "P:C19:text-denotes-supplied-parts")
                    /\ R(e.back = r, "P:C19:decode-same-values-same-order")
                    /\ R(e.again = e.text, "P:C19:re-encode-identical")
                    /\ R(e.occ_same, "P:C19:same-occurrences")
Next == \/ l <= Len(Events) /\ Eval(Events[l]) /\ l' = l + 1
        \/ l = Len(Events) + 1 /\ PrintT(<<"DONE", Len(Events)>>) /\ l' = l + 1
Spec == Init /\ [][Next]_l
=============================================================================
