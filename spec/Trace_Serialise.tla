---------------------------- MODULE Trace_Serialise ----------------------------
(* Events: t (flat tree with per-node props in insertion order and canonical     *)
(* order), sorted / unsorted (token sequences read off the serialised bytes),   *)
(* twice (two calls gave identical bytes), pure (tree snapshot unchanged).      *)
EXTENDS Serialise, Json, IOUtils
Events == ndJsonDeserialize(IOEnv.TRACE_FILE)
VARIABLE l
Init == l = 1
R(ok, clause) == IF ok THEN TRUE ELSE PrintT(<<"FAIL", l, clause>>)
Eval(e) ==
    /\ R(e.sorted = Emit(e.t, TRUE), "P:C10:sorted-order")
    /\ R(e.unsorted = Emit(e.t, FALSE), "P:C10:unsorted-insertion-order")
    /\ R(Balanced(e.sorted) /\ Balanced(e.unsorted), "P:C10:balanced")
    /\ R(e.twice, "P:C10:twice-identical")
    /\ R(e.pure, "P:C10:pure")
Next == \/ l <= Len(Events) /\ Eval(Events[l]) /\ l' = l + 1
        \/ l = Len(Events) + 1 /\ PrintT(<<"DONE", Len(Events)>>) /\ l' = l + 1
Spec == Init /\ [][Next]_l
=============================================================================
