---------------------------- MODULE Trace_StartEnd ----------------------------
(* Code -> spec: each event = one mutator call on a real Event/Todo with the    *)
(* raw slots and the six observables read back afterwards.                     *)
EXTENDS StartEnd, Json, IOUtils
Events == ndJsonDeserialize(IOEnv.TRACE_FILE)
VARIABLES l, s, so
Init == l = 1 /\ s = Empty /\ so = TRUE
R(ok, clause) == IF ok THEN TRUE ELSE PrintT(<<"FAIL", l, clause>>)
Step(e) ==
    IF e.o.op = "reset" THEN TRUE
    ELSE /\ R(RefStep(s, e.o) = e.post, "P:C16:step-" \o e.o.op)
         /\ R(ObsOK(e.post, e.obs), "P:C16:observables")
         /\ R(Identities(e.post, e.obs), "P:C16:identities")
         /\ R((so /\ e.o.op \in SetterOps) => Exclusive(e.post), "P:C16:exclusive")
Next ==
    \/ /\ l <= Len(Events)
       /\ Step(Events[l])
       /\ s' = Events[l].post
       /\ so' = IF Events[l].o.op = "reset" THEN TRUE ELSE (so /\ Events[l].o.op \in SetterOps)
       /\ l' = l + 1
    \/ l = Len(Events) + 1 /\ PrintT(<<"DONE", Len(Events)>>) /\ l' = l + 1 /\ UNCHANGED <<s, so>>
Spec == Init /\ [][Next]_<<l, s, so>>
=============================================================================
