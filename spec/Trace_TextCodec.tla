-------------------------- MODULE Trace_TextCodec --------------------------
(* Validates events recorded from the real code against the Ref operators    *)
(* of TextCodec.  One state per event; the walk never blocks: a failing      *)
(* clause is printed as <<"FAIL", line, clause>> (or <<"KNOWN", ...>> when   *)
(* the observed wrong result is exactly what the pinned Impl mirror yields). *)
EXTENDS TextCodec, TLC, Json, IOUtils

Events == ndJsonDeserialize(IOEnv.TRACE_FILE)

VARIABLE l
Init == l = 1

Report(ok, known, clause) ==
    IF ok THEN TRUE
    ELSE IF known THEN PrintT(<<"KNOWN", l, clause>>)
    ELSE PrintT(<<"FAIL", l, clause>>)

Eval(e) ==
    CASE e.k = "enc" ->
           /\ Report(Den(e.out) \in Norms(e.s), FALSE, "P:C07:enc-den")
           /\ Report(Safe(e.out), FALSE, "P:C07:enc-safe")
      [] e.k = "codec" ->
           Report(e.out \in Norms(e.s), e.out = ImplCodec(e.s), "P:C07:codec-roundtrip")
      [] e.k = "dec" ->
           \* e.s is an escaped text inside the TEXT grammar
           Report(InTextGrammar(e.s) => e.out \in {Den(e.s), N1(Den(e.s))},
                  e.out = ImplUnesc(e.s), "P:C07:decode-rfc")
      [] e.k = "prop" ->
           LET m == ImplProp(e.s)
           IN Report(e.ok /\ e.out \in Norms(e.s),
                     m.ok = e.ok /\ (m.ok => m.v = e.out), "P:C07:prop-roundtrip")
      [] e.k = "wire" ->
           \* the value text as it stands on the wire of a serialised property
           /\ Report(Safe(e.out), FALSE, "P:C07:wire-safe")
           /\ Report(Den(e.out) \in Norms(e.s), e.out = ImplWireValue(e.s), "P:C07:wire-den")
      [] e.k = "cat" ->
           LET m == ImplCatProp(e.items)
           IN Report(e.ok /\ ItemsOK(e.items, e.out),
                     m.ok = e.ok /\ (m.ok => m.v = e.out), "P:C07:list-roundtrip")
      [] e.k = "catcodec" ->
           Report(ItemsOK(e.items, e.out), e.out = ImplCatCodec(e.items), "P:C07:list-codec")
      [] e.k = "catwire" ->
           \* the wire text must denote the items (RFC split on unescaped commas)
           Report(ItemsOK(e.items, DenList(e.out)) \/ (e.items = <<>>),
                  e.out = ImplCatWire(e.items), "P:C07:list-wire")
      [] OTHER -> PrintT(<<"FAIL", l, "M:unknown-event">>)

Next ==
    \/ /\ l <= Len(Events)
       /\ Eval(Events[l])
       /\ l' = l + 1
    \/ /\ l = Len(Events) + 1
       /\ PrintT(<<"DONE", Len(Events)>>)
       /\ l' = l + 1

Spec == Init /\ [][Next]_l
=============================================================================
