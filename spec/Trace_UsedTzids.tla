---------------------------- MODULE Trace_UsedTzids ----------------------------
(* Events: uses (list of [id, site]), present ([id -> count]) and seq = the      *)
(* observations (used, missing, present) before and after two calls of          *)
(* add_missing_timezones, recorded from a real Calendar.                        *)
EXTENDS UsedTzids, Sequences, Json, IOUtils
Events == ndJsonDeserialize(IOEnv.TRACE_FILE)
VARIABLE l
TInit == l = 1 /\ uses = {} /\ present = [i \in Ids |-> 0]
R(ok, clause) == IF ok THEN TRUE ELSE PrintT(<<"FAIL", l, clause>>)
SetOf(q) == {q[i] : i \in 1..Len(q)}
Cnt(rec, i) == IF i \in DOMAIN rec THEN rec[i] ELSE 0
Eval(e) ==
    LET u == {x.id : x \in SetOf(e.uses)}
        p == [i \in Ids |-> e.present[i]]
        miss == u \ {i \in Ids : p[i] > 0}
        after == [i \in Ids |-> IF i \in miss /\ i \in Known THEN 1 ELSE p[i]]
        ok0 == "used" \in DOMAIN e.seq[1]
    IN /\ R(Len(e.seq) = 3, "P:C18:add-missing-total")
       /\ R(SetOf(e.seq[1].used) = u, "P:C18:used")
       /\ R(SetOf(e.seq[1].missing) = miss, "P:C18:missing")
       /\ \A k \in 2..Len(e.seq) :
            IF "EXC" \in DOMAIN e.seq[k] THEN R(FALSE, "P:C18:add-missing-total")
            ELSE /\ R(\A i \in Ids : Cnt(e.seq[k].present, i) = after[i], IF k = 2 THEN "P:C18:closure" ELSE "P:C18:idempotent")
                 /\ R(SetOf(e.seq[k].missing) = {i \in miss : i \notin Known}, "P:C18:missing-after")
                 /\ R(SetOf(e.seq[k].used) = u, "P:C18:used-after")
TNext == \/ l <= Len(Events) /\ Eval(Events[l]) /\ l' = l + 1 /\ UNCHANGED vars
         \/ l = Len(Events) + 1 /\ PrintT(<<"DONE", Len(Events)>>) /\ l' = l + 1 /\ UNCHANGED vars
Spec2 == TInit /\ [][TNext]_<<l, uses, present>>
=============================================================================
