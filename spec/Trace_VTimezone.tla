---------------------------- MODULE Trace_VTimezone ----------------------------
(* C13 events, one per generated VTIMEZONE (times in seconds since 1970):         *)
(*  z       observances [kind, name, from, to, local (sequence of local onsets)]  *)
(*          read off the generated COMPONENT (not off any time zone object)       *)
(*  w0, w1  the window                                                            *)
(*  trs     the source zone's transition instants inside the window               *)
(*  probes  sequence of [t, off, name, tzoff, tzname]: what the SOURCE zone says   *)
(*          at instant t and what the object built by to_tz() says                *)
(*  regen   generating again from that object gave an equal component             *)
EXTENDS VTimezone, Json, IOUtils
CONSTANT Coarse            \* the largest step of the search (64 days), in seconds
Events == ndJsonDeserialize(IOEnv.TRACE_FILE)
VARIABLE l
Init == l = 1
SetOf(q) == {q[i] : i \in 1..Len(q)}
ZoneOf(e) == [i \in 1..Len(e.z) |-> [kind |-> e.z[i].kind, name |-> e.z[i].name, from |-> e.z[i].from, to |-> e.z[i].to, local |-> SetOf(e.z[i].local)]]

\* known class 1 (C13-K1): DTSTART/RDATE of a generated observance is the wall time AFTER the change,
\* so read by the RFC rule the onset lies |to - from| away from the true instant: the instants between
\* the two readings
Displaced(zone, t) == \E i \in 1..Len(zone) : \E x \in zone[i].local :
                         LET a == x - zone[i].to
                             b == x - zone[i].from
                         IN (a <= t /\ t < b) \/ (b <= t /\ t < a)
\* the same window widened by the size of the change on both sides: the object built by to_tz() answers
\* with wall-clock (fold) semantics around a displaced onset
DisplacedWide(zone, t) == \E i \in 1..Len(zone) : \E x \in zone[i].local :
                         LET a == x - zone[i].to
                             b == x - zone[i].from
                             d == IF a < b THEN b - a ELSE a - b
                         IN (a - d <= t /\ t < a + d) \/ (b - d <= t /\ t < b + d)
\* known class 3: the source changes its abbreviation while the offset stays (America/Knox_IN EST/CDT);
\* the search compares offsets only.  nameonly = intervals [a, b) from such a change to the next offset change
InNameOnly(ivs, t) == \E k \in 1..Len(ivs) : ivs[k][1] <= t /\ t < ivs[k][2]
NameOnly(ivs, p) == p.off = p.tzoff /\ InNameOnly(ivs, p.t)
\* known class 2 (C13-K2): the source has two transitions closer than the coarsest search step;
\* the period between them can be skipped
ShortPeriod(trs, t) == \E a, b \in trs : a < b /\ b - a < Coarse /\ a <= t /\ t < b

Eval(e) ==
    LET zone == ZoneOf(e)
        ons == Onsets(zone)
        trs == SetOf(e.trs)
        first == IF ons = {} THEN 0 ELSE CHOOSE a \in {o.t : o \in ons} : \A b \in {o.t : o \in ons} : a <= b
        bad(P(_)) == {j \in 1..Len(e.probes) : e.probes[j].t >= first /\ ~P(e.probes[j])}
        offOK(p) == p.off \in {zone[i].to : i \in ActiveIn(ons, p.t)}
        nameOK(p) == p.name \in {zone[i].name : i \in ActiveIn(ons, p.t)}
        tzOK(p) == p.tzoff = p.off /\ p.tzname = p.name
        known(p) == Displaced(zone, p.t) \/ ShortPeriod(trs, p.t)
        knownName(p) == known(p) \/ (InNameOnly(e.nameonly, p.t) /\ offOK(p))
        knownTz(p) == DisplacedWide(zone, p.t) \/ ShortPeriod(trs, p.t) \/ NameOnly(e.nameonly, p)
        report(S, K(_), clause) == IF S = {} THEN TRUE
                                   ELSE IF \A j \in S : K(e.probes[j]) THEN PrintT(<<"KNOWN", l, clause>>)
                                   ELSE PrintT(<<"FAIL", l, clause>>)
    IN /\ IF WellFormedGen(zone, e.w0, e.w1, 86400) THEN TRUE ELSE PrintT(<<"FAIL", l, "P:C13:well-formed">>)
       /\ IF ons = {} THEN TRUE
          ELSE /\ report(bad(offOK), known, "P:C13:rfc-offset")
               /\ report(bad(nameOK), knownName, "P:C13:rfc-name")
               /\ report(bad(tzOK), knownTz, "P:C13:to_tz-agrees")
       /\ IF e.regen THEN TRUE ELSE PrintT(<<IF e.pytz \/ e.firstkind THEN "KNOWN" ELSE "FAIL", l, "P:C13:regenerate-equal">>)
Next == \/ l <= Len(Events) /\ Eval(Events[l]) /\ l' = l + 1
        \/ l = Len(Events) + 1 /\ PrintT(<<"DONE", Len(Events)>>) /\ l' = l + 1
Spec == Init /\ [][Next]_l
=============================================================================
