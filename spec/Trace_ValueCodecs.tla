--------------------------- MODULE Trace_ValueCodecs ---------------------------
(* Events recorded from the real codecs:                                         *)
(*  "enc" [type, v, text, back]  text = T(v).to_ical(), back = alpha(T.from_ical) *)
(*  "dec" [type, v, text, back, cls]  text is an admissible RFC text of v;        *)
(*        back = T.from_ical(text), cls = type vDDDTypes.from_ical classified it  *)
EXTENDS ValueCodecs, TLC, Json, IOUtils
Events == ndJsonDeserialize(IOEnv.TRACE_FILE)
VARIABLE l
Init == l = 1
R(ok, clause) == IF ok THEN TRUE ELSE PrintT(<<"FAIL", l, clause>>)

InG(type, t) ==
    CASE type = "date" -> InG_Date(t) [] type = "time" -> InG_Time(t) [] type = "date-time" -> InG_DateTime(t)
      [] type = "duration" -> InG_Duration(t) [] type = "utc-offset" -> InG_Offset(t) [] type = "period" -> InG_Period(t)
      [] type = "integer" -> InG_Integer(t) [] type = "float" -> InG_Float(t) [] type = "geo" -> InG_Geo(t)
      [] type = "boolean" -> InG_Boolean(t) [] type = "weekday" -> InG_Weekday(t) [] type = "month" -> InG_Month(t)
      [] type = "frequency" -> Upper(t) \in {<<83,69,67,79,78,68,76,89>>, <<77,73,78,85,84,69,76,89>>, <<72,79,85,82,76,89>>,
                                            <<68,65,73,76,89>>, <<87,69,69,75,76,89>>, <<77,79,78,84,72,76,89>>, <<89,69,65,82,76,89>>}
      [] OTHER -> TRUE
Den(type, t) ==
    CASE type = "date" -> Den_Date(t) [] type = "time" -> Den_Time(t) [] type = "date-time" -> Den_DateTime(t)
      [] type = "duration" -> Den_Duration(t) [] type = "utc-offset" -> Den_Offset(t) [] type = "period" -> Den_Period(t)
      [] type = "integer" -> Den_Integer(t) [] type = "weekday" -> Den_Weekday(Upper(t)) [] type = "month" -> Den_Month(t)
      [] type = "boolean" -> IF Upper(t) = <<84, 82, 85, 69>> THEN 1 ELSE 0
      [] OTHER -> t          \* uri, cal-address, frequency (upper-cased by the caller), float/geo (hex strings compared)
HasDen(type) == type \notin {"float", "geo", "binary"}
Classified(type) == type \in {"date", "time", "date-time", "duration", "period"}

\* calls observed while the repository's own test-suite runs (vf/suitetrace.py): every text a codec emitted is
\* in the grammar of its type and denotes the value; every RFC text a codec read was read as what it denotes
SuiteEval(e) ==
    IF e.k = "senc"
    THEN /\ R(InG(e.type, e.text), "P:C03:enc-grammar-" \o e.type)
         /\ IF HasDen(e.type) /\ InG(e.type, e.text) THEN R(Den(e.type, e.text) = e.v, "P:C03:enc-denotation-" \o e.type) ELSE TRUE
    ELSE IF HasDen(e.type) /\ InG(e.type, e.text) THEN R(e.back = Den(e.type, e.text), "P:C03:dec-denotation-" \o e.type) ELSE TRUE

Eval(e) ==
  IF e.k \in {"senc", "sdec"} THEN SuiteEval(e) ELSE
    /\ R(InG(e.type, e.text), "P:C03:" \o e.k \o "-grammar-" \o e.type)
    /\ IF e.type = "binary" THEN R(e.text = Enc64(e.v), "P:C03:binary-base64")
       ELSE IF HasDen(e.type) /\ InG(e.type, e.text) THEN R(Den(e.type, e.text) = e.v, "P:C03:" \o e.k \o "-denotation-" \o e.type)
       ELSE TRUE
    /\ R(e.back = e.v, "P:C03:" \o e.k \o "-roundtrip-" \o e.type)
    /\ IF e.k = "dec" /\ Classified(e.type)
       THEN /\ R(RefClass(e.text) = e.type, "M:C03:ref-class")
            /\ R(e.cls = e.type, "P:C03:classify-" \o e.type)
       ELSE TRUE
Next == \/ l <= Len(Events) /\ Eval(Events[l]) /\ l' = l + 1
        \/ l = Len(Events) + 1 /\ PrintT(<<"DONE", Len(Events)>>) /\ l' = l + 1
Spec == Init /\ [][Next]_l
=============================================================================
