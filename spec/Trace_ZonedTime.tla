---------------------------- MODULE Trace_ZonedTime ----------------------------
EXTENDS ZonedTime, Json, IOUtils
Events == ndJsonDeserialize(IOEnv.TRACE_FILE)
VARIABLE l
Init == l = 1
R(ok, clause) == IF ok THEN TRUE ELSE PrintT(<<"FAIL", l, clause>>)
Eval(e) ==
    IF e.k = "utc" THEN LET c == UtcClauses(e) IN
        /\ R(c.utc_form, "P:C11:utc-property-written-with-Z")
        /\ R(c.instant, "P:C11:utc-property-same-instant")
    ELSE LET c == RowClauses(e) IN
        /\ R(c.wall_text, "P:C11:wall-fields-on-wire")
        /\ R(c.zone_tag, "P:C11:tzid-or-Z-on-wire")
        /\ R(c.wall_back, "P:C11:wall-time-read-back")
        /\ R(c.zone_back, "P:C11:zone-read-back")
        /\ R(c.offset_back, "P:C11:offset-read-back")
Next == \/ l <= Len(Events) /\ Eval(Events[l]) /\ l' = l + 1
        \/ l = Len(Events) + 1 /\ PrintT(<<"DONE", Len(Events)>>) /\ l' = l + 1
Spec == Init /\ [][Next]_l
=============================================================================
