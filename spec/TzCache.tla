------------------------------- MODULE TzCache -------------------------------
(* The process-wide cache of parsed VTIMEZONEs behind tzp.timezone().           *)
(* One custom TZID; definitions d \in Defs (their fixed UTC offsets).  A        *)
(* calendar is a sequence of items "use" | <definition>.  cache = 0 means      *)
(* empty.                                                                      *)
(* Ref : every use resolves to the definition contained in the same calendar.  *)
(* Impl: items are processed in file order; a use looks the id up in the cache *)
(*       at that moment (0 = not found = the value stays naive); a definition  *)
(*       is stored at END:VTIMEZONE only if the id is not cached yet; a        *)
(*       provider switch empties the cache.                                    *)
EXTENDS Naturals, Sequences, FiniteSets, TLC

IsUse(it) == it = 0          \* item 0 = use; item d > 0 = definition with offset d
DefsIn(cal) == {cal[i] : i \in {j \in 1..Len(cal) : cal[j] # 0}}
UsesIn(cal) == {i \in 1..Len(cal) : cal[i] = 0}
WellFormedCal(cal) == Cardinality(DefsIn(cal)) = 1 /\ UsesIn(cal) # {}

\* Ref: offset every use must get
RefUse(cal) == CHOOSE d \in DefsIn(cal) : TRUE

\* Impl: fold over the items
RECURSIVE ImplRun(_, _, _)
ImplRun(cal, cache, acc) ==
    IF cal = <<>> THEN [cache |-> cache, uses |-> acc]
    ELSE IF cal[1] = 0 THEN ImplRun(Tail(cal), cache, Append(acc, cache))
    ELSE ImplRun(Tail(cal), IF cache = 0 THEN cal[1] ELSE cache, acc)
ImplParse(cal, cache) == ImplRun(cal, cache, <<>>)
\* known-finding class: a use stands before the definition in the file, or an earlier
\* calendar left a different definition of the same id in the cache
KF_History(cal, cache) ==
    \/ (cache = 0 /\ \E i \in UsesIn(cal) : \A j \in 1..i : cal[j] = 0)
    \/ (cache # 0 /\ cache # RefUse(cal))
=============================================================================
