----------------------------- MODULE TzCacheCap -----------------------------
(* The process-wide VTIMEZONE cache with several custom TZIDs and an optional *)
(* capacity.  cache is a sequence of <<id, def>> in insertion order; the       *)
(* pinned design is first-definition-wins without a bound (Cap = 0).  A        *)
(* bounded cache that evicts the oldest entry (Cap > 0) is the variant a       *)
(* "memory fix" would introduce: it can take a definition away from the very   *)
(* calendar that contains it -- TLC refutes OwnDefinition on it.               *)
EXTENDS Naturals, Sequences, FiniteSets, TLC

CONSTANTS Ids, Defs, Cap, MaxItems

Def(id, d) == [k |-> "def", id |-> id, d |-> d]
Use(id) == [k |-> "use", id |-> id, d |-> 0]
Items == {Def(i, d) : i \in Ids, d \in Defs} \cup {Use(i) : i \in Ids}

HasId(c, id) == \E j \in 1..Len(c) : c[j][1] = id
Lookup(c, id) == IF HasId(c, id) THEN c[CHOOSE j \in 1..Len(c) : c[j][1] = id][2] ELSE 0
Store(c, id, d) ==
    IF HasId(c, id) THEN c
    ELSE LET c2 == Append(c, <<id, d>>) IN IF Cap > 0 /\ Len(c2) > Cap THEN Tail(c2) ELSE c2

RECURSIVE Run(_, _, _)
Run(cal, c, acc) ==
    IF cal = <<>> THEN [cache |-> c, uses |-> acc]
    ELSE IF cal[1].k = "use" THEN Run(Tail(cal), c, Append(acc, Lookup(c, cal[1].id)))
    ELSE Run(Tail(cal), Store(c, cal[1].id, cal[1].d), acc)
Parse(cal, c) == Run(cal, c, <<>>)

\* Ref: every use resolves to the definition of its id in the same calendar
DefOf(cal, id) == cal[CHOOSE j \in 1..Len(cal) : cal[j].k = "def" /\ cal[j].id = id].d
RefUses(cal) == LET U == {j \in 1..Len(cal) : cal[j].k = "use"}
                    F[j \in 0..Len(cal)] == IF j = 0 THEN <<>> ELSE IF j \in U THEN Append(F[j - 1], DefOf(cal, cal[j].id)) ELSE F[j - 1]
                IN F[Len(cal)]
\* calendars outside the known class C12-K1: one definition per id, every use after its definition,
\* and nothing in the cache contradicts the calendar
OneDefPerId(cal) == \A i, j \in 1..Len(cal) : (cal[i].k = "def" /\ cal[j].k = "def" /\ cal[i].id = cal[j].id) => i = j
UsesAfterDefs(cal) == \A j \in 1..Len(cal) : cal[j].k = "use" => \E i \in 1..(j - 1) : cal[i].k = "def" /\ cal[i].id = cal[j].id
Agrees(cal, c) == \A j \in 1..Len(cal) : (cal[j].k = "def" /\ HasId(c, cal[j].id)) => Lookup(c, cal[j].id) = cal[j].d
Regular(cal, c) == OneDefPerId(cal) /\ UsesAfterDefs(cal) /\ Agrees(cal, c) /\ \E j \in 1..Len(cal) : cal[j].k = "use"
=============================================================================
