----------------------------- MODULE UsedTzids -----------------------------
(* Calendar.get_used_tzids / get_missing_tzids / add_missing_timezones.       *)
(* uses    : set of [id, site]  -- a TZID parameter on some property somewhere *)
(* present : [Ids -> 0..MaxTz]  -- number of VTIMEZONE components per TZID     *)
(* Known   : ids the provider can generate a VTIMEZONE for.                    *)
EXTENDS Naturals, FiniteSets, TLC
CONSTANTS Ids, Known, Sites, MaxUses, MaxTz, Old

VARIABLES uses, present
vars == <<uses, present>>

Used(u) == {x.id : x \in u}
Present(p) == {i \in Ids : p[i] > 0}
\* Ref
RefUsed == Used(uses)
RefMissing == Used(uses) \ Present(present)
RefAfterAddMissing == [i \in Ids |-> IF i \in RefMissing /\ i \in Known THEN 1 ELSE present[i]]

\* Impl mirror of get_missing_tzids: after the fix (discard) it is the set difference;
\* as pinned before the fix, set.remove raised KeyError for a VTIMEZONE that is not used
\* (or is present twice)
ImplMissing == IF Old /\ \E i \in Ids : present[i] > 0 /\ (i \notin Used(uses) \/ present[i] > 1)
               THEN {"KeyError"} ELSE RefMissing

Init == uses = {} /\ present = [i \in Ids |-> 0]
AddUse(i, s) == Cardinality(uses) < MaxUses /\ uses' = uses \cup {[id |-> i, site |-> s]} /\ UNCHANGED present
AddTz(i) == present[i] < MaxTz /\ present' = [present EXCEPT ![i] = @ + 1] /\ UNCHANGED uses
AddMissing == present' = RefAfterAddMissing /\ UNCHANGED uses
Next == (\E i \in Ids, s \in Sites : AddUse(i, s)) \/ (\E i \in Ids : AddTz(i)) \/ AddMissing
Spec == Init /\ [][Next]_vars

InvImpl == ImplMissing = RefMissing
\* closure: after AddMissing every used known id is present, unknown ids stay missing,
\* nothing else changes, and a second call changes nothing
Closure == [][AddMissing =>
              /\ \A i \in Used(uses) \cap Known : present'[i] >= 1 /\ (present[i] = 0 => present'[i] = 1)
              /\ \A i \in Ids : (i \notin Known \/ i \notin Used(uses) \/ present[i] > 0) => present'[i] = present[i]
              /\ (Used(uses) \ Present(present')) = {i \in RefMissing : i \notin Known}
              /\ [i \in Ids |-> IF i \in (Used(uses) \ Present(present')) /\ i \in Known THEN 1 ELSE present'[i]] = present']_vars
=============================================================================
