--------------------------- MODULE UsedTzidsHist ---------------------------
(* add_missing_timezones over a HISTORY in which the set of ids the provider  *)
(* can resolve changes: a custom id becomes known when some calendar defining *)
(* it is parsed (process-wide cache, C12), and is forgotten on a provider     *)
(* switch.  Ref: AddMissing consults what is known NOW.  The NegMemo variant  *)
(* remembers "unknown" from an earlier call (a cached miss) -- TLC refutes    *)
(* InvClosed on it.                                                           *)
EXTENDS Naturals, FiniteSets, Sequences, TLC
CONSTANTS Iana,        \* ids always known
          Custom,      \* ids known only after Learn
          MaxOps, NegMemo

Ids == Iana \cup Custom
VARIABLES uses, present, known, missmemo, hist
vars == <<uses, present, known, missmemo, hist>>

Init == uses = {} /\ present = {} /\ known = Iana /\ missmemo = {} /\ hist = <<>>
Log(op, i) == hist' = Append(hist, [op |-> op, id |-> i])
Use(i) == i \notin uses /\ uses' = uses \cup {i} /\ Log("use", i) /\ UNCHANGED <<present, known, missmemo>>
Learn(i) == i \in Custom /\ i \notin known /\ known' = known \cup {i} /\ Log("learn", i) /\ UNCHANGED <<uses, present, missmemo>>
Forget == known # Iana /\ known' = Iana /\ Log("forget", "") /\ UNCHANGED <<uses, present, missmemo>>
Resolvable(i) == i \in known /\ (NegMemo => i \notin missmemo)
AddMissing ==
    /\ present' = present \cup {i \in uses : Resolvable(i)}
    /\ missmemo' = missmemo \cup {i \in uses \ present : i \notin known}
    /\ Log("addmissing", "")
    /\ UNCHANGED <<uses, known>>
Next == /\ Len(hist) < MaxOps
        /\ \/ \E i \in Ids : Use(i) \/ Learn(i)
           \/ Forget \/ AddMissing
Spec == Init /\ [][Next]_vars

\* right after AddMissing: every used id the provider can resolve NOW has a VTIMEZONE (an id that was added while it
\* was known stays present after the provider forgot it)
LastIsAdd == hist # <<>> /\ hist[Len(hist)].op = "addmissing"
InvClosed == LastIsAdd => (uses \ present) \cap known = {}
\* VTIMEZONEs are only ever added for used ids
InvOnlyUsed == present \subseteq uses
=============================================================================
