------------------------------ MODULE VTimezone ------------------------------
(* RFC 5545 3.6.5 VTIMEZONE interpretation (C12) and the contract of a          *)
(* generated VTIMEZONE (C13).  Times are minutes since 1970-01-01T00:00.        *)
(* An observance is [kind, name, from, to, local] with kind STANDARD/DAYLIGHT,  *)
(* offsets in minutes and local = the set of onsets as LOCAL wall minutes       *)
(* (DTSTART, RDATEs, expanded RRULE).  The onset instant of a local onset l is  *)
(* l - from (the wall clock before the change shows TZOFFSETFROM).              *)
EXTENDS Naturals, Integers, Sequences, FiniteSets, TLC

\* ------------------------------------------------------------------ civil calendar (Gregorian)
IsLeap(y) == (y % 4 = 0 /\ y % 100 # 0) \/ y % 400 = 0
DaysIn(y, m) == IF m \in {1, 3, 5, 7, 8, 10, 12} THEN 31 ELSE IF m \in {4, 6, 9, 11} THEN 30 ELSE IF IsLeap(y) THEN 29 ELSE 28
\* days since 1970-01-01 (years >= 1600)
DaysFromCivil(y, m, d) ==
    LET yy == IF m <= 2 THEN y - 1 ELSE y
        era == yy \div 400
        yoe == yy - era * 400
        mp == IF m > 2 THEN m - 3 ELSE m + 9
        doy == (153 * mp + 2) \div 5 + d - 1
        doe == yoe * 365 + yoe \div 4 - yoe \div 100 + doy
    IN era * 146097 + doe - 719468
\* 0 = Sunday ... 6 = Saturday
Weekday(days) == (days + 4) % 7
\* day of month of the n-th (n >= 1) or last (n = -1) weekday w of month m
NthWeekday(y, m, n, w) ==
    IF n >= 1 THEN 1 + ((w - Weekday(DaysFromCivil(y, m, 1)) + 7) % 7) + 7 * (n - 1)
    ELSE DaysIn(y, m) - ((Weekday(DaysFromCivil(y, m, DaysIn(y, m))) - w + 7) % 7)
Minutes(y, m, d, hm) == DaysFromCivil(y, m, d) * 1440 + hm

\* ------------------------------------------------------------------ recurrences of an observance
\* rec = [k |-> "none"] | [k |-> "rdate", set] | [k |-> "yearly", m, n, w, hm, y0, endk, endv]
\* endk: "open" (library: until 2038-12-31), "count" (endv occurrences), "until" (endv = UTC minute)
LastYear == 2038
YearlyLocal(r, from) ==
    LET years == IF r.endk = "count" THEN r.y0..(r.y0 + r.endv - 1) ELSE r.y0..LastYear
        occ(y) == Minutes(y, r.m, NthWeekday(y, r.m, r.n, r.w), r.hm)
    IN {occ(y) : y \in {yy \in years : r.endk # "until" \/ occ(yy) - from <= r.endv}}
LocalOnsets(start, rec, from) ==
    CASE rec.k = "none" -> {start}
      [] rec.k = "rdate" -> {start} \cup rec.set
      [] OTHER -> YearlyLocal(rec, from)

\* ------------------------------------------------------------------ Ref interpretation
\* zone = sequence of observances [kind, name, from, to, local]
\* (an observance given by parameters [.., start, rec] is completed with WithLocal)
WithLocal(o) == [kind |-> o.kind, name |-> o.name, from |-> o.from, to |-> o.to, local |-> LocalOnsets(o.start, o.rec, o.from)]
Onsets(z) == UNION {{[t |-> l - z[i].from, i |-> i] : l \in z[i].local} : i \in 1..Len(z)}
FirstOnset(z) == CHOOSE a \in {o.t : o \in Onsets(z)} : \A b \in {o.t : o \in Onsets(z)} : a <= b
Defined(z, t) == Onsets(z) # {} /\ t >= FirstOnset(z)
\* the observance in effect at instant t (latest onset not after t); when two observances share
\* that onset the interpretation is ambiguous: every candidate is admissible
\* (the *In variants take the precomputed onset set)
ActiveIn(ons, t) ==
    LET le == {a \in ons : a.t <= t}
        mx == CHOOSE m \in {a.t : a \in le} : \A b \in le : b.t <= m
    IN {a.i : a \in {b \in le : b.t = mx}}
Active(z, t) == ActiveIn(Onsets(z), t)
OffsetsAt(z, t) == {z[i].to : i \in Active(z, t)}
NamesAt(z, t) == {z[i].name : i \in Active(z, t)}
KindsAt(z, t) == {z[i].kind : i \in Active(z, t)}

\* ------------------------------------------------------------------ Impl mirror: Timezone.get_transitions + pytz lookup
\* get_transitions collects one tuple <<local, from, to, name>> per onset (a set, so duplicates of one
\* observance collapse), sorts the tuples -- i.e. by LOCAL time first --, and derives
\*   transition_times[k] = local[k] - from[k]
\*   transition_info[k]  = <<to[k], dst[k], name[k]>>
\* with dst = 0 for STANDARD, else to - (to of the nearest earlier STANDARD transition, or, when there
\* is none, of the first STANDARD transition at or after k).  pytz then looks an instant up with
\* bisect_right on transition_times -- which assumes they ascend.
TupleLess(a, b) == \/ a[1] < b[1]
                   \/ (a[1] = b[1] /\ a[2] < b[2])
                   \/ (a[1] = b[1] /\ a[2] = b[2] /\ a[3] < b[3])
                   \/ (a[1] = b[1] /\ a[2] = b[2] /\ a[3] = b[3] /\ a[4] < b[4])     \* a[4]: index standing for the name
RECURSIVE SortTuples(_)
SortTuples(S) == IF S = {} THEN <<>>
                 ELSE LET m == CHOOSE x \in S : \A y \in S : y # x => TupleLess(x, y) \/ (x[1] = y[1] /\ x[2] = y[2] /\ x[3] = y[3] /\ x[4] = y[4])
                      IN <<m>> \o SortTuples(S \ {m})
ImplTransitions(z) == SortTuples(UNION {{<<l, z[i].from, z[i].to, i>> : l \in z[i].local} : i \in 1..Len(z)})
ImplTimes(tr) == [k \in 1..Len(tr) |-> tr[k][1] - tr[k][2]]
IsStd(z, i) == z[i].kind = "STANDARD"
ImplDst(z, tr, k) ==
    IF IsStd(z, tr[k][4]) THEN 0
    ELSE LET back == {j \in 1..(k - 1) : IsStd(z, tr[j][4])}
             fwd == {j \in k..Len(tr) : IsStd(z, tr[j][4])}
         IN IF back # {} THEN tr[k][3] - tr[CHOOSE j \in back : \A j2 \in back : j2 <= j][3]
            ELSE IF fwd # {} THEN tr[k][3] - tr[CHOOSE j \in fwd : \A j2 \in fwd : j <= j2][3]
            ELSE -1           \* the code asserts here (no STANDARD observance at all)
\* bisect.bisect_right(a, x) as Python computes it (also on a list that does not ascend)
RECURSIVE BisectRight(_, _, _, _)
BisectRight(a, x, lo, hi) == IF lo >= hi THEN lo
                             ELSE LET mid == (lo + hi) \div 2
                                  IN IF x < a[mid + 1] THEN BisectRight(a, x, lo, mid) ELSE BisectRight(a, x, mid + 1, hi)
\* index (1-based) of the transition pytz uses for UTC instant t
ImplIndex(times, t) == LET b == BisectRight(times, t, 0, Len(times)) IN IF b - 1 < 0 THEN 1 ELSE b
ImplAnswerIn(z, tr, times, t) ==
    LET k == ImplIndex(times, t)
    IN [off |-> tr[k][3], name |-> z[tr[k][4]].name, dst |-> ImplDst(z, tr, k), std |-> IsStd(z, tr[k][4])]
ImplAnswer(z, t) == LET tr == ImplTransitions(z) IN ImplAnswerIn(z, tr, ImplTimes(tr), t)

\* ------------------------------------------------------------------ C13: generated VTIMEZONE
\* window [w0, w1) in minutes; every observance complete, every onset inside the window
WellFormedGen(z, w0, w1, slack) ==
    /\ Len(z) >= 1
    /\ \A i \in 1..Len(z) : z[i].local # {} /\ z[i].name # "" /\ z[i].kind \in {"STANDARD", "DAYLIGHT"}
    /\ \A o \in Onsets(z) : o.t >= w0 - slack /\ o.t < w1 + slack

\* ------------------------------------------------------------------ C13: the coarse-to-fine search of from_tzinfo
\* src = set of transition ticks of a piecewise-constant source on 0..Horizon; Ladder = step sizes.
\* The source alternates between two offsets (DST on/off): its value at tick t is the parity
\* of the number of transitions <= t, so an excursion A -> B -> A returns to the SAME value.
Idx(src, t) == Cardinality({x \in src : x <= t}) % 2
RECURSIVE Advance(_, _, _, _, _)
Advance(src, end, step, cur, horizon) ==      \* while end.utcoffset() == offset_to: end += step
    IF end + step > horizon THEN end
    ELSE IF Idx(src, end + step) = cur THEN Advance(src, end + step, step, cur, horizon) ELSE end
RECURSIVE Descend(_, _, _, _, _)
Descend(src, end, ladder, cur, horizon) ==
    IF ladder = <<>> THEN end ELSE Descend(src, Advance(src, end, ladder[1], cur, horizon), Tail(ladder), cur, horizon)
RECURSIVE Search(_, _, _, _)
Search(src, start, ladder, horizon) ==          \* the set of period starts the search records
    IF start >= horizon THEN {}
    ELSE LET cur == Idx(src, start)
             end == Descend(src, start, ladder, cur, horizon)
         IN {start} \cup Search(src, end + ladder[Len(ladder)], ladder, horizon)
\* what it should find: tick 0 and every transition
TrueStarts(src, horizon) == {0} \cup {x \in src : x < horizon}
=============================================================================
