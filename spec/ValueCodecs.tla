----------------------------- MODULE ValueCodecs -----------------------------
(* RFC 5545 3.3 value types: grammar InG_T and denotation Den_T on text        *)
(* (code point sequences), and Impl mirrors of prop.py encoders/decoders.      *)
(* Values are integer tuples: date <<y,m,d>>, time <<h,mi,s>>,                 *)
(* date-time <<y,m,d,h,mi,s,utc>> (utc 0/1), duration <<sign,days,secs>> with  *)
(* sign in {1,-1} and 0 <= secs < 86400 (abs value), offset <<sign,secs>>,     *)
(* integer <<sign, digits>>.                                                  *)
EXTENDS Bytes

\* ------------------------------------------------------------------ civil calendar
IsLeap(y) == (y % 4 = 0 /\ y % 100 # 0) \/ y % 400 = 0
DaysIn(y, m) == IF m \in {1, 3, 5, 7, 8, 10, 12} THEN 31 ELSE IF m \in {4, 6, 9, 11} THEN 30
                ELSE IF IsLeap(y) THEN 29 ELSE 28
ValidDate(y, m, d) == y >= 1 /\ y <= 9999 /\ m >= 1 /\ m <= 12 /\ d >= 1 /\ d <= DaysIn(y, m)

cT == 84
cZ == 90
cP == 80
cW == 87
cD == 68
cH == 72
cM == 77
cS == 83
cPlus == 43
cMinus == 45
cSlash == 47
cL == 76
cDot == 46

\* ------------------------------------------------------------------ DATE / TIME / DATE-TIME
InG_Date(t) == Len(t) = 8 /\ AllDigits(t) /\ ValidDate(NatOf(Take(t, 4)), NatOf(SubSeq(t, 5, 6)), NatOf(SubSeq(t, 7, 8)))
Den_Date(t) == <<NatOf(Take(t, 4)), NatOf(SubSeq(t, 5, 6)), NatOf(SubSeq(t, 7, 8))>>
\* second 60 (leap second) is inside the grammar but outside what Python can represent
InG_Time(t) == Len(t) \in {6, 7} /\ AllDigits(Take(t, 6)) /\ (Len(t) = 7 => t[7] = cZ)
               /\ NatOf(SubSeq(t, 1, 2)) <= 23 /\ NatOf(SubSeq(t, 3, 4)) <= 59 /\ NatOf(SubSeq(t, 5, 6)) <= 59
Den_Time(t) == <<NatOf(SubSeq(t, 1, 2)), NatOf(SubSeq(t, 3, 4)), NatOf(SubSeq(t, 5, 6))>>
InG_DateTime(t) == Len(t) \in {15, 16} /\ t[9] = cT /\ InG_Date(Take(t, 8)) /\ InG_Time(Drop(t, 9))
Den_DateTime(t) == Den_Date(Take(t, 8)) \o Den_Time(SubSeq(t, 10, 15)) \o <<IF Len(t) = 16 THEN 1 ELSE 0>>

Enc_Date(v) == Digits(v[1], 4) \o Digits(v[2], 2) \o Digits(v[3], 2)
Enc_Time(v) == Digits(v[1], 2) \o Digits(v[2], 2) \o Digits(v[3], 2)
Enc_DateTime(v) == Enc_Date(v) \o <<cT>> \o Enc_Time(<<v[4], v[5], v[6]>>) \o (IF v[7] = 1 THEN <<cZ>> ELSE <<>>)

\* ------------------------------------------------------------------ DURATION
\* dur-value = (["+"] / "-") "P" (dur-date / dur-time / dur-week)
\* leading run of digits
RECURSIVE DigitRun(_, _)
DigitRun(t, i) == IF i <= Len(t) /\ IsDigit(t[i]) THEN DigitRun(t, i + 1) ELSE i - 1
\* parse "<digits><unit>" at position i: [ok, n, next]
Item(t, i, unit) == LET j == DigitRun(t, i) IN
                    IF j >= i /\ j < Len(t) /\ t[j + 1] = unit THEN [ok |-> TRUE, n |-> NatOf(SubSeq(t, i, j)), next |-> j + 2]
                    ELSE [ok |-> FALSE, n |-> 0, next |-> i]
\* dur-time = "T" (dur-hour / dur-minute / dur-second); returns [ok, secs]
DurTime(t, i) ==
    IF ~(i <= Len(t) /\ t[i] = cT) THEN [ok |-> FALSE, secs |-> 0]
    ELSE LET h == Item(t, i + 1, cH)
             mAfterH == Item(t, h.next, cM)
             sAfterM == Item(t, mAfterH.next, cS)
             m0 == Item(t, i + 1, cM)
             sAfterM0 == Item(t, m0.next, cS)
             s0 == Item(t, i + 1, cS)
         IN IF h.ok THEN
               (IF h.next > Len(t) THEN [ok |-> TRUE, secs |-> h.n * 3600]
                ELSE IF mAfterH.ok THEN
                     (IF mAfterH.next > Len(t) THEN [ok |-> TRUE, secs |-> h.n * 3600 + mAfterH.n * 60]
                      ELSE IF sAfterM.ok /\ sAfterM.next > Len(t)
                           THEN [ok |-> TRUE, secs |-> h.n * 3600 + mAfterH.n * 60 + sAfterM.n]
                           ELSE [ok |-> FALSE, secs |-> 0])
                ELSE [ok |-> FALSE, secs |-> 0])
            ELSE IF m0.ok THEN
               (IF m0.next > Len(t) THEN [ok |-> TRUE, secs |-> m0.n * 60]
                ELSE IF sAfterM0.ok /\ sAfterM0.next > Len(t) THEN [ok |-> TRUE, secs |-> m0.n * 60 + sAfterM0.n]
                ELSE [ok |-> FALSE, secs |-> 0])
            ELSE IF s0.ok /\ s0.next > Len(t) THEN [ok |-> TRUE, secs |-> s0.n]
            ELSE [ok |-> FALSE, secs |-> 0]

\* [ok, sign, total seconds of the absolute value as <<days, secs>>]
ParseDur(t) ==
    LET sgn == IF t # <<>> /\ t[1] = cMinus THEN -1 ELSE 1
        i0 == IF t # <<>> /\ t[1] \in {cPlus, cMinus} THEN 2 ELSE 1
        bad == [ok |-> FALSE, sign |-> 1, days |-> 0, secs |-> 0]
    IN IF ~(i0 <= Len(t) /\ t[i0] = cP) THEN bad
       ELSE LET w == Item(t, i0 + 1, cW)
                d == Item(t, i0 + 1, cD)
                tm == DurTime(t, i0 + 1)
                dtm == DurTime(t, d.next)
            IN IF w.ok THEN (IF w.next > Len(t) THEN [ok |-> TRUE, sign |-> sgn, days |-> 7 * w.n, secs |-> 0] ELSE bad)
               ELSE IF d.ok THEN
                    (IF d.next > Len(t) THEN [ok |-> TRUE, sign |-> sgn, days |-> d.n, secs |-> 0]
                     ELSE IF dtm.ok THEN [ok |-> TRUE, sign |-> sgn, days |-> d.n + dtm.secs \div 86400, secs |-> dtm.secs % 86400]
                     ELSE bad)
               ELSE IF tm.ok THEN [ok |-> TRUE, sign |-> sgn, days |-> tm.secs \div 86400, secs |-> tm.secs % 86400]
               ELSE bad
InG_Duration(t) == ParseDur(t).ok
\* the zero duration has no sign
Den_Duration(t) == LET p == ParseDur(t) IN <<IF p.days = 0 /\ p.secs = 0 THEN 1 ELSE p.sign, p.days, p.secs>>

\* Impl: vDuration.to_ical on <<sign, days, secs>>
ImplEnc_Duration(v) ==
    LET sign == IF v[1] = -1 THEN <<cMinus>> ELSE <<>>
        days == v[2]
        secs == v[3]
        hh == secs \div 3600
        mm == (secs % 3600) \div 60
        ss == secs % 60
        timepart == IF secs = 0 THEN <<>>
                    ELSE <<cT>> \o (IF hh # 0 THEN DigitsOf(hh) \o <<cH>> ELSE <<>>)
                         \o (IF mm # 0 \/ (hh # 0 /\ ss # 0) THEN DigitsOf(mm) \o <<cM>> ELSE <<>>)
                         \o (IF ss # 0 THEN DigitsOf(ss) \o <<cS>> ELSE <<>>)
    IN IF days = 0 /\ timepart # <<>> THEN sign \o <<cP>> \o timepart
       ELSE sign \o <<cP>> \o DigitsOf(days) \o <<cD>> \o timepart

\* ------------------------------------------------------------------ UTC-OFFSET
\* time-numzone = ("+" / "-") time-hour time-minute [time-second]; "-0000" / "-000000" not allowed
InG_Offset(t) == /\ Len(t) \in {5, 7} /\ t[1] \in {cPlus, cMinus} /\ AllDigits(Drop(t, 1))
                 /\ NatOf(SubSeq(t, 2, 3)) <= 23 /\ NatOf(SubSeq(t, 4, 5)) <= 59
                 /\ (Len(t) = 7 => NatOf(SubSeq(t, 6, 7)) <= 59)
                 /\ ~(t[1] = cMinus /\ NatOf(Drop(t, 1)) = 0)
OffSecs(t) == NatOf(SubSeq(t, 2, 3)) * 3600 + NatOf(SubSeq(t, 4, 5)) * 60 + (IF Len(t) = 7 THEN NatOf(SubSeq(t, 6, 7)) ELSE 0)
Den_Offset(t) == <<IF t[1] = cMinus /\ OffSecs(t) # 0 THEN -1 ELSE 1, OffSecs(t)>>
\* Impl: vUTCOffset.to_ical on <<sign, secs>>
ImplEnc_Offset(v) ==
    LET secs == v[2]
        hh == secs \div 3600
        mm == (secs % 3600) \div 60
        ss == secs % 60
    IN <<IF v[1] = -1 THEN cMinus ELSE cPlus>> \o Digits(hh, 2) \o Digits(mm, 2) \o (IF ss # 0 THEN Digits(ss, 2) ELSE <<>>)

\* ------------------------------------------------------------------ PERIOD
SlashPos(t) == IndexOf(t, cSlash)
InG_Period(t) == LET k == SlashPos(t) IN
                 k > 0 /\ InG_DateTime(Take(t, k - 1)) /\ (InG_DateTime(Drop(t, k)) \/ (InG_Duration(Drop(t, k))))
\* <<start, "e"|"d", end-or-duration>>
Den_Period(t) == LET k == SlashPos(t) IN
                 IF InG_DateTime(Drop(t, k)) THEN <<Den_DateTime(Take(t, k - 1)), "e", Den_DateTime(Drop(t, k))>>
                 ELSE <<Den_DateTime(Take(t, k - 1)), "d", Den_Duration(Drop(t, k))>>

\* ------------------------------------------------------------------ the combined classifier
RefClass(t) == IF InG_Duration(t) THEN "duration" ELSE IF InG_Period(t) THEN "period"
               ELSE IF InG_DateTime(t) THEN "date-time" ELSE IF InG_Date(t) THEN "date"
               ELSE IF InG_Time(t) THEN "time" ELSE "none"
GrammarsDisjoint(t) == Cardinality({x \in {1, 2, 3, 4, 5} :
                            CASE x = 1 -> InG_Duration(t) [] x = 2 -> InG_Period(t) [] x = 3 -> InG_DateTime(t)
                              [] x = 4 -> InG_Date(t) [] OTHER -> InG_Time(t)}) <= 1
\* Impl: vDDDTypes.from_ical dispatch (prefix P/+P/-P after upper-casing, '/', length)
ImplClass(t) ==
    LET u == Upper(t) IN
    IF StartsWith(u, <<cP>>) \/ StartsWith(u, <<cMinus, cP>>) \/ StartsWith(u, <<cPlus, cP>>) THEN "duration"
    ELSE IF Contains(u, cSlash) THEN "period"
    ELSE IF Len(t) \in {15, 16} THEN "date-time"
    ELSE IF Len(t) = 8 THEN "date"
    ELSE IF Len(t) \in {6, 7} THEN "time" ELSE "none"

\* ------------------------------------------------------------------ INTEGER / BOOLEAN / FLOAT / month / weekday
InG_Integer(t) == LET b == IF t # <<>> /\ t[1] \in {cPlus, cMinus} THEN Tail(t) ELSE t IN b # <<>> /\ AllDigits(b)
RECURSIVE StripZeros(_)
StripZeros(d) == IF Len(d) > 1 /\ d[1] = 48 THEN StripZeros(Tail(d)) ELSE d
Den_Integer(t) == LET b == StripZeros(IF t[1] \in {cPlus, cMinus} THEN Tail(t) ELSE t)
                  IN <<IF t[1] = cMinus /\ b # <<48>> THEN -1 ELSE 1, b>>
InG_Float(t) == LET b == IF t # <<>> /\ t[1] \in {cPlus, cMinus} THEN Tail(t) ELSE t
                    k == IndexOf(b, cDot)
                IN IF k = 0 THEN b # <<>> /\ AllDigits(b)
                   ELSE k > 1 /\ k < Len(b) /\ AllDigits(Take(b, k - 1)) /\ AllDigits(Drop(b, k))
InG_Geo(t) == LET k == IndexOf(t, SEMI) IN k > 1 /\ k < Len(t) /\ InG_Float(Take(t, k - 1)) /\ InG_Float(Drop(t, k))
InG_Boolean(t) == Upper(t) \in {<<84, 82, 85, 69>>, <<70, 65, 76, 83, 69>>}
WeekdayNames == {<<83, 85>>, <<77, 79>>, <<84, 85>>, <<87, 69>>, <<84, 72>>, <<70, 82>>, <<83, 65>>}
\* weekdaynum = [[plus / minus] ordwk] weekday ; ordwk 1..53
InG_Weekday(t) == Len(t) >= 2 /\ SubSeq(t, Len(t) - 1, Len(t)) \in WeekdayNames /\
                  LET pre == Take(t, Len(t) - 2)
                      num == IF pre # <<>> /\ pre[1] \in {cPlus, cMinus} THEN Tail(pre) ELSE pre
                  IN pre = <<>> \/ (num # <<>> /\ Len(num) <= 2 /\ AllDigits(num) /\ NatOf(num) >= 1 /\ NatOf(num) <= 53)
Den_Weekday(t) == LET pre == Take(t, Len(t) - 2)
                      num == IF pre # <<>> /\ pre[1] \in {cPlus, cMinus} THEN Tail(pre) ELSE pre
                  IN <<IF pre = <<>> THEN 0 ELSE (IF pre[1] = cMinus THEN 0 - NatOf(num) ELSE NatOf(num)),
                       SubSeq(t, Len(t) - 1, Len(t))>>
InG_Month(t) == LET b == IF t # <<>> /\ t[Len(t)] = cL THEN Take(t, Len(t) - 1) ELSE t IN b # <<>> /\ AllDigits(b)
Den_Month(t) == IF t[Len(t)] = cL THEN <<NatOf(Take(t, Len(t) - 1)), 1>> ELSE <<NatOf(t), 0>>

\* ------------------------------------------------------------------ BINARY (base64)
B64(c) == IF c < 26 THEN 65 + c ELSE IF c < 52 THEN 97 + (c - 26) ELSE IF c < 62 THEN 48 + (c - 52) ELSE IF c = 62 THEN 43 ELSE 47
RECURSIVE Enc64(_)
Enc64(b) ==
    IF b = <<>> THEN <<>>
    ELSE IF Len(b) = 1 THEN <<B64(b[1] \div 4), B64((b[1] % 4) * 16), EQ, EQ>>
    ELSE IF Len(b) = 2 THEN <<B64(b[1] \div 4), B64((b[1] % 4) * 16 + b[2] \div 16), B64((b[2] % 16) * 4), EQ>>
    ELSE <<B64(b[1] \div 4), B64((b[1] % 4) * 16 + b[2] \div 16), B64((b[2] % 16) * 4 + b[3] \div 64), B64(b[3] % 64)>>
         \o Enc64(Drop(b, 3))
=============================================================================
