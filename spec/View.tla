-------------------------------- MODULE View --------------------------------
(* Views of a mutable object.                                                    *)
(*                                                                               *)
(* Several classes of the library are mappings whose values are themselves       *)
(* mutable (Parameters: lists of strings; vRecur: lists of rule values; a        *)
(* Component: lists of property values, values with parameters, category lists)  *)
(* and offer a VIEW that is computed from the whole content (to_ical,            *)
(* sorted_keys, get_used_tzids, Alarms.times ...).  The contract the properties  *)
(* rely on: a view shows the content AS IT IS WHEN THE VIEW IS TAKEN, whatever   *)
(* was viewed or edited before -- in particular after an edit made through a     *)
(* held value (p["MEMBER"].append(x)), which the mapping interface cannot see.   *)
(*                                                                               *)
(* content   the abstract content: key -> sequence of values (<<>> = absent)     *)
(* memo      what an implementation may remember of an earlier view              *)
(* last      the last view taken and the content at that moment                  *)
(* Memo      "none"       nothing is remembered (the contract, and the code)     *)
(*           "interface"  remembered until the mapping interface is used         *)
(*           "forever"    remembered for the life of the object                  *)
(* The two memo variants are refuted by TLC (vacuity guards: the behaviours that *)
(* are replayed on the code contain what it takes to tell them apart).           *)
EXTENDS Naturals, Sequences, FiniteSets
CONSTANTS Keys, Vals, MaxOps, Memo
VARIABLES content, memo, last, hist
vars == <<content, memo, last, hist>>

NoMemo == <<>>
Seqs == {<<v>> : v \in Vals} \cup {<<v, w>> : v, w \in Vals}
Init == /\ content = [k \in Keys |-> <<>>]
        /\ memo = NoMemo
        /\ last = [view |-> [k \in Keys |-> <<>>], truth |-> [k \in Keys |-> <<>>]]
        /\ hist = <<>>

Log(op) == hist' = Append(hist, op)
Forget == memo' = IF Memo = "forever" THEN memo ELSE NoMemo

\* through the mapping interface: o[k] = s
Set(k, s) == /\ content' = [content EXCEPT ![k] = s]
             /\ Forget /\ UNCHANGED last
             /\ Log([op |-> "set", k |-> k, s |-> s, v |-> 0])
\* through the mapping interface: del o[k]
Del(k) == /\ content[k] # <<>>
          /\ content' = [content EXCEPT ![k] = <<>>]
          /\ Forget /\ UNCHANGED last
          /\ Log([op |-> "del", k |-> k, s |-> <<>>, v |-> 0])
\* through the value the mapping holds: o[k].append(v) -- no method of the mapping is involved
Inner(k, v) == /\ content[k] # <<>> /\ Len(content[k]) < 3
               /\ content' = [content EXCEPT ![k] = Append(@, v)]
               /\ UNCHANGED <<memo, last>>
               /\ Log([op |-> "inner", k |-> k, s |-> <<>>, v |-> v])
\* through the value: o[k][1] = v
Poke(k, v) == /\ content[k] # <<>> /\ content[k][1] # v
              /\ content' = [content EXCEPT ![k] = [@ EXCEPT ![1] = v]]
              /\ UNCHANGED <<memo, last>>
              /\ Log([op |-> "poke", k |-> k, s |-> <<>>, v |-> v])
\* the view
Read == LET view == IF memo # NoMemo THEN memo[1] ELSE content
        IN /\ last' = [view |-> view, truth |-> content]
           /\ memo' = IF Memo = "none" THEN NoMemo ELSE <<view>>
           /\ UNCHANGED content
           /\ Log([op |-> "read", k |-> 0, s |-> <<>>, v |-> 0])

Next == /\ Len(hist) < MaxOps
        /\ \/ \E k \in Keys, s \in Seqs : Set(k, s)
           \/ \E k \in Keys : Del(k)
           \/ \E k \in Keys, v \in Vals : Inner(k, v) \/ Poke(k, v)
           \/ Read
Spec == Init /\ [][Next]_vars

\* the contract
Current == last.view = last.truth
\* a view taken twice in a row is the same view (reads do not change the object)
ReadIsPure == [][(Len(hist) > 0 /\ hist[Len(hist)].op = "read" /\ hist'[Len(hist')].op = "read") => last'.view = last.view]_vars
=============================================================================
