-------------------------------- MODULE Wire --------------------------------
(* RFC 5545 3.1 framing: what is insignificant on the wire.                    *)
(* Ref : Frame(text) = BOM stripped, unfolded (CRLF or LF followed by SP or    *)
(*       TAB removed), split on CRLF or LF, empty lines dropped, every line    *)
(*       split by ContentLine!RefSplit and its names upper-cased.              *)
(*       Render(lines, ch) writes abstract lines under rendering choices ch.   *)
(*       Theorem: Frame(Render(ls, ch)) = Frame(Render(ls, Plain)).            *)
(* Impl: ImplFrame = the library's uFOLD regex, NEWLINE split and parts().     *)
EXTENDS ContentLine, Folding

BOMc == 65279
\* ------------------------------------------------------------------ Ref framing
RECURSIVE RefUnfold(_, _)
RefUnfold(t, i) ==
    IF i > Len(t) THEN <<>>
    ELSE IF t[i] = CR /\ i + 2 <= Len(t) /\ t[i + 1] = LF /\ t[i + 2] \in {SP, TAB} THEN RefUnfold(t, i + 3)
    ELSE IF t[i] = LF /\ i + 1 <= Len(t) /\ t[i + 1] \in {SP, TAB} THEN RefUnfold(t, i + 2)
    ELSE <<t[i]>> \o RefUnfold(t, i + 1)
\* split on CRLF or LF
RECURSIVE RefLines(_, _, _)
RefLines(t, i, acc) ==
    IF i > Len(t) THEN <<acc>>
    ELSE IF t[i] = CR /\ i < Len(t) /\ t[i + 1] = LF THEN <<acc>> \o RefLines(t, i + 2, <<>>)
    ELSE IF t[i] = LF THEN <<acc>> \o RefLines(t, i + 1, <<>>)
    ELSE RefLines(t, i + 1, Append(acc, t[i]))
IsBE(name) == Upper(name) \in {<<66, 69, 71, 73, 78>>, <<69, 78, 68>>}
CanonLine(p) == IF ~p.ok THEN p
                ELSE [ok |-> TRUE, name |-> Upper(p.name),
                      params |-> [i \in 1..Len(p.params) |-> [k |-> Upper(p.params[i].k), list |-> p.params[i].list, vals |-> p.params[i].vals]],
                      value |-> IF IsBE(p.name) THEN Upper(p.value) ELSE p.value]
Frame(text) ==
    LET t0 == IF text # <<>> /\ text[1] = BOMc THEN Tail(text) ELSE text
        ls == SelectSeq(RefLines(RefUnfold(t0, 1), 1, <<>>), LAMBDA x : x # <<>>)
    IN [i \in 1..Len(ls) |-> CanonLine(RefSplit(ls[i]))]

\* ------------------------------------------------------------------ Impl framing
RECURSIVE ImplLines(_, _, _)
ImplLines(t, i, acc) ==     \* NEWLINE = \r?\n
    IF i > Len(t) THEN <<acc>>
    ELSE IF t[i] = CR /\ i < Len(t) /\ t[i + 1] = LF THEN <<acc>> \o ImplLines(t, i + 2, <<>>)
    ELSE IF t[i] = LF THEN <<acc>> \o ImplLines(t, i + 1, <<>>)
    ELSE ImplLines(t, i + 1, Append(acc, t[i]))
\* bytes are decoded with utf-8-sig (BOM dropped); a str keeps a leading U+FEFF
ImplFrame(text, isStr) ==
    LET t0 == IF ~isStr /\ text # <<>> /\ text[1] = BOMc THEN Tail(text) ELSE text
        ls == SelectSeq(ImplLines(ImplUnfold(t0), 1, <<>>), LAMBDA x : x # <<>>)
    IN [i \in 1..Len(ls) |-> CanonLine(ImplParts(ls[i], FALSE))]

\* ------------------------------------------------------------------ rendering
Lo(c) == IF c >= 65 /\ c <= 90 THEN c + 32 ELSE c
Lower(t) == [i \in 1..Len(t) |-> Lo(t[i])]
Alt(t) == [i \in 1..Len(t) |-> IF i % 2 = 0 THEN Lo(t[i]) ELSE Up(t[i])]
CaseOf(t, m) == IF m = 0 THEN t ELSE IF m = 1 THEN Lower(t) ELSE Alt(t)
\* abstract line: [name, params (seq of [k, list, vals]), value]
RenderLine(l, m) ==
    CaseOf(l.name, m)
      \o Concat([i \in 1..Len(l.params) |-> <<SEMI>> \o CaseOf(l.params[i].k, m) \o <<EQ>> \o ImplParamValue(l.params[i])])
      \o <<COLON>> \o (IF IsBE(l.name) THEN CaseOf(l.value, m) ELSE l.value)
EOL(ch) == IF ch.eol = "crlf" THEN <<CR, LF>> ELSE <<LF>>
RECURSIVE FoldEvery(_, _, _, _)
FoldEvery(t, n, sep, k) == IF t = <<>> THEN <<>>
                           ELSE IF k = n THEN sep \o FoldEvery(t, n, sep, 0)
                           ELSE <<t[1]>> \o FoldEvery(Tail(t), n, sep, k + 1)
FoldLine(t, ch) ==
    CASE ch.fold = 0 -> t
      [] ch.fold = 1 -> FoldEvery(t, 7, EOL(ch) \o <<SP>>, 0)
      [] ch.fold = 2 -> FoldEvery(t, 5, EOL(ch) \o <<TAB>>, 0)
      [] OTHER -> IF Len(t) < 3 THEN t ELSE <<t[1]>> \o EOL(ch) \o <<SP>> \o SubSeq(t, 2, Len(t) - 1) \o EOL(ch) \o <<TAB>> \o <<t[Len(t)]>>
RECURSIVE Blank(_, _)
Blank(e, k) == IF k = 0 THEN <<>> ELSE e \o Blank(e, k - 1)
Render(ls, ch) ==
    (IF ch.bom THEN <<BOMc>> ELSE <<>>)
      \o Concat([i \in 1..Len(ls) |-> FoldLine(RenderLine(ls[i], ch.case), ch) \o EOL(ch)])
      \o Blank(EOL(ch), ch.trail)
PlainCh == [eol |-> "crlf", bom |-> FALSE, str |-> FALSE, fold |-> 0, case |-> 0, trail |-> 0]
=============================================================================
