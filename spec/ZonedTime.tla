------------------------------ MODULE ZonedTime ------------------------------
(* RFC 5545 3.3.5 forms of DATE-TIME on the wire (C11).                          *)
(* A value is [wall, zone] with zone "floating" | "UTC" | a zone key; the wire   *)
(* form is [text (the wall-clock fields), z (Z suffix), tzid (TZID parameter or  *)
(* "")].  The provider is an uninterpreted function Off(zone, wall): the UTC     *)
(* offset it assigns to that wall time (its default answer inside gaps/folds).   *)
EXTENDS Naturals, Integers, Sequences, FiniteSets, TLC

Write(v) == [text |-> v.wall, z |-> v.zone = "UTC", tzid |-> IF v.zone \in {"floating", "UTC"} THEN "" ELSE v.zone]
Read(w) == [wall |-> w.text, zone |-> IF w.z THEN "UTC" ELSE IF w.tzid # "" THEN w.tzid ELSE "floating"]
WireOK(v, w) == /\ w.text = v.wall
                /\ (v.zone = "UTC" => w.z /\ w.tzid = "")
                /\ (v.zone = "floating" => ~w.z /\ w.tzid = "")
                /\ (v.zone \notin {"UTC", "floating"} => ~w.z /\ w.tzid = v.zone)
\* properties the RFC requires in UTC: the same instant, written with Z
WriteUtc(v, off) == [text |-> v.wall - off, z |-> TRUE, tzid |-> ""]

\* clauses on one recorded row r of a zoned value written and read back
RowClauses(r) ==
    [wall_text |-> r.wall_text = r.wall_in,
     \* tzinfo objects that carry no zone key (dateutil): the property promises the wall time only -- the library
     \* identifies such a zone by sampling offsets and may write any equivalent id, or Z for a zone that is on
     \* UTC+0 today (Africa/Abidjan in 1905, when local mean time was -0:16:08, is written with Z)
     zone_tag |-> IF r.key = "UTC" THEN r.has_z /\ r.tzid = ""
                  ELSE IF r.check_key THEN ~r.has_z /\ r.tzid = r.key
                  ELSE TRUE,
     wall_back |-> r.wall_out = r.wall_in,
     zone_back |-> r.key_out = r.key \/ ~r.check_key,
     offset_back |-> r.off_out = r.off_prov \/ ~r.check_off]
\* clauses on one recorded row of a UTC-forced property
UtcClauses(r) == [utc_form |-> r.has_z /\ r.tzid = "", instant |-> r.instant_text = r.instant_in /\ r.instant_out = r.instant_in]
=============================================================================
