"""debug aid only: lists the probes of one zone that disagree (Python re-implementation of OffsetsAt, not used by any check)"""
import sys, json
sys.path.insert(0, "/verif")
from datetime import date, datetime, timedelta
from vf.props import c13
from icalendar import Timezone
from icalendar.timezone import tzp
tzid, prov = sys.argv[1], sys.argv[2]
tzp.use(prov)
f, l = date(1970,1,1), date(2038,1,1)
src = tzp.timezone(tzid)
comp = Timezone.from_tzid(tzid, tzp, f, l)
z = c13.alpha_component(comp)
w0, w1 = c13.secs(datetime(1970,1,1,tzinfo=c13.UTC)), c13.secs(datetime(2038,1,1,tzinfo=c13.UTC))
trs = c13.transitions(src, w0+86400, w1-86400)
ons = sorted((x - o["from"], i) for i, o in enumerate(z) for x in o["local"])
back = comp.to_tz(tzp, lookup_tzid=False)
def at(t):
    le = [o for o in ons if o[0] <= t]
    if not le: return None
    mx = le[-1][0]
    return [z[i] for (tt, i) in le if tt == mx]
pts = set()
for t in trs: pts.update((t-1, t, t+1))
n = 0
for t in sorted(pts):
    off, name = c13.src_at(src, t)
    a = at(t)
    boff, bname = c13.src_at(back, t)
    ok1 = a is None or (off in [o["to"] for o in a] and name in [o["name"] for o in a])
    ok2 = (boff, bname) == (off, name)
    if not (ok1 and ok2) and not any((min(x-o["to"], x-o["from"]) <= t < max(x-o["to"], x-o["from"])) for o in z for x in o["local"]) and not any(a_ < b_ and b_ - a_ < 64*86400 and a_ <= t < b_ for a_ in trs for b_ in trs):
        disp = any((min(x-o["to"], x-o["from"]) <= t < max(x-o["to"], x-o["from"])) for o in z for x in o["local"])
        short = any(a_ < b_ and b_ - a_ < 64*86400 and a_ <= t < b_ for a_ in trs for b_ in trs)
        print(datetime(1970,1,1)+timedelta(seconds=t), "src", off, name, "rfc", a and [(o["to"], o["name"]) for o in a], "to_tz", boff, bname, "displaced" if disp else "", "short" if short else "")
        n += 1
        if n > 25: break
print(len(trs), "transitions;", len(z), "observances")
