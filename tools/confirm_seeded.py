#!/usr/bin/env python3
"""tools/confirm_seeded.py <src_dir> <ID> <k> [--checks C01,C05] [--tier quick]

Confirms a seeded change produced by a sub-agent and records it under /verif/seeded/<ID>-<k>/:
  1. in a scratch worktree of /repo (outside /repo and /verif): the patch applies, the pinned suite
     still reports 8055 passed / the 3 pre-existing failures, the demonstration fails with the
     change and passes without it;
  2. applies the patch to /repo's working tree, runs the named checks (default: the property's own),
     restores the tree, records which clauses fired.
"""
import json
import os
import re
import shutil
import subprocess
import sys
from pathlib import Path

V = Path(__file__).resolve().parent.parent
SCR = Path("/tmp/confirm_wt")


def sh(cmd, **kw):
    return subprocess.run(cmd, shell=True, capture_output=True, text=True, **kw)


def main():
    src, pid, k = Path(sys.argv[1]), sys.argv[2], sys.argv[3]
    checks = [pid]
    tier = "quick"
    for i, a in enumerate(sys.argv):
        if a == "--checks":
            checks = sys.argv[i + 1].split(",")
        if a == "--tier":
            tier = sys.argv[i + 1]
    name = f"{pid}-{k}"
    for i, a in enumerate(sys.argv):
        if a == "--as":
            name = sys.argv[i + 1]
    patch = src / f"patch_{k}.diff"
    demo = src / f"demo_{k}.py"
    meta = json.loads((src / f"meta_{k}.json").read_text()) if (src / f"meta_{k}.json").exists() else {}
    out = V / "seeded" / name
    out.mkdir(parents=True, exist_ok=True)
    shutil.copy(patch, out / "patch.diff")
    shutil.copy(demo, out / "demo.py")
    rec = {"property": pid, "agent_meta": meta, "confirmed": {}}
    # 1. scratch worktree
    sh(f"git -C /repo worktree remove --force {SCR}")
    r = sh(f"git -C /repo worktree add --detach {SCR} HEAD")
    env = dict(os.environ, PYTHONPATH=f"{SCR}/src")
    try:
        d0 = subprocess.run(["/venv/bin/python", str(out / "demo.py")], capture_output=True, text=True, env=env, cwd=SCR, timeout=600)
        rec["confirmed"]["demo_unchanged_exit"] = d0.returncode
        a = sh(f"git -C {SCR} apply {out / 'patch.diff'}")
        rec["confirmed"]["applies"] = a.returncode == 0
        if a.returncode == 0:
            d1 = subprocess.run(["/venv/bin/python", str(out / "demo.py")], capture_output=True, text=True, env=env, cwd=SCR, timeout=600)
            rec["confirmed"]["demo_changed_exit"] = d1.returncode
            rec["confirmed"]["demo_changed_tail"] = (d1.stdout + d1.stderr)[-300:]
            t = subprocess.run(["/venv/bin/python", "-m", "pytest", "-q", "-p", "no:cacheprovider"], capture_output=True, text=True,
                               env=env, cwd=SCR, timeout=1800)
            m = re.search(r"(\d+) failed, (\d+) passed", t.stdout)
            rec["confirmed"]["suite"] = m.group(0) if m else t.stdout[-200:]
            failed = sorted(set(re.findall(r"FAILED (\S+)", t.stdout)))
            rec["confirmed"]["suite_failures"] = failed
    finally:
        sh(f"git -C /repo worktree remove --force {SCR}")
    ok = (rec["confirmed"].get("applies") and rec["confirmed"].get("demo_unchanged_exit") == 0
          and rec["confirmed"].get("demo_changed_exit", 0) != 0 and str(rec["confirmed"].get("suite", "")).startswith("3 failed, 805")
          and all(any(k in f for k in ("Coyhaique", "Manila")) for f in rec["confirmed"].get("suite_failures", ["x"])))
    rec["confirmed"]["valid_seed"] = bool(ok)
    # 2. our checks against it
    rec["checks"] = {}
    if ok:
        for c in checks:
            sh("git -C /repo checkout -- .")
            a = sh(f"git -C /repo apply {out / 'patch.diff'}")
            try:
                r = sh(f"./check {c} --tier {tier}", cwd=V, timeout=3600)
            finally:
                sh("git -C /repo checkout -- .")
            clauses = sorted(set(re.findall(r"clause=(\S+)", r.stdout)))
            rec["checks"][c] = {"tier": tier, "exit": r.returncode, "clauses": clauses[:12],
                                "tail": [l[:300] for l in r.stdout.splitlines() if not l.startswith("KNOWN-FINDING")][-2:]}
    (out / "meta.json").write_text(json.dumps(rec, indent=1))
    print(json.dumps({"id": name, "valid": ok, "suite": rec["confirmed"].get("suite"),
                      "demo": [rec["confirmed"].get("demo_unchanged_exit"), rec["confirmed"].get("demo_changed_exit")],
                      "checks": {c: (v["exit"], v["clauses"][:3]) for c, v in rec["checks"].items()}}))


if __name__ == "__main__":
    main()
