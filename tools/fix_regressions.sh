#!/bin/sh
# tools/fix_regressions.sh [pattern]: every repair of /repo is kept as fixes/<ID>-<what>.diff; applied in reverse, the
# property's quick check must report a VIOLATION (exit 1).  /repo's working tree is restored after each.
cd "$(dirname "$0")/.." || exit 2
rc_all=0
for f in fixes/${1:-*}.diff; do
  id=$(basename "$f" | cut -c1-3)
  if ! git -C /repo apply -R --check "$(realpath "$f")" 2>/dev/null; then echo "$f: does not reverse-apply (superseded by a later fix?)"; continue; fi
  out=$(tools/with_patch.sh "$f" -R -- ./check "$id" --tier quick 2>&1); rc=$?
  echo "$f -> $id rc=$rc $(echo "$out" | grep -c VIOLATION) violation lines; $(echo "$out" | grep VIOLATION | sed 's/.*clause=\([^ ]*\).*/\1/' | sort -u | head -4 | tr '\n' ' ')"
  [ $rc -eq 1 ] || rc_all=1
done
git -C /repo status --short | head -3
exit $rc_all
