#!/usr/bin/env python3
"""Regenerates /verif/MANIFEST.json from the table below (single source of truth
for which properties are claimed)."""
import json
import subprocess
from pathlib import Path

V = Path(__file__).resolve().parent.parent

CHECKS = {
    "C07": dict(
        engine="TextCodec",
        technique="TLA+ spec (TextCodec/ContentLine) model-checked by TLC over the critical alphabet; TLC-generated vectors replayed into the real codec; recorded executions validated by TLC trace spec",
        text="TLC enumerates every string over the 14-symbol critical alphabet up to length 4/5 and every short list, proves the encoder clauses of the Impl mirror, and prints vectors that are replayed through vText / Event.add+to_ical+from_ical / vCategory; any output that differs from the mirror, and every long random Unicode string, is judged by the Ref operators inside TLC (Trace_TextCodec).",
        note="trusted: Ref reading of RFC 5545 3.3.11 (Den/Norms/Safe), the ~40-line gamma/alpha glue in vf/realcode.py, TLC. Bounded: length <=5 exhaustively, <=160 randomly.",
        design="5 C07"),
    "C17": dict(
        engine="CaselessMap",
        technique="TLA+ reference state machine (CaselessMap) fully explored by TLC; every transition and random graph walks replayed on 5 real mapping classes; recorded call sequences validated by TLC trace spec",
        text="The reference mapping's reachable graph over case-variant keys is finite and fully explored (invariants UpperOnly/NoDup, OrderKept on every transition); each transition is replayed on CaselessDict, Parameters, Component, Event and vRecur, walks of depth 40-60 follow the graph on one live object, and long recorded sequences over a larger key pool are stepped through the spec by TLC.",
        note="trusted: the reading of 'equal to any mapping' fixed in DESIGN.md section 3, gamma/alpha in vf/props/c17.py, TLC. ASCII key names only.",
        design="5 C17"),
}

NOT_YET = "not yet built in this round (specification and binding under construction; see DESIGN.md section 10)"


def main():
    props = [json.loads(l) for l in (V / "properties.jsonl").read_text().splitlines() if l.strip()]
    try:
        commits = subprocess.run(["git", "-C", "/repo", "log", "--format=%h %s"], capture_output=True, text=True).stdout.splitlines()
    except Exception:
        commits = []
    hook_commits = [c.split()[0] for c in commits if " hook:" in c or c.split(" ", 1)[1].startswith("hook")]
    checks = []
    na = []
    for p in props:
        pid = p["id"]
        c = CHECKS.get(pid)
        if not c:
            na.append({"property_id": pid, "reason": NOT_YET})
            continue
        checks.append({
            "property_id": pid,
            "quick_cmd": f"./check {pid} --tier quick",
            "thorough_cmd": f"./check {pid} --tier thorough",
            "evidence_file": f"/verif/evidence/{pid}.json",
            "replay_cmd_template": "cat {path}",
            "engine": c["engine"],
            "level_claimed": {"category": "model_checking", "text": c["text"], "design_ref": c["design"]},
            "level_note": c["note"],
            "technique": c["technique"],
        })
    man = {
        "version": 1,
        "setup_cmd": "true",
        "hooks": {
            "guard": "ICALENDAR_VERIF",
            "enable": "ICALENDAR_VERIF=1 in the environment of the Python process (set by ./check); pure Python, no build step: PYTHONPATH=/repo/src",
            "baseline_off_cmd": "cd /repo && env -u ICALENDAR_VERIF /venv/bin/python -m pytest -ra -q -p no:cacheprovider --timeout=900 --continue-on-collection-errors",
            "source_commits": hook_commits,
            "add_only": True,
        },
        "engines": [{"name": c["engine"], "path": f"/verif/spec/{c['engine']}.tla",
                     "serves_properties": [pid], "kind_free_text": "TLA+ module checked with TLC; bound to the code by vf/props/" + pid.lower() + ".py"}
                    for pid, c in CHECKS.items()],
        "checks": checks,
        "not_applicable": na,
        "notes": "All checks: ./check <ID> --tier quick|thorough (cwd /verif). Exit 0 held / 1 VIOLATION / 2 machinery failure. Known findings: /verif/KNOWN_FINDINGS.json.",
    }
    (V / "MANIFEST.json").write_text(json.dumps(man, indent=1) + "\n")
    print(f"claimed {len(checks)}, not claimed {len(na)}")


if __name__ == "__main__":
    main()
