#!/usr/bin/env python3
"""Regenerates /verif/MANIFEST.json from the table below (single source of truth
for which properties are claimed)."""
import json
import subprocess
from pathlib import Path

V = Path(__file__).resolve().parent.parent

CHECKS = {
    "C07": dict(
        engine="TextCodec",
        technique="TLA+ spec (TextCodec/ContentLine) model-checked by TLC over the critical alphabet; TLC-generated vectors replayed into the real codec; recorded executions validated by TLC trace spec",
        text="TLC enumerates every string over the 14-symbol critical alphabet up to length 4/5 and every short list, proves the encoder clauses of the Impl mirror, and prints vectors that are replayed through vText / Event.add+to_ical+from_ical / vCategory; any output that differs from the mirror, and every long random Unicode string, is judged by the Ref operators inside TLC (Trace_TextCodec).",
        note="trusted: Ref reading of RFC 5545 3.3.11 (Den/Norms/Safe), the ~40-line gamma/alpha glue in vf/realcode.py, TLC. Bounded: length <=5 exhaustively, <=160 randomly.",
        design="5 C07"),
    "C17": dict(
        engine="CaselessMap",
        technique="TLA+ reference state machine (CaselessMap) fully explored by TLC; every transition and random graph walks replayed on 5 real mapping classes; recorded call sequences validated by TLC trace spec",
        text="The reference mapping's reachable graph over case-variant keys is finite and fully explored (invariants UpperOnly/NoDup, OrderKept on every transition); each transition is replayed on CaselessDict, Parameters, Component, Event and vRecur, walks of depth 40-60 follow the graph on one live object, and long recorded sequences over a larger key pool are stepped through the spec by TLC.",
        note="trusted: the reading of 'equal to any mapping' fixed in DESIGN.md section 3, gamma/alpha in vf/props/c17.py, TLC. ASCII key names only.",
        design="5 C17"),
}

CHECKS.update({
    "C05": dict(engine="ContentLine",
        technique="TLA+ spec of content-line join/split (Ref RFC 3.1 reading + Impl mirror of parser.py) model-checked over the delimiter alphabet; vectors replayed at Contentline/Event/Todo level; recorded cases validated by TLC trace spec",
        text="TLC enumerates parameter value x value text over {a ; : , \" \\ % 2 C = CR LF SP} for TEXT and raw value kinds, computes the mirror's outcome (refused / rejected / exact / corrupted) and the Ref verdicts; every case is replayed through Contentline.from_parts/parts and Event/Todo add->to_ical->from_ical with a structural comparison of the tree read back; random Unicode cases and a hostile payload list are judged by TLC (Trace_ContentLine).",
        note="trusted: Ref reading of RFC 5545 3.1/3.2 (RefSplit), structural alpha in vf/clcommon.py, TLC; bare CR is not a line break; folding exact (C06).", design="5 C05"),
    "C06": dict(engine="Folding",
        technique="TLA+ spec of folding (IsFolding relation + foldline mirror) model-checked for all lines over 1-4 octet symbols at small limits and the 75-octet boundary family; vectors replayed into foldline/Contentline; recorded octets validated by TLC trace spec with a UTF-8 decoder",
        text="TLC proves the foldline mirror satisfies budget / one added space / exact unfolding for every line over {1,2,3,4-octet, SP, CR} up to length 7-8 at limits 6..10 and for the family a^i w a^j at limit 75 (limit 4 is refuted, so the check is not vacuous); vectors are replayed, and long random lines plus every long line of the serialised fixtures are validated on the recorded octets by TLC.",
        note="trusted: IsFolding/FoldBytesClauses in spec/Folding.tla, TLC; Contentline refuses LF; glue equality 'component = CRLF-join of folded lines'.", design="5 C06"),
    "C08": dict(engine="ContentLine",
        technique="TLA+ spec of parameter quoting/splitting (Ref RFC 3.2 + Impl mirror of Parameters/q_split/dquote) model-checked over the value alphabet; vectors replayed at Parameters/Contentline/component level; TLC trace validation of random maps",
        text="TLC enumerates scalar values up to length 3-4, 2-3 element lists and pairs of mixed-case parameters over {a A , ; : = ' ^ SP \\ % 2 C}, computes round-trip and quoting verdicts (the wire read by the RFC grammar must denote the same map) and the known-finding class; every vector is replayed at three levels and random longer Unicode maps are judged by TLC.",
        note="trusted: RefSplit/RefParam, SameParams (one-element list = scalar), TLC. Domain: no DQUOTE/control characters.", design="5 C08"),
    "C14": dict(engine="Alarms",
        technique="TLA+ spec of alarm time computation (Ref set of admissible sequences incl. wall-clock/absolute zoned arithmetic + Impl mirror) model-checked over component x alarm shapes; vectors replayed on Event/Todo (API and parsed) under both providers; random shapes validated by TLC",
        text="TLC enumerates 15 component shapes x 153 alarm shapes (+ pairs), proves the mirror's sequence is admissible and the cardinality theorem, and prints per alarm the admissible set; each case is built via the API and via text for VEVENT and VTODO under zoneinfo and pytz and component.alarms.times is compared per alarm; random shapes are validated by Trace_Alarms14.",
        note="trusted: AlarmTimes/PlusSet in spec/Alarms.tla, gamma/alpha in vf/props/c14.py, TLC. Domain avoids the nonexistent hour.", design="5 C14"),
    "C15": dict(engine="Alarms",
        technique="TLA+ decision table (RefActive/RefTrigger) fully enumerated by TLC with the action property NeverActivates; every row replayed on real Event/Todo objects via API, text and the manual Alarms API under both providers; random rows validated by TLC",
        text="All 3250 rows (trigger kind x tick x alarm ACKNOWLEDGED x component ack x snooze x local tz) are enumerated, monotonicity is an action property over all 'acknowledged later' pairs, and every row is replayed three ways for VEVENT/VTODO under both providers comparing is_active, reported trigger, acknowledged-until and Alarms.active; minute-resolution random rows are validated by Trace_Alarms15.",
        note="trusted: RefActive/RefTrigger, gamma/alpha in vf/props/c15.py, TLC. January 2024, Europe/Berlin.", design="5 C15"),
    "C16": dict(engine="StartEnd",
        technique="TLA+ state machine of DTSTART/DTEND|DUE/DURATION (RefStep, RefAllowed, Impl mirror) fully explored by TLC; every transition, every parsed state and graph walks replayed on Event/Todo; random histories validated by TLC trace spec",
        text="The slot state machine's full reachable graph (from every slot combination, since parsing can produce any) is explored with InvExclusive (setter-only histories) and InvObs (observables admissible + identities); each transition and each state (rendered to text and parsed) is replayed on Event and Todo, walks follow the graph on one live object, and random mutator sequences with arbitrary times are stepped through the spec by TLC.",
        note="trusted: RefAllowed reading (forbidden states may answer either documented error), gamma/alpha in vf/props/c16.py, TLC. Whole hours, fixed +1h zone.", design="5 C16"),
})

CHECKS.update({
    "C18": dict(engine="UsedTzids",
        technique="TLA+ state machine (uses x present VTIMEZONEs) fully explored by TLC with the action property Closure; every state replayed as an API-built and a parsed Calendar under both providers; random richer calendars validated by TLC",
        text="The model's full graph (<=2/3 uses over known/unknown ids x 4 sites, 0..2 VTIMEZONEs per id) is explored; InvImpl ties the missing-set mirror to Ref (the pre-fix remove() mirror is refuted) and Closure states what add_missing_timezones must do; each state is replayed (queries, add_missing twice) and random calendars with more ids, deeper nesting and multi-valued properties are validated by Trace_UsedTzids.",
        note="trusted: gamma (calendar construction per site) and alpha in vf/props/c18.py, TLC. The process-wide VTIMEZONE cache is emptied per case.", design="5 C18"),
    "C20": dict(engine="ComponentTree",
        technique="TLA+ spec of pre-order walk and multiset tree equivalence with Impl mirrors of __eq__; all trees/pairs up to a node bound model-checked; every tree and pair replayed on real components; copies/shuffles/perturbations of random deep trees validated by TLC",
        text="TLC enumerates all trees (<=4/5 nodes) and all pairs (<=3/4 nodes), proves Equiv reflexive/symmetric/mirror-invariant/perturbation-sensitive and the post-fix __eq__ mirror equal to it (the pinned one is refuted); every tree is replayed for walk()/walk(name)/select/accessors/non-component equality, every pair for ==/!=; deepcopy, pickle and reparse copies of random typed trees are validated by Trace_ComponentTree under both providers.",
        note="trusted: alpha (canonical serialisation of property maps) in vf/props/c20.py, TLC.", design="5 C20"),
})

CHECKS.update({
    "C10": dict(engine="Serialise",
        technique="TLA+ spec of Emit(tree, sorted) over insertion histories with commutation, balance and same-lines invariants checked by TLC; every history replayed through the real API (order, purity, idempotence); hash-seed configurations in fresh interpreters; random trees validated by TLC trace spec",
        text="TLC enumerates all insertion histories (length <=4/5) and proves that commuting neighbouring insertions leaves the sorted output unchanged, that output is accepted by a pushdown acceptor and that sorted/unsorted contain the same lines; every history is executed for real and its line sequence, byte-identity of two calls and a full tree snapshot (incl. value.params) are compared; 120+ programs run under PYTHONHASHSEED 0/1/2/4242; random typed trees are checked against Emit by Trace_Serialise.",
        note="trusted: token alpha of the wire (independent unfolding), snapshot function, TLC. Four hash seeds.", design="5 C10"),
})

CHECKS.update({
    "C03": dict(engine="ValueCodecs",
        technique="TLA+ grammar + denotation of the RFC 3.3 value types with Impl mirrors (vDuration, vUTCOffset, fixed-width date/time, vDDDTypes dispatch) model-checked over value families; admissible-text vectors replayed into the real decoders/classifier; random values of all 16 types validated by TLC trace spec",
        text="TLC proves for each value family that the mirror encoder's text is in the grammar and denotes the value, that every admissible RFC text (weeks form, explicit zero parts, leading +, optional seconds, Z) denotes it, and that the five date/time grammars are disjoint and agree with the vDDDTypes dispatch; the real encoders/decoders are compared with the vectors and every divergence, plus random values over the full Python domains (dates 0001-9999, all seconds, offsets, big integers, floats, base64 payloads, weekdays, months), is judged by Trace_ValueCodecs.",
        note="trusted: InG_T/Den_T in spec/ValueCodecs.tla, gamma/alpha per type in vf/props/c03.py, float equality via float.hex() in Python, TLC.", design="5 C03"),
    "C19": dict(engine="Recur",
        technique="TLA+ spec of RECUR text (grammar, FreqFirst, RefParse) with the vRecur encoder mirror model-checked over FREQ x part subsets in every insertion order; rules replayed through vRecur; permuted texts decoded; occurrence sequences compared through dateutil on both sides; TLC trace validation",
        text="TLC enumerates FREQ x all subsets of <=2/3 parts from 33 representative part instances in all insertion orders and proves grammar membership, FREQ-first, RefParse(text) = supplied parts, re-encoding stability and insertion-order independence for the pinned encoder mirror; each rule is built with key-case and scalar/list variants and compared; permuted and trailing-';' texts and random many-valued rules are judged by Trace_Recur, including equality of the first 12 occurrences from the text and from the supplied parts.",
        note="trusted: RefParse/InG_Recur, alpha of parsed rules and the independent kwargs mapping in vf/props/c19.py, dateutil as the 'standard expander', TLC.", design="5 C19"),
})

CHECKS.update({
    "C01": dict(engine="Parser",
        technique="TLA+ automaton of the from_ical line loop with its inverse Emit; stability theorem checked by TLC on every abstract line sequence; sequences concretised and run through parse/serialise/parse/serialise on the real code; TLC-generated well-formed calendars with carried denotation; fixtures and delimiter mutations",
        text="TLC proves Parse(Emit(Parse(x))) ~ Parse(x) and idempotence of Emit on all abstract sequences up to 5/6 lines; the accepted ones are concretised (several spellings per token) and the real four-step round trip is compared on a typed projection (names, value classes, parameters, encoded values, bytes); CalendarGen behaviours (shape, pool properties, rendering choices chosen by TLC) must parse to exactly the denotation their pool entries carry; all fixture calendars and delimiter-token mutations of them go through the same round trip.",
        note="trusted: the pool's denotations (RFC reading per line) in vf/calgen.py, the typed projection in vf/parsercommon.py, TLC. Value-level Ref is C03/C05/C07/C08.", design="5 C01"),
    "C02": dict(engine="PropertyTypes",
        technique="TLA+ transcription of the RFC 5545 property/value-type table and the VALUE/TZID wire rule (LineOK); TLC enumerates every admissible cell; each cell built through the real API by three routes, serialised, projected and parsed back; all observations judged by TLC trace spec",
        text="TLC enumerates every (property name, value kind) cell the RFC admits; each is built with add / item assignment / property setters, alone and nested, with five parameter shapes, under both providers; the emitted line's VALUE and TZID parameters and Z suffix, the read-back name/order/parameters, value equality and decoded RFC type are recorded and judged by LineOK and the table in Trace_PropertyTypes.",
        note="trusted: the RFC table in spec/PropertyTypes.tla, one representative value per kind, wire projection regex and equality per kind in vf/props/c02.py, TLC.", design="5 C02"),
    "C04": dict(engine="Parser",
        technique="TLA+ automaton of the from_ical line loop; totality and the isolation theorem model-checked on every abstract line sequence; sequences concretised and parsed (single/multiple, both providers) with outcome and tree compared to the model; hostile structured pools and seeded fuzz with a TLC-evaluated acceptance predicate",
        text="TLC proves that the loop ends in a result or an error and that a bad line inserted at any position of an accepted sequence is dropped+recorded inside VEVENT and fatal elsewhere; every sequence up to 4/5 lines is concretised with mismatched END names, mixed case and several bad-line spellings and the real outcome class, tree, error lists and nesting must equal the model; ~170 hostile cases (TZIDs, malformed VTIMEZONEs, deep nesting, END:VTIMEZONE misuse) and mutated fixtures / token soup / random bytes are parsed, serialised and walked, the outcome class and CPU budget judged by Trace_Parser.",
        note="trusted: concretisation pools in vf/parsercommon.py (bad lines are refused by the RFC grammars and by the decoders), TLC. The fuzz part is sampling.", design="5 C04"),
    "C09": dict(engine="Wire",
        technique="TLA+ spec of RFC framing (Frame) and of rendering choices (Render); theorem Frame(Render(ls, ch)) = Frame(Render(ls, plain)) for Ref and for the mirror of the library's framing checked by TLC; TLC-chosen renderings of generated calendars and rewrites of fixtures parsed by the real code and compared",
        text="TLC checks for all short line lists and all 288 rendering choices (CRLF/LF, BOM, str/bytes, 4 fold placements with SP/TAB, 3 letter cases, trailing blanks) that the Ref frame and the mirrored library frame do not depend on the choices; CalendarGen behaviours rendered under TLC-chosen choices must give the same tree (against the carried denotation) and the same re-serialisation for every rendering under both providers; well-formed fixtures are rewritten the same way.",
        note="trusted: renderer/rewriter in vf/calgen.py and vf/props/c09.py (validated against TLC's Render on the small pool only by construction), TLC.", design="5 C09"),
})

CHECKS.update({
    "C11": dict(engine="ZonedTime",
        technique="TLA+ wire rule for zoned / UTC / floating date-times (Write, Read, WireOK, UTC-forced properties) model-checked over a toy domain with arbitrary step offset functions; executions recorded over zone ids x wall times around provider transitions x property kinds x providers x tzinfo sources validated by TLC trace spec",
        text="TLC proves Read(Write(v)) = v, the TZID/Z rule and instant preservation for UTC-forced properties for every offset function with a gap or a fold on the toy domain; the real code is driven over zone ids (all IANA ids in thorough) and wall times produced from the provider's own transitions (incl. gap and fold walls, midpoints, random walls 1900-2100) for DTSTART, RDATE lists and FREEBUSY periods under both providers and with zoneinfo/pytz/dateutil tzinfo objects; every row (wire fields, values read back, provider offset) is judged by RowClauses/UtcClauses in Trace_ZonedTime.",
        note="trusted: the provider (zoneinfo/pytz) as reference for offsets, wire projection regex and row construction in vf/props/c11.py, TLC. dateutil: wall time only.", design="5 C11"),
    "C12": dict(engine="VTimezone",
        technique="TLA+ spec of RFC 5545 VTIMEZONE interpretation (Gregorian arithmetic, yearly nth-weekday expansion, onset = local - TZOFFSETFROM, OffsetsAt/NamesAt) and of the process-wide VTIMEZONE cache (TzCache) model-checked; TLC-computed probe tables replayed on time zone objects built by both providers; cache histories replayed",
        text="TLC expands families of definitions (fixed, yearly pairs with open/COUNT/UNTIL ends, RDATE sets, a permanent change before a yearly pair) and computes the admissible offset/name/kind at every onset -1/0/+1 minute and 45 days later; each zone is rendered, converted with Timezone.to_tz under zoneinfo and pytz and probed at those instants (second 0 and 59); the TzCache model's full graph gives every history over one custom TZID with the design-level failure set (InvDelta: mirror departs from Ref exactly in the known class), replayed against the real parser.",
        note="trusted: gamma (rendering of parameters to VTIMEZONE text) in vf/props/c12.py, TLC. Minute resolution; rules to 2038.", design="5 C12"),
    "C13": dict(engine="VTimezone",
        technique="TLA+ model of the coarse-to-fine search of from_tzinfo model-checked (sound; complete only for transitions further apart than the coarsest step); generated VTIMEZONE components recorded for zone ids x providers x windows and validated by TLC against the source zone using the RFC onset rule (OffsetsAt/NamesAt), WellFormedGen, to_tz agreement and regeneration",
        text="TLC proves the ladder search sound and refutes completeness for short excursions (src = {1,2}); for each zone/window the generated component's observances (alpha of the component itself), the source zone's transitions and a probe table (every transition -1s/0/+1s, midpoints, random instants) are recorded and TLC interprets the component by the RFC rule independently of the library's own conversion; mismatches are classified by TLC into the known classes (displaced onsets, periods shorter than 64 days, abbreviation-only changes) or reported as violations.",
        note="trusted: the provider as reference; transitions found by a 6-hour scan + bisection; alpha of components in vf/props/c13.py; TLC.", design="5 C13"),
})

NOT_YET = "not yet built in this round (specification and binding under construction; see DESIGN.md section 10)"


SUITE = {"C01": "parts", "C03": "values", "C04": "lines", "C05": "join", "C06": "fold", "C07": "text", "C08": "join", "C17": "cdict"}
FRESH = {"C01", "C03", "C04", "C05", "C06", "C07", "C08", "C09", "C10", "C13", "C14", "C15", "C17", "C18", "C19", "C20"}


VIEW = {"C08", "C10", "C17", "C18", "C19", "C20"}


def suffix(pid):
    out = ""
    if pid in SUITE:
        out += ("; SUITE: the calls of the modelled functions observed while the repository's own 8055 tests run (family '%s', "
                "recorded by a pytest plugin at the call/return boundary) are validated by TLC against the same trace specification" % SUITE[pid])
    if pid in FRESH:
        out += ("; FRESH: every behaviour of spec/Fresh.tla (calls, caller mutations, provider switches; shared- and stale-memo variants refuted by "
                "TLC) replayed on the property's functions, every live handle compared after every step with views computed in a fresh interpreter")
    if pid in VIEW:
        out += ("; VIEW: every edit history of spec/View.tla (interface edits, edits through held lists, views; both memo variants refuted by TLC) "
                "replayed on the property's objects, each view compared with the view of an object built from scratch with the model's content")
    return out


def main():
    props = [json.loads(l) for l in (V / "properties.jsonl").read_text().splitlines() if l.strip()]
    try:
        commits = subprocess.run(["git", "-C", "/repo", "log", "--format=%h %s"], capture_output=True, text=True).stdout.splitlines()
    except Exception:
        commits = []
    hook_commits = [c.split()[0] for c in commits if " hook:" in c or c.split(" ", 1)[1].startswith("hook")]
    checks = []
    na = []
    for p in props:
        pid = p["id"]
        c = CHECKS.get(pid)
        if not c:
            na.append({"property_id": pid, "reason": NOT_YET})
            continue
        checks.append({
            "property_id": pid,
            "quick_cmd": f"./check {pid} --tier quick",
            "thorough_cmd": f"./check {pid} --tier thorough",
            "evidence_file": f"/verif/evidence/{pid}.json",
            "replay_cmd_template": "cat {path}",
            "engine": c["engine"],
            "level_claimed": {"category": "model_checking", "text": c["text"], "design_ref": c["design"]},
            "level_note": c["note"],
            "technique": c["technique"] + suffix(pid),
        })
    man = {
        "version": 1,
        "setup_cmd": "true",
        "hooks": {
            "guard": "ICALENDAR_VERIF",
            "enable": "ICALENDAR_VERIF=1 in the environment of the Python process (set by ./check); pure Python, no build step: PYTHONPATH=/repo/src",
            "baseline_off_cmd": "cd /repo && env -u ICALENDAR_VERIF /venv/bin/python -m pytest -ra -q -p no:cacheprovider --timeout=900 --continue-on-collection-errors",
            "source_commits": hook_commits,
            "add_only": True,
        },
        "engines": [{"name": c["engine"], "path": f"/verif/spec/{c['engine']}.tla",
                     "serves_properties": [pid], "kind_free_text": "TLA+ module checked with TLC; bound to the code by vf/props/" + pid.lower() + ".py"}
                    for pid, c in CHECKS.items()],
        "checks": checks,
        "not_applicable": na,
        "notes": "All checks: ./check <ID> --tier quick|thorough (cwd /verif). Exit 0 held / 1 VIOLATION / 2 machinery failure. Known findings: /verif/KNOWN_FINDINGS.json.",
    }
    (V / "MANIFEST.json").write_text(json.dumps(man, indent=1) + "\n")
    print(f"claimed {len(checks)}, not claimed {len(na)}")


if __name__ == "__main__":
    main()
