#!/usr/bin/env python3
"""prints the markdown table of /verif/seeded/*/meta.json for DESIGN.md section 15"""
import json, glob, os
rows = []
def _key(f):
    sid = os.path.basename(os.path.dirname(f))
    a, _, b = sid.partition("-")
    return (a, int(b) if b.isdigit() else 0)


for f in sorted(glob.glob(os.path.join(os.path.dirname(__file__), "..", "seeded", "*", "meta.json")), key=_key):
    m = json.load(open(f))
    sid = os.path.basename(os.path.dirname(f))
    am = m.get("agent_meta", {})
    c = m.get("confirmed", {})
    det = []
    for k, v in m.get("checks", {}).items():
        det.append(f"{k} {v.get('tier','quick')}: " + ("**caught** (" + ", ".join(x.split(':',2)[-1] for x in v["clauses"][:3]) + ")" if v["exit"] == 1 else ("machinery failure" if v["exit"] == 2 else "missed")))
    note = m.get("note", "")
    rows.append(f"| {sid} | {am.get('summary','')[:170].replace('|','/')} | {am.get('needs','')[:120].replace('|','/')} | {'yes' if c.get('valid_seed') else 'NO'} | {'; '.join(det)} {note} |")
print("| seed | change | needs | confirmed | result |\n|---|---|---|---|---|")
print("\n".join(rows))
