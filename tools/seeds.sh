#!/bin/sh
# tools/seeds.sh <tier> <seed>...  : run every claimed check with each seed; report non-zero exits
cd "$(dirname "$0")/.." || exit 2
TIER="$1"; shift
IDS=$(python3 -c "import json;print(' '.join(c['property_id'] for c in json.load(open('MANIFEST.json'))['checks']))")
for s in "$@"; do for id in $IDS; do
  out=$(./check "$id" --tier "$TIER" --seed "$s" 2>&1); rc=$?
  echo "seed=$s $id rc=$rc $(echo "$out" | tail -1 | cut -c1-160)"
  if [ $rc -ne 0 ]; then echo "$out" | grep -E "VIOLATION|MACHINERY" | head -3 | cut -c1-400; fi
done; done
