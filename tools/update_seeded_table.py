#!/usr/bin/env python3
"""replaces the table of section 15 of DESIGN.md by the current output of tools/seeded_table.py"""
import os
import subprocess
import sys

V = os.path.dirname(os.path.dirname(os.path.abspath(__file__)))
table = subprocess.check_output([sys.executable, os.path.join(V, "tools", "seeded_table.py")], text=True).rstrip("\n")
p = os.path.join(V, "DESIGN.md")
lines = open(p).read().split("\n")
start = next(i for i, l in enumerate(lines) if l.startswith("| seed | change | needs | confirmed | result |"))
end = start
while end < len(lines) and lines[end].startswith("|"):
    end += 1
lines[start:end] = table.split("\n")
tmp = p + ".tmp~"
open(tmp, "w").write("\n".join(lines))
os.replace(tmp, p)
print("rows:", len(table.split("\n")) - 2)
