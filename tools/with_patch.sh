#!/bin/sh
# tools/with_patch.sh <patch.diff> [-R] -- <command...>
# Applies a patch to /repo's working tree, runs the command, and always restores the tree.
P="$(realpath "$1")"; shift
REV=""
if [ "$1" = "-R" ]; then REV="-R"; shift; fi
[ "$1" = "--" ] && shift
git -C /repo apply $REV "$P" || { echo "patch does not apply"; exit 3; }
"$@"; RC=$?
git -C /repo checkout -- . 
exit $RC
