"""Well-formed calendars with a carried denotation (spec/CalendarGen.tla).
TLC chooses shape, properties (pool indices) and rendering choices; this module holds the
pool (each entry: one RFC 5545 content line and what it denotes, by the RFC reading) and
the renderer, parses the rendering with the real code and compares with the denotation
(C01) and across renderings (C09)."""
import random
import re
from datetime import date, datetime, timedelta
from zoneinfo import ZoneInfo

from vf.core import Ctx, cfg_text, Machinery
from icalendar import Component
from icalendar.timezone import tzp

UTC = ZoneInfo("UTC")


def _dt(v, want, offset=None, key=None):
    d = getattr(v, "dt", None)
    if type(d) is not type(want):
        return False
    if isinstance(want, datetime):
        if d.replace(tzinfo=None) != want.replace(tzinfo=None):
            return False
        if offset is None:
            return d.tzinfo is None
        if d.tzinfo is None or d.utcoffset() != timedelta(minutes=offset):
            return False
        if key:
            k = getattr(d.tzinfo, "key", None) or getattr(d.tzinfo, "zone", None)
            return k == key
        return True
    return d == want


def _list_dt(v, wants, offset=None):
    dts = getattr(v, "dts", None)
    if dts is None or len(dts) != len(wants):
        return False
    for x, w in zip(dts, wants):
        if type(x.dt) is not type(w) or (x.dt.replace(tzinfo=None) if isinstance(w, datetime) else x.dt) != w:
            return False
        if isinstance(w, datetime):
            if offset is None and x.dt.tzinfo is not None:
                return False
            if offset is not None and (x.dt.tzinfo is None or x.dt.utcoffset() != timedelta(minutes=offset)):
                return False
    return True


def _period(v, start, end_or_dur):
    p = getattr(v, "dt", None)
    return isinstance(p, tuple) and p[0].replace(tzinfo=None) == start and \
        ((p[1].replace(tzinfo=None) if isinstance(p[1], datetime) else p[1]) == end_or_dur) and p[0].utcoffset() == timedelta(0)


def T(s):
    return lambda v: isinstance(v, str) and str.__str__(v) == s


# (line, NAME, params, check, known-finding tag or None)
POOL = [
    ("SUMMARY:Plain text", "SUMMARY", {}, T("Plain text"), None),
    ("SUMMARY;LANGUAGE=en:Hello\\, world\\; ok", "SUMMARY", {"LANGUAGE": "en"}, T("Hello, world; ok"), None),
    ("DESCRIPTION:line1\\nline2\\Nline3", "DESCRIPTION", {}, T("line1\nline2\nline3"), None),
    ("DESCRIPTION:back\\\\slash \\\\; semi", "DESCRIPTION", {}, T("back\\slash \\; semi"), "unescape"),
    ("DESCRIPTION:literal backslash-n: \\\\n", "DESCRIPTION", {}, T("literal backslash-n: \\n"), "unescape"),
    ("DESCRIPTION:percent %2C stays", "DESCRIPTION", {}, T("percent %2C stays"), "unescape"),
    ("DESCRIPTION:see https%3A//x/a%2Cb, thanks; %3B and %5C", "DESCRIPTION", {}, T("see https%3A//x/a%2Cb, thanks; %3B and %5C"), "unescape"),
    # an escaped backslash before a character that is NOT escapable in TEXT: the backslash must survive
    ("DESCRIPTION:json {\\\\\"k\\\\\": 1} path C\\\\:x tab\\\\t", "DESCRIPTION", {}, T('json {\\"k\\": 1} path C\\:x tab\\t'), None),
    ("DTSTART:20240101T100000", "DTSTART", {}, lambda v: _dt(v, datetime(2024, 1, 1, 10)), None),
    ("DTSTART:20240101T100000Z", "DTSTART", {}, lambda v: _dt(v, datetime(2024, 1, 1, 10), 0), None),
    ("DTSTART;TZID=Europe/Berlin:20240701T100000", "DTSTART", {"TZID": "Europe/Berlin"},
     lambda v: _dt(v, datetime(2024, 7, 1, 10), 120, "Europe/Berlin"), None),
    ("DTSTART;VALUE=DATE:20240101", "DTSTART", {"VALUE": "DATE"}, lambda v: _dt(v, date(2024, 1, 1)), None),
    ("DTEND;VALUE=DATE:20240229", "DTEND", {"VALUE": "DATE"}, lambda v: _dt(v, date(2024, 2, 29)), None),
    ("DUE;TZID=America/New_York:20241103T013000", "DUE", {"TZID": "America/New_York"},
     lambda v: _dt(v, datetime(2024, 11, 3, 1, 30), -240, "America/New_York"), None),
    ("DURATION:PT1H30M", "DURATION", {}, lambda v: getattr(v, "dt", None) == timedelta(minutes=90), None),
    ("DURATION:-P1W", "DURATION", {}, lambda v: getattr(v, "dt", None) == timedelta(weeks=-1), None),
    ("RRULE:FREQ=WEEKLY;COUNT=3;BYDAY=MO,-1FR", "RRULE", {},
     lambda v: dict(v) == {"FREQ": ["WEEKLY"], "COUNT": [3], "BYDAY": ["MO", "-1FR"]}, None),
    ("RDATE;VALUE=DATE:20240105,20240106", "RDATE", {"VALUE": "DATE"}, lambda v: _list_dt(v, [date(2024, 1, 5), date(2024, 1, 6)]), None),
    ("RDATE;TZID=America/New_York:20240105T090000,20240106T090000", "RDATE", {"TZID": "America/New_York"},
     lambda v: _list_dt(v, [datetime(2024, 1, 5, 9), datetime(2024, 1, 6, 9)], -300), None),
    ("EXDATE:20240107T100000Z", "EXDATE", {}, lambda v: _list_dt(v, [datetime(2024, 1, 7, 10)], 0), None),
    ("ATTENDEE;CN=\"Doe, Jane\";ROLE=CHAIR:mailto:jane@example.com", "ATTENDEE", {"CN": "Doe, Jane", "ROLE": "CHAIR"},
     T("mailto:jane@example.com"), None),
    ("ATTENDEE;MEMBER=\"mailto:a@example.com\",\"mailto:b@example.com\":mailto:c@example.com", "ATTENDEE",
     {"MEMBER": ["mailto:a@example.com", "mailto:b@example.com"]}, T("mailto:c@example.com"), None),
    ("ORGANIZER;SENT-BY=\"mailto:s@example.com\":mailto:org@example.com", "ORGANIZER", {"SENT-BY": "mailto:s@example.com"},
     T("mailto:org@example.com"), None),
    ("GEO:37.386013;-122.082932", "GEO", {}, lambda v: (getattr(v, "latitude", None), getattr(v, "longitude", None)) == (37.386013, -122.082932), None),
    ("GEO:0.0000123456;-0.00000045", "GEO", {}, lambda v: (getattr(v, "latitude", None), getattr(v, "longitude", None)) == (1.23456e-05, -4.5e-07), None),
    ("PRIORITY:5", "PRIORITY", {}, lambda v: isinstance(v, int) and int(v) == 5, None),
    ("SEQUENCE:0", "SEQUENCE", {}, lambda v: isinstance(v, int) and int(v) == 0, None),
    ("CATEGORIES:ONE", "CATEGORIES", {}, lambda v: [str(c) for c in getattr(v, "cats", [])] == ["ONE"], None),
    ("CATEGORIES:A,B\\,C,D", "CATEGORIES", {}, lambda v: [str(c) for c in getattr(v, "cats", [])] == ["A", "B,C", "D"], "list-comma"),
    ("URL:http://example.com/a;b=c?d=e,f", "URL", {}, T("http://example.com/a;b=c?d=e,f"), None),
    ("ATTACH;FMTTYPE=image/png:http://example.com/x.png", "ATTACH", {"FMTTYPE": "image/png"}, T("http://example.com/x.png"), None),
    ("X-CUSTOM;X-PARAM=1:any:thing;goes,here", "X-CUSTOM", {"X-PARAM": "1"}, T("any:thing;goes,here"), None),
    ("TRIGGER:-PT15M", "TRIGGER", {}, lambda v: getattr(v, "dt", None) == timedelta(minutes=-15), None),
    ("TRIGGER;VALUE=DATE-TIME:20240101T090000Z", "TRIGGER", {"VALUE": "DATE-TIME"}, lambda v: _dt(v, datetime(2024, 1, 1, 9), 0), None),
    ("REPEAT:2", "REPEAT", {}, lambda v: isinstance(v, int) and int(v) == 2, None),
    ("TZOFFSETFROM:+0100", "TZOFFSETFROM", {}, lambda v: getattr(v, "td", None) == timedelta(hours=1), None),
    ("TZOFFSETTO:-0430", "TZOFFSETTO", {}, lambda v: getattr(v, "td", None) == timedelta(hours=-4, minutes=-30), None),
    ("FREEBUSY;FBTYPE=BUSY:20240101T100000Z/PT1H", "FREEBUSY", {"FBTYPE": "BUSY"},
     lambda v: _period(v, datetime(2024, 1, 1, 10), timedelta(hours=1)), None),
    ("DTSTAMP:20240101T000000Z", "DTSTAMP", {}, lambda v: _dt(v, datetime(2024, 1, 1), 0), None),
    ("UID:abc-123@example.com", "UID", {}, T("abc-123@example.com"), None),
    ("COMMENT:first", "COMMENT", {}, T("first"), None),
    ("COMMENT:second", "COMMENT", {}, T("second"), None),
    ("PERCENT-COMPLETE:50", "PERCENT-COMPLETE", {}, lambda v: isinstance(v, int) and int(v) == 50, None),
    ("LOCATION;ALTREP=\"http://x.example/a,b\":Room\\; 1 ünï", "LOCATION", {"ALTREP": "http://x.example/a,b"}, T("Room; 1 ünï"), None),
    ("COMPLETED:20240102T030405Z", "COMPLETED", {}, lambda v: _dt(v, datetime(2024, 1, 2, 3, 4, 5), 0), None),
    # Unicode hazards (vf/hazards.py): carried through unchanged, whether the text arrives as str or as bytes
    ("SUMMARY:caf\u0065\u0301 \u2126 \u212a \u037e \uff1b\uff1a\uff0c x", "SUMMARY", {}, T("caf\u0065\u0301 \u2126 \u212a \u037e \uff1b\uff1a\uff0c x"), None),
    ("DESCRIPTION:\u00a0lead and trail\u3000", "DESCRIPTION", {}, T("\u00a0lead and trail\u3000"), None),
    ("LOCATION:zwj \U0001F468\u200d\U0001F469 soft\u00adhyphen inner\ufeffbom pua\ue000", "LOCATION", {},
     T("zwj \U0001F468\u200d\U0001F469 soft\u00adhyphen inner\ufeffbom pua\ue000"), None),
    ("ATTENDEE;CN=Smith\u037eROLE=CHAIR;X-W=\u2003pad\u00a0:mailto:u@example.com", "ATTENDEE", {"CN": "Smith\u037eROLE=CHAIR", "X-W": "\u2003pad\u00a0"},
     T("mailto:u@example.com"), None),
    ("COMMENT:line\u2028sep\u0085nel\u000bvt", "COMMENT", {}, T("line\u2028sep\u0085nel\u000bvt"), None),
    # durations with the optional plus sign and in the weeks form
    ("TRIGGER:+PT15M", "TRIGGER", {}, lambda v: getattr(v, "dt", None) == timedelta(minutes=15), None),
    ("DURATION:+P1DT2H", "DURATION", {}, lambda v: getattr(v, "dt", None) == timedelta(days=1, hours=2), None),
    ("TRIGGER:-P2W", "TRIGGER", {}, lambda v: getattr(v, "dt", None) == timedelta(weeks=-2), None),
    ("REFRESH-INTERVAL;VALUE=DURATION:+P1W", "REFRESH-INTERVAL", {"VALUE": "DURATION"}, lambda v: getattr(v, "dt", getattr(v, "td", None)) == timedelta(weeks=1) or str(v) == "+P1W", None),
    # an EMPTY value, and the number 0, as the FIRST of several properties of one name
    ("COMMENT:", "COMMENT", {}, T(""), None),
    ("COMMENT:after the empty one", "COMMENT", {}, T("after the empty one"), None),
    ("RESOURCES:", "RESOURCES", {}, T(""), None),
    ("RESOURCES:EASEL\\,PROJECTOR\\, large", "RESOURCES", {}, T("EASEL,PROJECTOR, large"), None),
    ("X-COUNT:0", "X-COUNT", {}, T("0"), None),
    ("X-COUNT:7", "X-COUNT", {}, T("7"), None),
    # rarely used properties of RFC 7986 / RFC 9073: whatever the library knows about them, the letter case of the NAME is insignificant
    ("SOURCE;VALUE=URI:https://example.com/cal.ics?a=1,2;b=3", "SOURCE", {"VALUE": "URI"}, T("https://example.com/cal.ics?a=1,2;b=3"), None),
    ("IMAGE;VALUE=URI;DISPLAY=BADGE:https://example.com/i.png", "IMAGE", {"VALUE": "URI", "DISPLAY": "BADGE"}, T("https://example.com/i.png"), None),
    ("CONFERENCE;VALUE=URI;FEATURE=AUDIO,VIDEO:https://chat.example.com/r;x=1", "CONFERENCE", {"VALUE": "URI", "FEATURE": ["AUDIO", "VIDEO"]},
     T("https://chat.example.com/r;x=1"), None),
    ("STYLED-DESCRIPTION;VALUE=TEXT:<b>a\\, b\\; c</b>\\nline", "STYLED-DESCRIPTION", {"VALUE": "TEXT"}, T("<b>a, b; c</b>\nline"), None),
    ("STRUCTURED-DATA;VALUE=TEXT;FMTTYPE=application/ld+json:{\\\"a\\\": [1\\, 2]}"[:0] or "STRUCTURED-DATA;VALUE=TEXT:k=1\\, 2\\; x", "STRUCTURED-DATA", {"VALUE": "TEXT"}, T("k=1, 2; x"), None),
    ("NAME:My calendar\\, shared", "NAME", {}, T("My calendar, shared"), None),
    ("COLOR:rebeccapurple", "COLOR", {}, T("rebeccapurple"), None),
    # equivalent spellings: quoted values that need no quotes; enumerated parameter values keep the case they were written in
    ("ATTENDEE;ROLE=\"chair\";PARTSTAT=\"Accepted\";RSVP=\"true\";CUTYPE=individual:mailto:q@example.com", "ATTENDEE",
     {"ROLE": "chair", "PARTSTAT": "Accepted", "RSVP": "true", "CUTYPE": "individual"}, T("mailto:q@example.com"), None),
    ("FREEBUSY;FBTYPE=\"busy-tentative\":20240101T100000Z/PT1H", "FREEBUSY", {"FBTYPE": "busy-tentative"},
     lambda v: _period(v, datetime(2024, 1, 1, 10), timedelta(hours=1)), None),
    ("RELATED-TO;RELTYPE=\"sibling\":other-uid", "RELATED-TO", {"RELTYPE": "sibling"}, T("other-uid"), None),
    ("RECURRENCE-ID;RANGE=\"thisandfuture\":20240101T100000Z", "RECURRENCE-ID", {"RANGE": "thisandfuture"}, lambda v: _dt(v, datetime(2024, 1, 1, 10), 0), None),
    ("X-Q;X-P=\"plain\";LANGUAGE=\"en-US\":v", "X-Q", {"X-P": "plain", "LANGUAGE": "en-US"}, T("v"), None),
    # years below 1000: four digits on the wire (strftime('%Y') does not pad on every platform)
    ("DTSTART;VALUE=DATE:09991231", "DTSTART", {"VALUE": "DATE"}, lambda v: _dt(v, date(999, 12, 31)), None),
    ("DUE:01230101T000000", "DUE", {}, lambda v: _dt(v, datetime(123, 1, 1)), None),
    ("RDATE;VALUE=DATE:00010101,09990101", "RDATE", {"VALUE": "DATE"}, lambda v: _list_dt(v, [date(1, 1, 1), date(999, 1, 1)]), None),
    ("EXDATE:00011231T235959Z", "EXDATE", {}, lambda v: _list_dt(v, [datetime(1, 12, 31, 23, 59, 59)], 0), None),
    ("LAST-MODIFIED:09990102T030405Z", "LAST-MODIFIED", {}, lambda v: _dt(v, datetime(999, 1, 2, 3, 4, 5), 0), None),
    ("FREEBUSY:09990101T000000Z/09990102T000000Z", "FREEBUSY", {},
     lambda v: _period(v, datetime(999, 1, 1), datetime(999, 1, 2)), None),
]

# shape -> list of (component name, parent slot or 0)
SHAPES = {
    "EV": [("VEVENT", 0)],
    "CAL-EV": [("VCALENDAR", 0), ("VEVENT", 1)],
    "CAL-EV-TODO": [("VCALENDAR", 0), ("VEVENT", 1), ("VTODO", 1)],
    "CAL-EV-ALARM": [("VCALENDAR", 0), ("VEVENT", 1), ("VALARM", 2)],
    "CAL-X-EV": [("VCALENDAR", 0), ("X-UNKNOWN", 1), ("VEVENT", 2)],
    "CAL-FB-JOURNAL": [("VCALENDAR", 0), ("VFREEBUSY", 1), ("VJOURNAL", 1)],
    "TODO-STD": [("VTODO", 0), ("STANDARD", 1)],
}


def lines_of(shape, props):
    """content lines of the abstract calendar, in document order, and the expected tree"""
    comps = SHAPES[shape]
    kids = {i: [] for i in range(len(comps) + 1)}
    for i, (_, par) in enumerate(comps, 1):
        kids[par].append(i)

    def emit(i):
        name = comps[i - 1][0]
        out = [("B", name)]
        for idx in props[i - 1]:
            out.append(("P", idx))
        for k in kids[i]:
            out += emit(k)
        out.append(("E", name))
        return out
    return emit(1)


def case_name(s, mode, rnd):
    if mode == 0:
        return s
    if mode == 1:
        return s.lower()
    return "".join(c.lower() if rnd.random() < 0.5 else c.upper() for c in s)


def recase_line(line, mode, rnd):
    """change the letter case of the property name and the parameter names only"""
    if mode == 0:
        return line
    m = re.match(r'^([A-Za-z0-9-]+)((?:;[A-Za-z0-9-]+=(?:"[^"]*"|[^";:,]*)(?:,(?:"[^"]*"|[^";:,]*))*)*):(.*)$', line, re.S)
    if not m:
        raise Machinery(f"pool line not in the simple grammar: {line}")
    name, params, value = m.groups()
    params = re.sub(r';([A-Za-z0-9-]+)=', lambda mm: ";" + case_name(mm.group(1), mode, rnd) + "=", params)
    return case_name(name, mode, rnd) + params + ":" + value


def fold(line, mode):
    if mode == 0 or len(line) < 3:
        return line
    if mode in (1, 2):
        ws = " " if mode == 1 else "\t"
        n = 20
        return ("\r\n" + ws).join(line[i:i + n] for i in range(0, len(line), n))
    return line[0] + "\r\n " + line[1:-1] + "\r\n\t" + line[-1]


def render(shape, props, ch, rnd):
    toks = lines_of(shape, props)
    out = []
    for t in toks:
        if t[0] in "BE":
            word = case_name("BEGIN" if t[0] == "B" else "END", ch["case"], rnd)
            ln = word + ":" + case_name(t[1], ch["case"], rnd)
        else:
            ln = recase_line(POOL[t[1]][0], ch["case"], rnd)
        out.append(fold(ln, ch["fold"]))
    text = "\r\n".join(out) + "\r\n" + "\r\n" * ch["trail"]
    if ch["eol"] == "lf":
        text = text.replace("\r\n", "\n")
    if ch["str"]:
        return text
    data = text.encode("utf-8")
    if ch["bom"]:
        data = b"\xef\xbb\xbf" + data
    return data


def norm_params(p):
    return {k.upper(): (list(v) if isinstance(v, (list, tuple)) else str.__str__(v) if isinstance(v, str) else v) for k, v in p.items()}


def compare(comp, shape, props):
    """-> list of (clause, detail, kf-tag) for every difference between the parsed tree and the denotation"""
    comps = SHAPES[shape]
    got = comp.walk()
    problems = []
    if [c.name for c in got] != [n for n, _ in comps]:
        return [("components", [c.name for c in got], None)]
    # nesting
    for i, (_, par) in enumerate(comps, 1):
        if par and got[i - 1] not in got[par - 1].subcomponents:
            problems.append(("nesting", i, None))
    for i, c in enumerate(got, 1):
        want = {}
        for idx in props[i - 1]:
            want.setdefault(POOL[idx][1], []).append(idx)
        if sorted(c.keys()) != sorted(want):
            problems.append(("property-names", {"slot": i, "got": sorted(c.keys()), "want": sorted(want)}, None))
            continue
        if c.errors:
            problems.append(("errors", c.errors, None))
        for name, idxs in want.items():
            vals = c[name] if isinstance(c[name], list) else [c[name]]
            if len(vals) != len(idxs):
                problems.append(("multi-value-count", name, None))
                continue
            for v, idx in zip(vals, idxs):
                line, _, params, check, kf = POOL[idx]
                if norm_params(getattr(v, "params", {})) != params:
                    problems.append(("parameters", {"line": line, "got": norm_params(getattr(v, "params", {}))}, kf))
                try:
                    ok = check(v)
                except Exception:   # noqa: BLE001
                    ok = False
                if not ok:
                    problems.append(("value", {"line": line, "got": repr(getattr(v, "dt", getattr(v, "cats", v)))[:120]}, kf))
    return problems


def generate(ctx: Ctx, n_sim, depth):
    cfg = cfg_text(spec="Spec", constants={"Shapes": set(SHAPES), "Slots": 3, "Pool": set(range(len(POOL))), "MaxProps": 3},
                   invariants=["Vec"], properties=["RenderingInsignificant"])
    r = ctx.tlc("MC_CalendarGen", cfg, workers=1, simulate=f"num={n_sim}", depth=depth, timeout=1200)
    ctx.states += r.distinct or len(r.prints)
    ctx.transitions += r.generated or len(r.prints)
    seen, out = set(), []
    for v in r.prints:
        key = repr(v)
        if key not in seen:
            seen.add(key)
            out.append(v)
    if len(out) < 200:
        raise Machinery(f"CalendarGen produced only {len(out)} cases")
    return out


def run_generated(ctx: Ctx, rnd, pid):
    cases = generate(ctx, 150 if ctx.quick else 3000, 9)
    ctx.sample({"generated": cases[len(cases) // 2]})
    # coverage floor: every pool line occurs at least once (alone in a VEVENT, and next to its neighbour in a nested shape),
    # under a plain and under a folded / LF / str rendering -- TLC's simulation decides the rest
    plain_ch = {"eol": "crlf", "bom": False, "str": False, "fold": 0, "case": 0, "trail": 0}
    alt_ch = {"eol": "lf", "bom": False, "str": True, "fold": 1, "case": 1, "trail": 1}
    for i in range(len(POOL)):
        cases.append({"shape": "EV", "props": [[i], [], []], "ch": plain_ch if i % 2 else alt_ch})
        cases.append({"shape": "CAL-EV-TODO", "props": [[], [i, (i + 1) % len(POOL)], [i]], "ch": alt_ch if i % 2 else plain_ch})
    groups = {}
    try:
        for prov in ("zoneinfo", "pytz"):
            tzp.use(prov)
            for v in cases:
                nslots = len(SHAPES[v["shape"]])
                props = [list(p) for p in v["props"]][:nslots]
                ch = v["ch"]
                if ch["str"] and ch["bom"]:
                    ch = dict(ch, bom=False)
                data = render(v["shape"], props, ch, rnd)
                key = (prov, v["shape"], repr(props))
                ctx.case((prov, v["shape"], repr(props), repr(ch)), any(props))
                case = {"shape": v["shape"], "props": props, "ch": ch, "provider": prov,
                        "text": data if isinstance(data, str) else data.decode("utf-8")}
                try:
                    comp = Component.from_ical(data)
                except Exception as e:   # noqa: BLE001
                    ctx.fail(f"P:{pid}:wellformed-accepted", {**case, "exc": type(e).__name__}, str(e)[:200], None)
                    continue
                plain = ch == {"eol": "crlf", "bom": False, "str": False, "fold": 0, "case": 0, "trail": 0}
                if pid == "C01":
                    for what, detail, kf in compare(comp, v["shape"], props):
                        ctx.fail(f"P:C01:first-parse-{what}", {**case, "kf": kf, "plain": plain}, detail, None)
                    # and the accepted, well-formed calendar is stable under serialise -> parse -> serialise
                    from vf.props.c01 import check_stability
                    check_stability(ctx, comp, {k: case[k] for k in ("shape", "props", "ch", "provider")})
                else:
                    probs = compare(comp, v["shape"], props)
                    try:
                        ser = comp.to_ical()
                    except Exception as e:   # noqa: BLE001
                        ser = "EXC:" + type(e).__name__
                    g = groups.setdefault(key, {})
                    g[repr(ch)] = (probs, ser, case)
    finally:
        tzp.use_default()
    return groups
