"""Shared replay/record code for the content-line level (C05, C08)."""
import random

from vf.core import Ctx, cfg_text, Machinery
from icalendar import Event, Todo
from icalendar.parser import Contentline, Parameters
from icalendar.prop import vText, vUri

NAME = "X-A"


def S(a):
    return "".join(map(chr, a))


def L(s):
    return [ord(c) for c in s]


def to_params(ps):
    P = Parameters()
    for p in ps:
        vals = [S(v) for v in p["vals"]]
        P[S(p["k"])] = vals if (p["list"] or len(vals) != 1) else vals[0]
    return P


def to_dict(ps):
    d = {}
    for p in ps:
        vals = [S(v) for v in p["vals"]]
        d[S(p["k"])] = vals if (p["list"] or len(vals) != 1) else vals[0]
    return d


def alpha_params(P):
    out = []
    for k, v in P.items():
        if isinstance(v, (list, tuple)):
            out.append({"k": L(k), "list": len(v) > 1, "vals": [L(x) for x in v]})
        else:
            out.append({"k": L(k), "list": False, "vals": [L(str(v))]})
    return out


def value_obj(kind, v):
    return vText(S(v)) if kind == "text" else vUri(S(v))


def do_paramsA(ps):
    P = to_params(ps)
    wire = P.to_ical().decode("utf-8")
    try:
        back = Parameters.from_ical(wire)
        b = {"ok": True, "ps": alpha_params(back)}
    except ValueError:
        b = {"ok": False}
    return L(wire), b


def do_line(c):
    try:
        cl = Contentline.from_parts(NAME, to_params(c["ps"]), value_obj(c["kind"], c["v"]))
    except AssertionError:
        return True, None, None
    try:
        n, p, v = cl.parts()
        parts = {"ok": True, "name": L(n), "params": alpha_params(p), "value": L(v)}
    except ValueError:
        parts = {"ok": False}
    return False, L(str(cl)), parts


def structure(comp):
    out = []
    for name, vals in comp.items():
        for v in (vals if isinstance(vals, list) else [vals]):
            out.append([name.upper(), sorted(k.upper() for k in getattr(v, "params", {}).keys())])
    return out


def do_component(c, cls=Event):
    """Outcome of add -> to_ical -> from_ical at the component level."""
    ev = cls()
    try:
        ev.add(NAME, value_obj(c["kind"], c["v"]), parameters=to_dict(c["ps"]))
        b = ev.to_ical()
    except (AssertionError, ValueError, TypeError):
        return "refused", None
    try:
        back = cls.from_ical(b)
    except ValueError:
        return "rejected", None
    except Exception as e:   # noqa: BLE001  (what the library itself wrote must parse or be rejected with a ValueError)
        return "corrupted", {"props": None, "exception": type(e).__name__ + ": " + str(e)[:80]}
    want = [[NAME, sorted(S(p["k"]).upper() for p in c["ps"])]]
    got = structure(back)
    if back.subcomponents or back.name != ev.name:
        return "corrupted", {"subcomponents": [s.name for s in back.subcomponents], "props": got}
    if got == want:
        return "exact", back
    if not got and back.errors:
        return "rejected", None
    return "corrupted", {"props": got, "errors": len(back.errors)}


def replay_vector(ctx: Ctx, v, ev, meta, pid):
    """Compare the real code with the mirror outputs of one vector; judged by TLC's
    flags when equal, sent to the trace spec when different."""
    c = v["c"]
    key = repr(c)
    crit = any(ch in (92, 37, 44, 59, 58, 34, 10, 13, 61) for p in c["ps"] for val in p["vals"] for ch in val) \
        or any(ch in (92, 37, 44, 59, 58, 34, 10, 13) for ch in c["v"])
    ctx.case(key, crit)
    if c["ps"] and pid == "C08":
        wire, back = do_paramsA(c["ps"])
        same = wire == v["wireA"] and back == v["backA"]
        if same:
            if v["dom08"] and not v["okA"]:
                ctx.fail("P:C08:params-roundtrip", {"c": c, "impl_equal": True}, back, c["ps"])
        else:
            ctx.drifted("M:C08:paramsA-mirror", {"c": c}, [wire, back], [v["wireA"], v["backA"]])
            ev.append({"k": "paramsA", "ps": c["ps"], "wire": wire, "back": back})
            meta.append({"c": c, "path": "Parameters"})
    refused, line, parts = do_line(c)
    if refused == v["refused"] and (refused or (line == v["line"] and parts == v["parts"])):
        if not refused:
            if pid == "C08" and v["dom08"]:
                if not v["okB"]:
                    ctx.fail("P:C08:line-roundtrip", {"c": c, "impl_equal": True}, parts, c["ps"])
                if c["ps"] and not v["quoteOK"]:
                    ctx.fail("P:C08:line-quoting", {"c": c, "impl_equal": True}, line, None)
            if pid == "C05":
                if v["parts"]["ok"] and not v["okValue"]:
                    ctx.fail("P:C05:value-roundtrip", {"c": c, "impl_equal": True}, parts, c["v"])
                if v["outcome"] == "corrupted":
                    ctx.fail("P:C05:no-injection", {"c": c, "impl_equal": True}, parts, None)
    else:
        ctx.drifted(f"M:{pid}:line-mirror", {"c": c}, [refused, line, parts], [v["refused"], v["line"], v["parts"]])
        ev.append({"k": "line", "c": c, "refused": refused, "line": line or [], "parts": parts or {"ok": False}})
        meta.append({"c": c, "path": "Contentline"})
    # component level
    for cls in (Event, Todo):
        out, detail = do_component(c, cls)
        ctx.evaluations += 1
        if pid == "C05":
            if out == "corrupted":
                ctx.fail("P:C05:component-no-injection",
                         {"c": c, "cls": cls.__name__, "impl_equal": v["outcome"] == "corrupted"}, detail, None)
            elif out != v["outcome"] and not (out == "rejected" and v["outcome"] == "rejected"):
                # both are permitted outcomes; only a drift between model and code
                if not (cls is Todo and v["outcome"] == "rejected"):
                    ctx.drifted("M:C05:outcome-mirror", {"c": c, "cls": cls.__name__}, out, v["outcome"])
        if pid == "C08" and v["dom08"] and out == "exact":
            got = alpha_params(detail[NAME].params)
            want_ok = v["okB"]
            same = sorted(map(repr, got)) == sorted(map(repr, v["parts"].get("params", []))) if v["parts"]["ok"] else False
            if same:
                if not want_ok:
                    ctx.fail("P:C08:component-roundtrip", {"c": c, "cls": cls.__name__, "impl_equal": True}, got, c["ps"])
            else:
                ev.append({"k": "line", "c": c, "refused": False, "line": v["line"],
                           "parts": {"ok": True, "name": L(NAME), "params": got, "value": v["parts"].get("value", [])}})
                meta.append({"c": c, "path": f"{cls.__name__}.add/to_ical/from_ical"})


def record_random(ctx: Ctx, ev, meta, n, alphabet, pid):
    """Long / Unicode parameter values and values through the same paths, all judged by TLC."""
    rnd = random.Random(ctx.seed + 5)
    from vf import hazards
    uni = [233, 8364, 128512, 0x2019, 0xA0, 0x4e2d, 0x85] + hazards.ALL + [0x301, 0x30a]
    for i in range(n):
        def word(maxlen, allow_ctl=False):
            k = rnd.randint(0, maxlen)
            pool = alphabet + (uni if rnd.random() < 0.5 else [])
            w = [rnd.choice(pool) for _ in range(k)]
            return w
        nps = rnd.randint(0, 3)
        # (iana-token = 1*(ALPHA / DIGIT / "-"): a name may start with a digit or a hyphen)
        names = rnd.sample(["P", "q", "Cn", "x-long-name", "ALTREP", "ENCODING", "Charset", "2FA-LEVEL", "-X-LEGACY", "X9", "9"], nps)
        ps = []
        for nm in names:
            if nm in ("ENCODING", "Charset"):
                # parameters that announce a transfer encoding / character set to other parsers: the value text stays the value
                ps.append({"k": L(nm), "list": False, "vals": [L(rnd.choice(["QUOTED-PRINTABLE", "quoted-printable", "8BIT", "BASE64", "latin-1", "utf-16"]))]})
            elif rnd.random() < 0.4:
                vals = [word(8) for _ in range(rnd.randint(2, 4))]
                ps.append({"k": L(nm), "list": True, "vals": vals})
            else:
                ps.append({"k": L(nm), "list": False, "vals": [word(20)]})
        c = {"ps": ps, "kind": rnd.choice(["text", "raw"]), "v": word(30)}
        if rnd.random() < 0.2:
            # a lone CR (not a line break on this wire) followed by a blank: not a fold either
            at = rnd.randint(0, len(c["v"]))
            c["v"] = c["v"][:at] + [13, rnd.choice([32, 9])] + c["v"][at:]
        if any(S(p["k"]) in ("ENCODING", "Charset") for p in ps) and rnd.random() < 0.7:
            c["v"] = L(rnd.choice(["1 + 1 =3D 2", "a=41b", "caf=C3=A9", "=", "soft=", "aGVsbG8="])) + c["v"][:6]
        if pid == "C08":
            # domain of C08: no DQUOTE / control characters in parameter values
            for p in ps:
                p["vals"] = [[ch for ch in val if ch != 34 and ch >= 32 and ch != 127] for val in p["vals"]]
        ctx.case(repr(c), True)
        if ps:
            wire, back = do_paramsA(ps)
            ev.append({"k": "paramsA", "ps": ps, "wire": wire, "back": back})
            meta.append({"c": c, "path": "Parameters"})
        refused, line, parts = do_line(c)
        ev.append({"k": "line", "c": c, "refused": refused, "line": line or [], "parts": parts or {"ok": False}})
        meta.append({"c": c, "path": "Contentline"})
        for cls in (Event, Todo):
            out, detail = do_component(c, cls)
            if out == "corrupted" and pid == "C05":
                # the component faithfully reflects what parts() returned for the line:
                # then the line event above carries the case and TLC judges it there
                line_struct = None
                if parts and parts.get("ok"):
                    line_struct = [[S(parts["name"]).upper(), sorted(S(q["k"]).upper() for q in parts["params"])]]
                if detail.get("subcomponents") or detail.get("props") != line_struct:
                    ctx.fail("P:C05:component-no-injection",
                             {"c": c, "cls": cls.__name__, "impl_equal": False, "random": True}, detail, None)
            if out == "exact" and pid == "C05":
                # the VALUE read back from the component (the line event below carries the value of the line's own parts()):
                # outside the known backslash / percent / BOM classes it is the supplied text, CRLF normalised to LF
                vs = S(c["v"])
                if not any(ch in (92, 37) for ch in c["v"]) and not vs.startswith("\ufeff") \
                        and not any(ch in (92, 37) for p in c["ps"] for val in p["vals"] for ch in val):
                    got_v = str.__str__(detail[NAME])
                    want_v = vs.replace("\r\n", "\n") if c["kind"] == "text" else vs
                    if got_v != want_v:
                        ctx.fail("P:C05:value-roundtrip", {"c": c, "cls": cls.__name__, "impl_equal": False, "component": True}, L(got_v), L(want_v))
            if out == "exact":
                got = alpha_params(detail[NAME].params)
                ev.append({"k": "line", "c": c, "refused": False, "line": line or [],
                           "parts": {"ok": True, "name": L(NAME), "params": got,
                                     "value": (parts or {}).get("value", [])}})
                meta.append({"c": c, "path": f"{cls.__name__} round trip"})
