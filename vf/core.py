"""Shared machinery: TLC runner, vector/trace plumbing, verdicts, evidence.

Everything here is glue; it contains no knowledge of icalendar.  The deciding
statements live in /verif/spec/*.tla; this file runs TLC on them, hands the
vectors TLC prints to the per-property replay code, feeds recorded traces back
to TLC, and turns the outcome into exit code + evidence JSON.

Exit codes: 0 property held on everything explored (known findings listed),
1 at least one unlisted P-clause failure (VIOLATION line printed),
2 machinery failure (TLC error, vacuous model, self-check failure).
"""
from __future__ import annotations

import json
import os
import re
import shutil
import subprocess
import sys
import time
from dataclasses import dataclass, field
from pathlib import Path

VERIF = Path(__file__).resolve().parent.parent
SPEC = VERIF / "spec"
WORK = VERIF / "work"
EVID = VERIF / "evidence"
REPO = Path(os.environ.get("VERIF_REPO") or "/repo")
JAR = "/opt/veriftools/tla/tla2tools.jar:/opt/veriftools/tla/CommunityModules-deps.jar"


class Machinery(Exception):
    """The framework itself failed (exit 2)."""


# --------------------------------------------------------------------------- cfg

def cfg_text(*, spec=None, init=None, next=None, constants=None, invariants=(),
             properties=(), constraint=None, action_constraint=None,
             postcondition=None, deadlock=False, view=None, symmetry=None):
    out = []
    if spec:
        out.append(f"SPECIFICATION {spec}")
    else:
        out.append(f"INIT {init or 'Init'}")
        out.append(f"NEXT {next or 'Next'}")
    if constants:
        out.append("CONSTANTS")
        for k, v in constants.items():
            out.append(f"  {k} {'<-' if isinstance(v, Sub) else '='} {tla(v)}")
    for i in invariants:
        out.append(f"INVARIANT {i}")
    for p in properties:
        out.append(f"PROPERTY {p}")
    if constraint:
        out.append(f"CONSTRAINT {constraint}")
    if action_constraint:
        out.append(f"ACTION_CONSTRAINT {action_constraint}")
    if postcondition:
        out.append(f"POSTCONDITION {postcondition}")
    if view:
        out.append(f"VIEW {view}")
    if symmetry:
        out.append(f"SYMMETRY {symmetry}")
    out.append(f"CHECK_DEADLOCK {'TRUE' if deadlock else 'FALSE'}")
    return "\n".join(out) + "\n"


class Sub(str):
    """cfg substitution  Name <- Definition."""


class Raw(str):
    """A TLA+ expression to be emitted verbatim."""


def tla(v):
    """Python value -> TLA+ cfg literal."""
    if isinstance(v, (Sub, Raw)):
        return str(v)
    if isinstance(v, bool):
        return "TRUE" if v else "FALSE"
    if isinstance(v, int):
        return str(v)
    if isinstance(v, str):
        return json.dumps(v)
    if isinstance(v, (set, frozenset)):
        return "{" + ", ".join(sorted(tla(x) for x in v)) + "}"
    if isinstance(v, (list, tuple)):
        return "<<" + ", ".join(tla(x) for x in v) + ">>"
    if isinstance(v, dict):
        return "[" + ", ".join(f"{k} |-> {tla(x)}" for k, x in v.items()) + "]"
    raise TypeError(v)


# --------------------------------------------------------------------------- TLC

@dataclass
class TlcResult:
    rc: int
    generated: int = 0
    distinct: int = 0
    depth: int = 0
    prints: list = field(default_factory=list)
    tuples: list = field(default_factory=list)
    raw: str = ""
    error: str | None = None
    violated: str | None = None
    wall_s: float = 0.0
    coverage: dict = field(default_factory=dict)

    @property
    def ok(self):
        return self.rc == 0 and self.error is None and self.violated is None


_RE_STATES = re.compile(r"(\d+) states generated, (\d+) distinct states found")
_RE_DEPTH = re.compile(r"depth of the complete state graph search is (\d+)")
_RE_INV = re.compile(r"Invariant (\S+) is violated")
_RE_PROP = re.compile(r"(Temporal properties were violated|Action property (\S+) is violated)")
_RE_COV = re.compile(r"^<(\w+) line \d+, col \d+ to line \d+, col \d+ of module (\w+)>: (\d+):(\d+)", re.M)


def run_tlc(module: str, cfg: str, workdir: Path, *, workers=2, timeout=900,
            env=None, simulate: str | None = None, depth: int | None = None,
            seed: int | None = None, coverage=False, heap="4g", dfs=False,
            keep_raw=True, line_cb=None, defs: dict | None = None) -> TlcResult:
    """Run TLC on spec/<module>.tla with the given cfg text.

    defs: constants whose values the cfg grammar cannot express (tuples, sets of
    sequences): a wrapper module R_<module> extending <module> is generated in the
    work directory with one definition def_<Name> per entry and the cfg gets
    `Name <- def_<Name>`."""
    workdir.mkdir(parents=True, exist_ok=True)
    root = SPEC / f"{module}.tla"
    if defs:
        wrapper = f"R_{module}"
        body = [f"---- MODULE {wrapper} ----", f"EXTENDS {module}"]
        subs = []
        for k, v in defs.items():
            body.append(f"def_{k} == {tla(v)}")
            subs.append(f"  {k} <- def_{k}")
        body.append("====")
        root = workdir / f"{wrapper}.tla"
        root.write_text("\n".join(body) + "\n")
        if "CONSTANTS" in cfg:
            cfg = cfg.replace("CONSTANTS\n", "CONSTANTS\n" + "\n".join(subs) + "\n", 1)
        else:
            cfg = cfg + "CONSTANTS\n" + "\n".join(subs) + "\n"
    cfgp = workdir / f"{module}.cfg"
    cfgp.write_text(cfg)
    meta = workdir / f"meta_{module}"
    shutil.rmtree(meta, ignore_errors=True)
    cmd = ["java", "-XX:+UseSerialGC", "-Xss256m", f"-Xmx{heap}", f"-DTLA-Library={SPEC}"]
    if dfs:
        cmd.append("-Dtlc2.tool.queue.IStateQueue=StateDeque")
    cmd += ["-cp", JAR, "tlc2.TLC", "-workers", str(workers), "-metadir", str(meta),
            "-noGenerateSpecTE", "-config", str(cfgp)]
    if simulate:
        cmd += ["-simulate", simulate]
    if depth:
        cmd += ["-depth", str(depth)]
    if seed is not None:
        cmd += ["-seed", str(seed)]
    if coverage:
        cmd += ["-coverage", "1"]
    cmd.append(str(root))
    e = dict(os.environ)
    e.update(env or {})
    t0 = time.time()
    res = TlcResult(rc=-1)
    raw = []
    try:
        p = subprocess.Popen(cmd, cwd=root.parent, env=e, stdout=subprocess.PIPE,
                             stderr=subprocess.STDOUT, text=True, bufsize=1 << 20)
        deadline = t0 + timeout
        for line in p.stdout:
            if line.startswith('"{') or line.startswith('"['):
                try:
                    obj = json.loads(json.loads(line))
                except Exception:
                    raw.append(line)
                    continue
                if line_cb:
                    line_cb(obj)
                else:
                    res.prints.append(obj)
                continue
            if line.startswith("<<"):
                res.tuples.append(line.strip())
            raw.append(line)
            if time.time() > deadline:
                p.kill()
                res.error = f"timeout after {timeout}s"
                break
        p.wait()
        res.rc = p.returncode
    finally:
        shutil.rmtree(meta, ignore_errors=True)
    res.wall_s = time.time() - t0
    text = "".join(raw)
    res.raw = text if keep_raw else text[-20000:]
    m = _RE_STATES.findall(text)
    if m:
        res.generated, res.distinct = map(int, m[-1])
    m = _RE_DEPTH.search(text)
    if m:
        res.depth = int(m.group(1))
    m = _RE_INV.search(text)
    if m:
        res.violated = m.group(1)
    m = _RE_PROP.search(text)
    if m and not res.violated:
        res.violated = m.group(2) or "temporal"
    if res.rc != 0 and not res.violated and not res.error:
        # first Error: line
        em = re.search(r"^Error: (.*)$", text, re.M)
        res.error = (em.group(1) if em else f"tlc rc={res.rc}") + "\n" + text[-3000:]
    for name, mod, a, b in _RE_COV.findall(text):
        res.coverage[f"{mod}!{name}"] = (int(a), int(b))
    (workdir / f"{module}.out").write_text(text[-2_000_000:])
    return res


# --------------------------------------------------------------------------- run context

class Ctx:
    def __init__(self, pid: str, tier: str, seed: int, level="model_checking"):
        self.pid, self.tier, self.seed, self.level = pid, tier, seed, level
        self.work = WORK / pid
        shutil.rmtree(self.work, ignore_errors=True)
        self.work.mkdir(parents=True, exist_ok=True)
        shutil.rmtree(WORK / "violations" / pid, ignore_errors=True)
        self.t0 = time.time()
        self.violations = []      # unlisted P-clause failures
        self.known_hits = {}      # kf id -> count
        self.drift = []
        self.states = 0
        self.transitions = 0
        self.evaluations = 0
        self.nontrivial = set()
        self.traces = 0
        self.trace_events = 0
        self.samples = []
        self.notes = []
        self.assumptions = []
        self.tlc_runs = []
        self.exhaustive = True
        from . import kf
        self.kf = kf.load(pid)

    quick = property(lambda s: s.tier == "quick")

    # -- TLC helpers
    def tlc(self, module, cfg, **kw) -> TlcResult:
        kw.setdefault("seed", self.seed)
        r = run_tlc(module, cfg, self.work, **kw)
        self.tlc_runs.append({"module": module, "generated": r.generated, "distinct": r.distinct,
                              "depth": r.depth, "wall_s": round(r.wall_s, 2), "ok": r.ok,
                              "violated": r.violated})
        if r.error:
            raise Machinery(f"TLC {module}: {r.error}")
        return r

    def mc(self, module, cfg, *, expect_ok=True, count=True, **kw) -> TlcResult:
        """Model-check; a violated invariant here is a *design* finding that the
        caller must interpret (expected Δ or machinery error)."""
        r = self.tlc(module, cfg, **kw)
        if count:
            self.states += r.distinct
            self.transitions += r.generated
        if expect_ok and not r.ok:
            raise Machinery(f"TLC {module}: unexpected violation of {r.violated}\n{r.raw[-3000:]}")
        if expect_ok and r.distinct == 0:
            raise Machinery(f"TLC {module}: no states (vacuous)")
        return r

    # -- verdict helpers
    def case(self, key=None, nontrivial=True):
        self.evaluations += 1
        if nontrivial and key is not None:
            self.nontrivial.add(key if isinstance(key, (str, int, tuple)) else json.dumps(key, sort_keys=True, default=str))

    def sample(self, s, cap=6):
        if len(self.samples) < cap:
            self.samples.append(s)

    def fail(self, clause: str, case, observed=None, expected=None):
        """A P-clause failed for `case`.  Suppressed iff a known finding matches."""
        rec = {"clause": clause, "case": case, "observed": observed, "expected": expected}
        hit = self.kf.match(clause, case, observed, expected)
        if hit:
            self.known_hits[hit["id"]] = self.known_hits.get(hit["id"], 0) + 1
            return False
        if len(self.violations) < 200:
            self.violations.append(rec)
        else:
            self.violations.append(None)
        return True

    def drifted(self, clause, case, observed=None, expected=None):
        if len(self.drift) < 50:
            self.drift.append({"clause": clause, "case": case, "observed": observed, "expected": expected})

    def finish(self, *, rule: str, extra=None):
        wall = time.time() - self.t0
        EVID.mkdir(exist_ok=True)
        nviol = len(self.violations)
        cov = {
            "states": max(self.states, 1),
            "transitions": max(self.transitions, 1),
            "traces_validated_against_impl": self.traces,
            "trace_events": self.trace_events,
            "samples": self.samples or ["(none)"],
            "evaluations": max(self.evaluations, 1),
            "distinct_nontrivial": len(self.nontrivial),
            "rule": rule,
            "exhaustive": bool(self.exhaustive),
            "tlc_runs": self.tlc_runs,
            "known_findings_observed": self.known_hits,
            "drift": self.drift[:20],
            "notes": self.notes,
        }
        if extra:
            cov.update(extra)
        ev = {
            "property_id": self.pid, "tier": self.tier, "seed": self.seed, "level": self.level,
            "coverage": cov, "assumptions": self.assumptions, "wall_s": round(wall, 2),
            "violations": nviol,
        }
        (EVID / f"{self.pid}.json").write_text(json.dumps(ev, indent=1, default=str) + "\n")
        for k in self.kf.entries:
            if k["status"] == "known" and self.known_hits.get(k["id"]):
                print(f"KNOWN-FINDING: property={self.pid} {k['id']} {k['what']} (seen {self.known_hits[k['id']]}x)")
        for d in self.drift[:10]:
            print(f"DRIFT {self.pid} {d['clause']} case={json.dumps(d['case'], default=str)[:300]}")
        if nviol:
            rp = self.work / "replay"
            rp.mkdir(exist_ok=True)
            keep = WORK / "violations" / self.pid
            keep.mkdir(parents=True, exist_ok=True)
            seen = set()
            n = 0
            for v in self.violations:
                if v is None:
                    continue
                n += 1
                if n > 400:
                    break
                path = keep / f"{self.tier}-{n}.json"
                path.write_text(json.dumps({"property": self.pid, **v}, indent=1, default=str))
                if v["clause"] not in seen or n <= 5:
                    print(f"VIOLATION property={self.pid} replay={path} clause={v['clause']} case={json.dumps(v['case'], default=str)[:400]} observed={json.dumps(v['observed'], default=str)[:200]} expected={json.dumps(v['expected'], default=str)[:200]}")
                seen.add(v["clause"])
            print(f"{self.pid}: {nviol} unlisted violation(s)")
            return 1
        print(f"{self.pid} {self.tier}: OK  states={self.states} transitions={self.transitions} "
              f"evaluations={self.evaluations} nontrivial={len(self.nontrivial)} traces={self.traces} "
              f"events={self.trace_events} known={sum(self.known_hits.values())} drift={len(self.drift)} wall={wall:.1f}s")
        return 0

    # -- trace validation
    def validate_trace(self, module, events, cfg, *, chunk=20000, workers=1, timeout=900, name="trace", boundary=None):
        """Write events as ndjson chunks, run the Trace spec on each; returns list of
        (global_index, clause) failures printed by the spec as <<"FAIL", l, "clause">>.
        boundary(event) -> bool: for trace specs that carry state from one event to the next, chunks are cut
        only in front of an event for which it holds (a "reset"/"start" event)."""
        fails = []
        if boundary is None:
            cuts = list(range(0, len(events), chunk))
        else:
            cuts, last = [0], 0
            for i, e in enumerate(events):
                if i - last >= chunk and boundary(e):
                    cuts.append(i)
                    last = i
        for n, ci in enumerate(cuts):
            part = events[ci:(cuts[n + 1] if n + 1 < len(cuts) else len(events))]
            tf = self.work / f"{name}-{n}.ndjson"
            with open(tf, "w") as f:
                for e in part:
                    f.write(json.dumps(e, separators=(",", ":")) + "\n")
            r = self.tlc(module, cfg, workers=workers, timeout=timeout,
                         env={"TRACE_FILE": str(tf)})
            if r.violated or r.rc != 0:
                raise Machinery(f"trace spec {module} did not accept/complete: {r.violated} {r.raw[-2000:]}")
            done = [t for t in r.tuples if t.startswith('<<"DONE"')]
            if not done:
                raise Machinery(f"trace spec {module}: no DONE marker (trace not fully consumed)\n{r.raw[-2000:]}")
            m = re.match(r'<<"DONE", (\d+)>>', done[-1])
            if not m or int(m.group(1)) != len(part):
                raise Machinery(f"trace spec {module}: consumed {done[-1]} of {len(part)}")
            for t in r.tuples:
                m = re.match(r'<<"(FAIL|KNOWN)", (\d+), "([^"]*)">>', t)
                if m:
                    fails.append((ci + int(m.group(2)) - 1, m.group(3), m.group(1) == "KNOWN"))
            self.traces += 1
            self.trace_events += len(part)
            self.states += r.distinct
            self.transitions += r.generated
        return fails


def run_apalache(module: str, workdir: Path, args: list, timeout=600):
    """apalache-mc check on spec/<module>.tla; returns (verdict, tail of output):
    verdict 'ok' (EXITCODE: OK), 'violation' (a counterexample was found) or 'error'."""
    out = workdir / f"apa_{module}"
    shutil.rmtree(out, ignore_errors=True)
    cmd = ["apalache-mc", "check", f"--out-dir={out}"] + args + [str(SPEC / f"{module}.tla")]
    try:
        p = subprocess.run(cmd, cwd=workdir, capture_output=True, text=True, timeout=timeout)
    except subprocess.TimeoutExpired:
        raise Machinery(f"apalache {module}: timeout")
    finally:
        shutil.rmtree(out, ignore_errors=True)
    text = p.stdout + p.stderr
    if "EXITCODE: OK" in text:
        return "ok", text[-1500:]
    if "violat" in text.lower() or "EXITCODE: ERROR (12)" in text:
        return "violation", text[-1500:]
    return "error", text[-1500:]


class HardTimeout(Exception):
    """the code under test did not return within the hard limit"""


class time_limit:
    """with time_limit(seconds): ...   raises HardTimeout in the main thread (SIGALRM)"""

    def __init__(self, seconds):
        self.seconds = seconds

    def __enter__(self):
        import signal

        def handler(signum, frame):
            raise HardTimeout()
        self.old = signal.signal(signal.SIGALRM, handler)
        signal.setitimer(signal.ITIMER_REAL, self.seconds)

    def __exit__(self, *a):
        import signal
        signal.setitimer(signal.ITIMER_REAL, 0)
        signal.signal(signal.SIGALRM, self.old)
        return False


def main_wrapper(fn, pid):
    import argparse
    ap = argparse.ArgumentParser()
    ap.add_argument("--tier", default=os.environ.get("VERIF_TIER", "quick"))
    ap.add_argument("--seed", type=int, default=int(os.environ.get("VERIF_SEED", "20261002")))
    ap.add_argument("--replay")
    a = ap.parse_args()
    ctx = Ctx(pid, a.tier, a.seed)
    try:
        if os.environ.get("VERIF_NO_PRELUDE") != "1":
            from vf import preludes
            preludes.warm(ctx)          # the process has a history before the check starts (see vf/preludes.py)
        rc = fn(ctx)
    except Machinery as e:
        print(f"MACHINERY-FAILURE {pid}: {e}", file=sys.stderr)
        sys.exit(2)
    except Exception as e:   # noqa: BLE001
        # an exception nobody expected.  If it was raised INSIDE the library (innermost frame under the repository's sources)
        # the library failed in a place where the harness relies on it not to: that is a verdict on the tree.  Otherwise the
        # harness itself is broken: exit 2, never exit 1.
        import traceback
        tb = traceback.extract_tb(e.__traceback__)
        inner = tb[-1].filename if tb else ""
        traceback.print_exc()
        if str(REPO / "src") in inner:
            where = f"{os.path.relpath(inner, REPO)}:{tb[-1].lineno}"
            harness = next((f"{os.path.basename(f.filename)}:{f.lineno}" for f in reversed(tb) if "/vf/" in f.filename), "")
            ctx.fail(f"P:{pid}:library-raised-unexpectedly", {"exception": type(e).__name__, "raised_at": where, "called_from": harness}, str(e)[:300], None)
            sys.exit(ctx.finish(rule="the check was cut short by an exception raised inside the library"))
        print(f"MACHINERY-FAILURE {pid}: {type(e).__name__}: {e}", file=sys.stderr)
        sys.exit(2)
    sys.exit(rc)
