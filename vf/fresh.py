"""FRESH step: history independence of calls that hand out mutable results (spec/Fresh.tla).

TLC enumerates every behaviour of the model (calls with two inputs, mutations through handles, up to
MaxOps operations); each behaviour is replayed on the real functions of a property: after EVERY
operation every live handle is projected and compared with what the model says the caller must see
through it (pristine value of its input, or that value with the caller's own mutation).  The Memo
variant of the model (one shared object per input) must be refuted by TLC, otherwise the step is vacuous.

A Fun describes one real function:
    inputs   two concrete inputs (model inputs 1 and 2)
    call     input -> object
    alpha    object -> JSON-able projection
    mutate   object -> None   (an in-place change a caller may legitimately make)
"""
import copy
import json
from datetime import datetime, timedelta

from vf.core import Ctx, cfg_text, Machinery

_VECS = {}
PROVIDERS = {1: "zoneinfo", 2: "pytz"}


class Fun:
    def __init__(self, name, inputs, call, alpha, mutate, setup=None, modes=(1,), bad=None):
        self.name, self.inputs, self.call, self.alpha, self.mutate, self.setup, self.modes = name, inputs, call, alpha, mutate, setup, tuple(modes)
        self.bad = bad            # inputs on which the call must fail (an exception), leaving nothing behind


def behaviours(ctx: Ctx, modes=(1,), max_calls=3, max_ops=5, fails=False):
    key = (tuple(modes), max_calls, max_ops, fails)
    if key in _VECS:
        return _VECS[key]
    consts = {"Funs": {"f"}, "Inputs": {1, 2} if len(modes) == 1 else {1}, "Modes": set(modes), "MaxCalls": max_calls, "MaxOps": max_ops,
              "Fails": fails}
    r = ctx.mc("MC_Fresh", cfg_text(spec="Spec", constants={**consts, "Memo": "none"},
                                    invariants=["Independence", "FreshIdentity", "Vec"]), workers=2, timeout=600)
    vecs = r.prints
    if len(vecs) < 20:
        raise Machinery(f"MC_Fresh: too few behaviours {len(vecs)}")
    for memo in (("shared", "stale") if len(modes) > 1 else ("shared",)) + (("residue",) if fails else ()):
        g = ctx.mc("MC_Fresh", cfg_text(spec="Spec", constants={**consts, "Memo": memo}, invariants=["Independence"]),
                   expect_ok=False, count=False, workers=1, timeout=600)
        if g.ok or "Independence" not in str(g.violated):
            raise Machinery(f"vacuity guard: TLC did not refute Independence on the {memo}-memo variant")
    ctx.notes.append(f"FRESH: {len(vecs)} behaviours of spec/Fresh.tla (modes {sorted(modes)}, <= {max_calls} calls, {max_ops} operations); "
                     "Independence refuted on the memo variants (guard)")
    _VECS[key] = vecs
    return vecs


def norm(x):
    return json.loads(json.dumps(x, sort_keys=True, default=repr))


def reference(pid):
    """pristine and mutated views of every (function, input, mode), computed in a fresh interpreter per mode --
    a process with no history at all, and with another system time zone and locale than the checking process
    (results must not depend on either)"""
    import os
    import subprocess
    import sys
    from vf.core import VERIF
    out = {}
    for m, prov in PROVIDERS.items():
        p = subprocess.run([sys.executable, "-c", f"from vf import fresh; fresh._print_reference({pid!r}, {m})"], capture_output=True, text=True,
                           cwd=str(VERIF), env=dict(os.environ, TZ=("Pacific/Kiritimati", "America/Adak")[m - 1], LC_ALL="C"), timeout=900)
        if p.returncode != 0:
            raise Machinery(f"FRESH reference subprocess failed: {p.stderr[-800:]}")
        for name, d in json.loads(p.stdout.strip().splitlines()[-1]).items():
            for x, views in d.items():
                out[(name, int(x), m)] = views
    return out


def _print_reference(pid, m):
    from icalendar.timezone import tzp
    tzp.use(PROVIDERS[m])
    res = {}
    for fun in registry().get(pid, []):
        if m not in fun.modes:
            continue
        res[fun.name] = {}
        for x, inp in enumerate(fun.inputs, 1):
            st = fun.setup() if fun.setup else None
            o = fun.call(inp) if st is None else fun.call(inp, st)
            pristine = norm(fun.alpha(o))
            fun.mutate(o)
            res[fun.name][x] = {"pristine": pristine, "mutated": norm(fun.alpha(o))}
    print(json.dumps(res))


def replay(ctx: Ctx, pid: str, fun: Fun, vecs, ref, passes=1):
    """Replays every behaviour on fun; after every operation every live handle is projected and compared with the
    history-free reference view of its (input, mode)."""
    from icalendar.timezone import tzp
    nfail = 0
    for x in range(1, len(fun.inputs) + 1):
        for m in fun.modes:
            r = ref.get((fun.name, x, m))
            if r is None or r["pristine"] == r["mutated"]:
                raise Machinery(f"FRESH {fun.name}: no reference, or the mutation is not visible in the projection")
    try:
        for p in range(passes):
            for v in vecs:
                handles, mutated = {}, set()
                state = fun.setup() if fun.setup else None
                tzp.use(PROVIDERS[fun.modes[0]])
                for step, op in enumerate(v["hist"]):
                    x, h = op["x"], op["h"]
                    try:
                        if op["op"] == "switch":
                            tzp.use(PROVIDERS[op["m"]])
                            continue
                        if op["op"] == "fail":
                            badin = fun.bad[(step + p) % len(fun.bad)]
                            try:
                                fun.call(badin) if state is None else fun.call(badin, state)
                            except Exception:   # noqa: BLE001  (the failure itself is the point)
                                pass
                            continue
                        if op["op"] == "call":
                            inp = fun.inputs[x - 1]
                            handles[h] = (x, op["m"], fun.call(inp) if state is None else fun.call(inp, state))
                        else:
                            fun.mutate(handles[h][2])
                            mutated.add(h)
                        ctx.evaluations += 1
                        for hh, (xx, mm, o) in handles.items():
                            want = ref[(fun.name, xx, mm)]["mutated" if hh in mutated else "pristine"]
                            got = norm(fun.alpha(o))
                            if got != want:
                                nfail += 1
                                if nfail <= 5:
                                    ctx.fail(f"P:{pid}:fresh-result-{fun.name}",
                                             {"fun": fun.name, "hist": v["hist"][:step + 1], "handle": hh, "input": repr(fun.inputs[xx - 1])[:200],
                                              "provider": PROVIDERS[mm], "must_see": "mutated" if hh in mutated else "pristine"}, _diff(got, want), None)
                                raise StopIteration
                    except StopIteration:
                        break
                    except Machinery:
                        raise
                    except Exception as e:   # noqa: BLE001
                        nfail += 1
                        ctx.fail(f"P:{pid}:fresh-result-{fun.name}", {"fun": fun.name, "hist": v["hist"][:step + 1], "exc": type(e).__name__},
                                 str(e)[:200], None)
                        break
                ctx.case(("fresh", fun.name, json.dumps(v["hist"])), True)
    finally:
        tzp.use_default()
    return nfail


def _diff(got, want):
    a, b = json.dumps(got), json.dumps(want)
    i = next((k for k, (x, y) in enumerate(zip(a, b)) if x != y), min(len(a), len(b)))
    return {"at": i, "got": a[max(0, i - 60):i + 120], "want": b[max(0, i - 60):i + 120]}


# ----------------------------------------------------------------------------------------------------------------
# the functions of each property
def _alpha_params(P):
    return [[k, list(v) if isinstance(v, (list, tuple)) else v] for k, v in P.items()]


def registry():
    from icalendar import Calendar, Event, Todo, Component, Timezone, Alarm, vRecur
    from icalendar.parser import Contentline, Contentlines, Parameters, foldline
    from icalendar.prop import vCategory, vDDDLists, vDDDTypes
    from icalendar.caselessdict import CaselessDict
    from vf import parsercommon as pc

    cal_a = ("BEGIN:VCALENDAR\r\nVERSION:2.0\r\nBEGIN:VEVENT\r\nUID:a\r\nDTSTART;TZID=Europe/Berlin:20240701T100000\r\nSUMMARY;LANGUAGE=en:One\r\n"
             "RRULE:FREQ=WEEKLY;BYDAY=MO,TU\r\nCATEGORIES:x,y\r\nBEGIN:VALARM\r\nACTION:DISPLAY\r\nTRIGGER:-PT15M\r\nEND:VALARM\r\nEND:VEVENT\r\nEND:VCALENDAR\r\n")
    cal_b = ("BEGIN:VCALENDAR\r\nVERSION:2.0\r\nBEGIN:VTODO\r\nUID:b\r\nDUE;TZID=America/New_York:20240105T090000\r\nATTENDEE;CN=\"Doe, J\";MEMBER=\"mailto:a@x\",\"mailto:b@x\""
             ":mailto:j@x\r\nRDATE;TZID=Asia/Tokyo:20240105T090000,20240106T090000\r\nBEGIN:VALARM\r\nACTION:DISPLAY\r\nTRIGGER;RELATED=END:PT5M\r\nREPEAT:2\r\n"
             "DURATION:PT10M\r\nEND:VALARM\r\nEND:VTODO\r\nEND:VCALENDAR\r\n")

    def mutate_params(p):
        p["X-ADDED"] = "1"
        for k, v in list(p.items()):
            if isinstance(v, list):
                v.append("appended")

    def mutate_tree(c):
        c.add("x-added", "by the caller")
        for s in c.walk():
            for k in list(s.keys()):
                v = s[k]
                for x in (v if isinstance(v, list) else [v]):
                    if hasattr(x, "params"):
                        x.params["X-ADDED"] = "1"
                    if isinstance(x, dict):         # vRecur
                        for kk, vv in x.items():
                            if isinstance(vv, list) and kk not in ("FREQ",):
                                vv.append(vv[0])
                    if hasattr(x, "cats"):
                        x.cats.append("added")
                    if hasattr(x, "dts"):
                        x.dts.append(x.dts[0])
            s.errors.append(("X", "added"))
        c.subcomponents.append(Event())

    def mutate_recur(r):
        for k, v in r.items():
            if isinstance(v, list) and k != "FREQ":
                v.append(v[0])
        r["X-ADDED"] = ["1"]
        r.params["X-P"] = "1"

    def parsed(text):
        return Calendar.from_ical(text)

    def alarms_of(text):
        cal = Calendar.from_ical(text)
        comp = [c for c in cal.subcomponents if c.name in ("VEVENT", "VTODO")][0]
        if comp.name == "VTODO" and "DTSTART" not in comp:
            comp.add("dtstart", datetime(2024, 1, 5, 8, 0))
        return comp

    def a_times(ts):
        return [[repr(t.trigger), t.alarm.get("ACTION") and str(t.alarm["ACTION"])] for t in ts]

    F = {}
    F["C05"] = [
        Fun("Contentline.parts", ["ATTENDEE;CN=Max;ROLE=CHAIR:mailto:a@example.com", "SUMMARY:a line without parameters"],
            lambda x: Contentline(x).parts(), lambda r: [r[0], _alpha_params(r[1]), r[2]], lambda r: mutate_params(r[1]),
            bad=["no colon or name", ";=:", "N;P=\"unterminated:v"]),
        Fun("Contentlines.from_ical", ["A:1\r\nB;X=1:2\r\n", "SUMMARY:long " + "x" * 100 + "\r\n"],
            lambda x: Contentlines.from_ical(x), lambda r: [str(ln) for ln in r], lambda r: r.append(Contentline("C:3"))),
    ]
    F["C08"] = [
        Fun("Parameters.from_ical", ["CN=Max;MEMBER=\"mailto:a@x\",\"mailto:b@x\"", "X-P=1,2,3;ROLE=CHAIR"],
            lambda x: Parameters.from_ical(x), _alpha_params, mutate_params, bad=["x=\"", "=", "A=1;A"]),
        Fun("parsed property params", [cal_a, cal_b],
            lambda x: [v.params for c in parsed(x).walk() for k in c.keys() for v in (c[k] if isinstance(c[k], list) else [c[k]]) if hasattr(v, "params")],
            lambda r: [_alpha_params(p) for p in r], lambda r: [mutate_params(p) for p in r]),
    ]
    F["C19"] = [
        Fun("vRecur.from_ical", ["FREQ=WEEKLY;COUNT=4;BYDAY=MO", "FREQ=YEARLY;BYMONTH=5,5L;BYDAY=-1SU;UNTIL=20301231T000000Z;INTERVAL=2"],
            lambda x: vRecur.from_ical(x), lambda r: [[k, [repr(i) for i in v] if isinstance(v, list) else repr(v)] for k, v in r.items()] + [_alpha_params(r.params)],
            mutate_recur, bad=["FREQ", "FREQ=DAILY;COUNT=x", "=;="]),
        Fun("parsed RRULE", ["BEGIN:VEVENT\r\nRRULE:FREQ=WEEKLY;COUNT=4;BYDAY=MO\r\nEND:VEVENT\r\n", "BEGIN:VTODO\r\nRRULE:FREQ=DAILY;BYHOUR=1,2;BYSETPOS=-1\r\nEND:VTODO\r\n"],
            lambda x: Component.from_ical(x)["RRULE"], lambda r: [[k, [repr(i) for i in v]] for k, v in r.items()] + [_alpha_params(r.params)], mutate_recur),
    ]
    tree = Fun("Component.from_ical", [cal_a, cal_b], parsed, lambda c: pc.full_alpha(c), mutate_tree,
               bad=["BEGIN:VCALENDAR\r\nBEGIN:VTODO\r\nDUE;TZID=Europe/Berlin:garbage\r\nEND:VTODO\r\nEND:VCALENDAR\r\n", "BEGIN:VEVENT\r\nSUMMARY;X=1:half",
                    cal_a[:len(cal_a) // 2], "END:VCALENDAR\r\n"])
    F["C01"] = [tree, Fun("Component.from_ical (providers)", [cal_b], parsed, lambda c: pc.full_alpha(c), mutate_tree, modes=(1, 2))]
    cal_lc = ("begin:vcalendar\nversion:2.0\nbegin:vevent\nuid:a\ndtstart;tzid=Europe/Berlin:20240701T100000\nsummary;language=en:One\n"
              "rrule:FREQ=WEEKLY;BYDAY=MO,TU\ncategories:x,\n\ty\nend:vevent\nend:vcalendar\n")
    F["C09"] = [Fun("Component.from_ical (lower-case names, LF, tab fold)", [cal_lc, cal_b.replace("\r\n", "\n")], parsed,
                    lambda c: pc.full_alpha(c), mutate_tree)]
    F["C04"] = [Fun("Component.from_ical (with errors)", ["BEGIN:VEVENT\r\nDTSTART:garbage\r\nSUMMARY:ok\r\nno colon here\r\nEND:VEVENT\r\n",
                                                          "BEGIN:VCALENDAR\r\nBEGIN:VEVENT\r\nRRULE:FREQ=\r\nEND:VEVENT\r\nEND:VCALENDAR\r\n"],
                    lambda x: Component.from_ical(x), lambda c: [pc.full_alpha(c), [[list(map(str, e)) for e in s.errors] for s in c.walk()]], mutate_tree)]
    F["C07"] = [
        Fun("vCategory.from_ical", ["a,b\\,c,d", "one"], lambda x: vCategory.from_ical(x), lambda r: [str(i) for i in r], lambda r: r.append("added")),
        Fun("parsed CATEGORIES", ["BEGIN:VEVENT\r\nCATEGORIES:a,b\r\nEND:VEVENT\r\n", "BEGIN:VEVENT\r\nCATEGORIES:x\r\nCATEGORIES:y,z\r\nEND:VEVENT\r\n"],
            lambda x: Component.from_ical(x)["CATEGORIES"], lambda r: [[str(i) for i in c.cats] for c in (r if isinstance(r, list) else [r])],
            lambda r: [c.cats.append("added") for c in (r if isinstance(r, list) else [r])]),
    ]
    F["C18"] = [
        Fun("Calendar.get_used_tzids", [cal_a, cal_b], lambda x, st: st.setdefault(x, parsed(x)).get_used_tzids(), lambda r: sorted(r),
            lambda r: r.add("X/Added"), setup=dict),
        Fun("Calendar.get_missing_tzids", [cal_a, cal_b], lambda x, st: st.setdefault(x, parsed(x)).get_missing_tzids(), lambda r: sorted(r),
            lambda r: r.add("X/Added"), setup=dict),
        Fun("add_missing_timezones (providers)", [cal_b],
            lambda x: (lambda c: (c.add_missing_timezones(first_date=datetime(2023, 1, 1).date(), last_date=datetime(2025, 1, 1).date()), c)[1])(parsed(x)),
            lambda c: [sorted(c.get_missing_tzids()), [str(t.get("TZID")) for t in c.timezones], len(c.to_ical())],
            lambda c: c.add_component(Component.from_ical("BEGIN:VEVENT\r\nDTSTART;TZID=Asia/Kolkata:20240101T100000\r\nEND:VEVENT\r\n")), modes=(1, 2)),
        Fun("Calendar.timezones", [cal_a, cal_b], lambda x, st: st.setdefault(x, parsed(x)).timezones, lambda r: [str(t.get("TZID")) for t in r],
            lambda r: r.append(Timezone()), setup=dict),
    ]
    F["C13"] = [
        Fun("Timezone.from_tzid", ["Europe/Berlin", "Asia/Kolkata"], lambda x: Timezone.from_tzid(x, first_date=datetime(2020, 1, 1).date(), last_date=datetime(2026, 1, 1).date()),
            lambda c: c.to_ical().decode(), lambda c: (c.add("x-added", "1"), c.subcomponents.pop() if c.subcomponents else None)),
        Fun("Timezone.from_tzid (providers)", ["America/New_York"],
            lambda x: Timezone.from_tzid(x, first_date=datetime(2020, 1, 1).date(), last_date=datetime(2026, 1, 1).date()),
            lambda c: c.to_ical().decode(), lambda c: (c.add("x-added", "1"), c.subcomponents.pop() if c.subcomponents else None), modes=(1, 2)),
        Fun("Timezone.to_tz (providers)", ["America/New_York"],
            lambda x: [Timezone.from_tzid(x, first_date=datetime(2020, 1, 1).date(), last_date=datetime(2026, 1, 1).date()).to_tz()],
            lambda r: [type(t).__module__.split(".")[0] for t in r] + [repr(datetime(2024, 7, 1, 12, tzinfo=t).utcoffset()) for t in r if t is not None],
            lambda r: r.append(None), modes=(1, 2)),
    ]
    F["C14"] = [
        Fun("component.alarms.times", [cal_a, cal_b], lambda x, st: st.setdefault(x, alarms_of(x)).alarms.times, a_times, lambda r: r.append(r[0]) if r else r.append(None),
            setup=dict),
        Fun("alarms.times (providers)", [cal_a], lambda x: alarms_of(x).alarms.times, a_times, lambda r: r.append(r[0]), modes=(1, 2)),
    ]
    def alarms_obj(attr):
        """one long-lived Alarms object per input; the failing call tries to give it a second parent (ValueError) --
        start, end, acknowledgement and snooze must still be those of the first"""
        from icalendar.alarms import Alarms

        def call(inp, st):
            if isinstance(inp, tuple):
                other = alarms_of(cal_a)
                other.DTSTAMP = datetime(2030, 1, 1, tzinfo=__import__("zoneinfo").ZoneInfo("UTC"))
                other.start = datetime(2031, 1, 1, 8, 0)
                errs = 0
                for k, al in list(st.items()):
                    try:
                        al.add_component(other)
                    except ValueError:
                        errs += 1
                if errs or not st:
                    raise ValueError("second parent refused")
                return None
            al = st.get(inp)
            if al is None:
                al = st[inp] = Alarms(alarms_of(inp))
            return getattr(al, attr)
        return call

    F["C14"].append(Fun("Alarms.times (one object, failing add_component in between)", [cal_a, cal_b], alarms_obj("times"), a_times,
                        lambda r: r.append(r[0]) if r else r.append(None), setup=dict, bad=[("bad",)]))
    F["C15"] = [
        Fun("Alarms.active (one object, failing add_component in between)", [cal_a, cal_b], alarms_obj("active"),
            lambda r: [[repr(t.trigger), repr(t.acknowledged), repr(t.parent.get("UID"))] for t in r],
            lambda r: r.append(r[0]) if r else r.append(None), setup=dict, bad=[("bad",)]),
        Fun("component.alarms.active", [cal_a, cal_b], lambda x, st: st.setdefault(x, alarms_of(x)).alarms.active, a_times, lambda r: r.append(r[0]) if r else r.append(None),
            setup=dict),
    ]
    F["C17"] = [
        Fun("sorted_keys", [cal_a, cal_b], lambda x, st: st.setdefault(x, parsed(x)).subcomponents[0].sorted_keys(), list, lambda r: r.append("ADDED"), setup=dict),
        Fun("sorted_items", [cal_a, cal_b], lambda x, st: st.setdefault(x, parsed(x)).subcomponents[0].sorted_items(), lambda r: [k for k, _ in r],
            lambda r: r.append(("ADDED", 1)), setup=dict),
        Fun("CaselessDict.copy", [(("a", 1), ("B", 2)), (("x", 1),)], lambda x, st: st.setdefault(x, CaselessDict(x)).copy(), lambda r: list(r.items()),
            lambda r: r.__setitem__("added", 9), setup=dict),
    ]
    F["C20"] = [
        Fun("Component.copy", [cal_a, cal_b], lambda x, st: st.setdefault(x, parsed(x)).copy(), lambda c: pc.full_alpha(c), lambda c: c.add("x-added", "1"), setup=dict),
        Fun("copy.deepcopy", [cal_a, cal_b], lambda x, st: copy.deepcopy(st.setdefault(x, parsed(x))), lambda c: pc.full_alpha(c), mutate_tree, setup=dict),
        Fun("copy.deepcopy (providers)", [cal_b], lambda x: copy.deepcopy(parsed(x)), lambda c: pc.full_alpha(c), mutate_tree, modes=(1, 2)),
        Fun("walk", [cal_a, cal_b], lambda x, st: st.setdefault(x, parsed(x)).walk(), lambda r: [c.name for c in r], lambda r: r.append(Event()), setup=dict),
        Fun("events/todos", [cal_a, cal_b], lambda x, st: (lambda c: c.events + c.todos)(st.setdefault(x, parsed(x))), lambda r: [c.name for c in r],
            lambda r: r.append(Event()), setup=dict),
    ]
    F["C10"] = [
        Fun("content_lines", [cal_a, cal_b], lambda x, st: st.setdefault(x, parsed(x)).content_lines(), lambda r: [str(ln) for ln in r],
            lambda r: r.append(Contentline("X:1")), setup=dict),
        Fun("property_items", [cal_a, cal_b], lambda x, st: st.setdefault(x, parsed(x)).property_items(), lambda r: [[k, v.to_ical().decode() if hasattr(v, "to_ical") else str(v)] for k, v in r],
            lambda r: r.append(("X", "1")), setup=dict),
    ]
    F["C06"] = [
        Fun("foldline", ["SUMMARY:" + "\u00e9" * 90, "DESCRIPTION:" + "x" * 70 + "\U0001F600" * 20], lambda x: [foldline(x)], list, lambda r: r.append("added"),
            bad=["\u00e9" * 40 + "\ud800" + "\u00e9" * 60, "a\nb"]),
        Fun("Contentlines.to_ical", [["SUMMARY:" + "\u4e2d" * 38, "UID:1"], ["DESCRIPTION:" + "\u00e9" * 200]],
            lambda x: [Contentlines([Contentline(ln) for ln in x]).to_ical()], lambda r: [i.decode("utf-8") if isinstance(i, bytes) else i for i in r],
            lambda r: r.append("added"), bad=[["SUMMARY:\u00e9\ud800"]]),
    ]
    # inputs that are EQUAL IN PYTHON (and hash alike) but differ on the wire: the same instant in UTC and in a zone, the numbers 1 and 1.0.
    # A result remembered per argument (functools.lru_cache, a dict) would answer the second with the first's text.
    from zoneinfo import ZoneInfo as _ZI
    from icalendar.prop import vDDDTypes as _vD, vDatetime as _vDT, vInt as _vI, vFloat as _vF, vPeriod as _vPeriod
    same_utc = datetime(2024, 6, 1, 12, 0, tzinfo=_ZI("UTC"))
    same_berlin = same_utc.astimezone(_ZI("Europe/Berlin"))
    F["C03"] = [
        Fun("vDDDLists.from_ical", ["20240105T090000,20240106T090000", "20240105"], lambda x: vDDDLists.from_ical(x), lambda r: [repr(d) for d in r],
            lambda r: r.append(datetime(2000, 1, 1))),
        Fun("vDDDTypes / vDatetime of equal instants", [same_utc, same_berlin],
            lambda d: [_vD(d).to_ical().decode(), sorted(_vD(d).params.items()), _vDT(d).to_ical().decode(), _vPeriod((d, timedelta(hours=1))).to_ical().decode()], list,
            lambda r: r.append("added")),
        Fun("vInt / vFloat of equal numbers", [1, 1.0], lambda x: [(_vF(x) if isinstance(x, float) else _vI(x)).to_ical().decode(), _vF(x).to_ical().decode()], list,
            lambda r: r.append("added")),
    ]
    cal_utc = cal_a.replace("DTSTART;TZID=Europe/Berlin:20240701T100000", "DTSTART:20240701T080000Z")
    F["C14"].append(Fun("alarms.times of components that start at equal instants", [cal_a, cal_utc], lambda x: alarms_of(x).alarms.times, a_times, lambda r: r.append(r[0])))
    F["C15"].append(Fun("alarms.active of components that start at equal instants", [cal_a, cal_utc], lambda x: alarms_of(x).alarms.active, a_times, lambda r: r.append(r[0])))
    return F


def step(ctx: Ctx, pid: str, passes=None):
    funs = registry().get(pid, [])
    if not funs:
        raise Machinery(f"FRESH: no functions registered for {pid}")
    ref = reference(pid)
    n = 0
    for f in funs:
        n += replay(ctx, pid, f, behaviours(ctx, f.modes, fails=bool(f.bad)), ref, passes or (1 if ctx.quick else 3))
    ctx.assumptions.append(
        "FRESH: a caller may mutate the object a call handed to it; later calls and other handles must not see that, nor results computed "
        "under the other provider (spec/Fresh.tla); the reference views are computed in a fresh interpreter per provider")
    ctx.notes.append(f"FRESH: functions replayed for {pid}: {[(f.name, f.modes) for f in funs]}")
    return n
