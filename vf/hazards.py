"""Code points that behave specially under Unicode-aware string operations a refactoring may introduce
(str.strip, str.isprintable, str.splitlines, unicodedata.normalize, str.upper/lower/casefold) although RFC 5545
gives them no special role: the library must carry them through unchanged."""

# changed by NFC / NFKC (canonical or compatibility equivalents, several of them become ASCII delimiters)
NORMALISATION = [0x2126, 0x212A, 0x212B, 0x037E, 0x0340, 0x1F71, 0x2000, 0x2329, 0xF900,
                 0xFF1B, 0xFF1A, 0xFF0C, 0xFF02, 0xFF3C, 0xFB01, 0x00B5, 0x1E9B]
DECOMPOSED = ["é", "Å", "가", "ȫ"]
# str.strip() / str.split() whitespace beyond SP and TAB
WHITESPACE = [0x00A0, 0x1680, 0x2003, 0x2028, 0x2029, 0x3000, 0x0085, 0x001C, 0x001F, 0x000B, 0x000C, 0x205F]
# str.isprintable() is False, yet they are ordinary content for TEXT (or at least must not vanish silently)
NONPRINTABLE = [0x200D, 0x00AD, 0xFEFF, 0xE000, 0x0080, 0x009F, 0x061C, 0x2066, 0x200B, 0xFFF9, 0x10FFFD]
# upper()/lower() change the length or are not inverse
CASE = [0x00DF, 0x0131, 0x017F, 0x0130, 0x1E9E, 0x01C5, 0xFB00]
# look like delimiters after normalisation
LOOKALIKE_DELIMS = [0x037E, 0xFF1B, 0xFF1A, 0xFF0C, 0xFF02, 0xFF3C, 0x2028, 0x2029, 0x0085, 0xFE54, 0xFE55, 0xFE50]

ALL = sorted(set(NORMALISATION + WHITESPACE + NONPRINTABLE + CASE + LOOKALIKE_DELIMS))


def strings():
    """short strings placing each hazard at the start, inside and at the end of ordinary text"""
    out = []
    for cp in ALL:
        h = chr(cp)
        out += [h, "a" + h, h + "a", "ab" + h + "cd", h + h, "a " + h + " b"]
    for d in DECOMPOSED:
        out += [d, "caf" + d, d + "x"]
    return out
