"""Known findings: committed list, never written at run time.

An entry suppresses a P-clause failure only if (i) the clause matches,
(ii) the entry's predicate (a named function in kfpreds, mirroring the KF_*
operator of spec/Findings.tla) accepts the failing case *and* what was
observed.  'fixed' entries suppress nothing.
"""
import fnmatch
import json
from pathlib import Path

FILE = Path(__file__).resolve().parent.parent / "KNOWN_FINDINGS.json"


class KF:
    def __init__(self, entries):
        self.entries = entries

    def match(self, clause, case, observed, expected):
        from . import kfpreds
        for e in self.entries:
            if e["status"] != "known":
                continue
            if not fnmatch.fnmatchcase(clause, e["clause"]):
                continue
            pred = getattr(kfpreds, e["pred"])
            try:
                if pred(case, observed, expected):
                    return e
            except Exception:
                continue
        return None


def load(pid):
    data = json.loads(FILE.read_text()) if FILE.exists() else {"findings": []}
    return KF([e for e in data["findings"] if e["property"] == pid])
