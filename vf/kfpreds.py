"""Predicates naming the input classes of known findings.  Each mirrors a KF_*
operator in spec/Findings.tla (cross-checked by TLC against the model-derived
failure set on the bounded domain).  A predicate receives the failing case,
what was observed and what was expected."""


def _s(case):
    return "".join(map(chr, case.get("s", [])))


def _always(case, observed, expected):
    return True


# ---------------------------------------------------------------- C07
def _items(case):
    if "items" in case:
        return [list(i) for i in case["items"]]
    return [list(case.get("s", []))]


def c07_prop_unescape(case, observed, expected):
    """KF_C07_PropUnescape: backslash or percent in the text, and the code did
    exactly what the pinned parts() pre-unescape mirror does."""
    return bool(case.get("impl_equal")) and any(92 in i or 37 in i for i in _items(case))


def c07_bom(case, observed, expected):
    its = _items(case)
    return bool(case.get("impl_equal")) and bool(its) and bool(its[0]) and its[0][0] == 65279


def c07_list_comma(case, observed, expected):
    return bool(case.get("impl_equal")) and any(44 in i for i in _items(case))


# ---------------------------------------------------------------- C08 / C05
def _pvals(case):
    return [v for p in case.get("c", {}).get("ps", []) for v in p["vals"]]


def c08_param_backslash_pct(case, observed, expected):
    """KF_C08_Unescape: a parameter value contains a backslash or a percent sign and the
    code did exactly what the pinned parts() placeholder mechanism does."""
    return bool(case.get("impl_equal")) and any(92 in v or 37 in v for v in _pvals(case))


def c05_value_unescape(case, observed, expected):
    """value text altered by the parts() placeholder mechanism (C07-K2 / C08-K1 seen from C05)"""
    v = case.get("c", {}).get("v", [])
    return bool(case.get("impl_equal")) and (
        any(92 in x or 37 in x for x in _pvals(case)) or 92 in v or 37 in v or (v[:1] == [65279]))


def c05_param_backslash_injection(case, observed, expected):
    if "payload" in case:
        return bool(case.get("param_backslash"))
    return bool(case.get("impl_equal")) and any(92 in x for x in _pvals(case))


# ---------------------------------------------------------------- C20
def c20_pytz_custom_tz_copy(case, observed, expected):
    return (case.get("provider") == "pytz" and case.get("custom_tz") and case.get("how") in ("deepcopy", "pickle")
            and case.get("exc") == "UnknownTimeZoneError")


# ---------------------------------------------------------------- C01 / C09
def _flat(x):
    """all characters of a string / nested list of strings, concatenated"""
    if isinstance(x, str):
        return x
    if isinstance(x, (list, tuple)):
        return "".join(_flat(i) for i in x)
    return str(x)


def c01_text_unescape_line(case, observed, expected):
    return case.get("kf") == "unescape" and isinstance(observed, dict) and str(observed.get("line", "")).startswith("DESCRIPTION:")


def c01_categories_comma_line(case, observed, expected):
    return case.get("kf") == "list-comma" and isinstance(observed, dict) and observed.get("line") == "CATEGORIES:A,B\\,C,D"


def c01_pytz_fold(case, observed, expected):
    return (case.get("provider") == "pytz" and isinstance(observed, dict)
            and observed.get("line") == "DUE;TZID=America/New_York:20241103T013000" and "EST" in str(observed.get("got")))


def c01_component_name_escaped_twice(case, observed, expected):
    """the only difference is the NAME of a component, and that (invalid) name contains a character that is
    special in TEXT values: BEGIN/END values are written through the TEXT escaper twice and read through
    the placeholder mechanism, so such names change on every trip"""
    d = (case.get("diff") or {})
    if isinstance(observed, dict) and observed.get("clause") == "reparse-rejected":
        # the re-serialised text no longer parses: some BEGIN/END value of the first serialisation carries such a character
        import re
        return any(re.match(r"^(BEGIN|END):.*[\\;,:\r]", ln) for ln in str(observed.get("b1", "")).split("\r\n"))
    if d.get("what") != "name":
        return False
    a = d.get("a", "")
    return any(ch in a for ch in "\\;,\r\n")


def c01_unescape_instability(case, observed, expected):
    """parse->serialise->parse changed a property only in a parameter value / TEXT value that contains a
    backslash or a percent sign (the parts() pre-unescape of C07-K2 / C08-K1 applied once per trip)"""
    d = (case.get("diff") or {})
    if d.get("what") != "prop":
        return False
    a, b = d.get("a"), d.get("b")
    if not (isinstance(a, list) and isinstance(b, list) and len(a) == len(b) and len(a) in (4, 5)):
        return False
    if a[0] != b[0] or a[1] != b[1]:
        return False
    # the characters of the parameters and of the DECODED value (the encoded text has a backslash for every comma;
    # a repr would show CR as backslash-r)
    blob = _flat(a[2]) + (_flat(a[4]) if len(a) == 5 else _flat(a[3]))
    return "\\" in blob and a[1] in ("vText", "vCalAddress", "vUri", "vCategory", "vInline", "vDDDTypes",
                                                        "vDDDLists", "vRecur", "vInt", "vDuration", "vPeriod", "vGeo",
                                                        "vUTCOffset", "vBoolean", "vFloat", "vBinary", "vTime", "vDatetime", "vDate")


def c01_param_backslash_lost(case, observed, expected):
    """the first parse produced a parameter value containing a backslash (from a literal backslash or a
    %5C sequence in the text); written back, that backslash escapes the delimiter that follows the
    parameter, so the second parse loses or restructures exactly this property (mechanism of C05-K2 / C08-K1)"""
    d = (case.get("diff") or {})
    a = d.get("a")
    if d.get("what") != "prop" or not (isinstance(a, list) and len(a) in (4, 5)):
        return False
    return any("\\" in _flat(v) for _k, v in a[2])


def c01_suite_split_backslash(case, observed, expected):
    """a content line seen in the repository's own tests whose parameter section contains a backslash or a
    %XX sequence: parts() reads it through the placeholder mechanism (C08-K1), not as RFC 5545 3.2 does;
    suppressed only when the observed split is exactly the pinned mirror's"""
    line = (case.get("event") or {}).get("line", "")
    return bool(case.get("impl_equal")) and isinstance(line, str) and ("\\" in line or "%" in line)


def c01_crlf_in_text(case, observed, expected):
    """the only difference between the two parses is CR LF inside a TEXT value turned into LF (escape_char writes the
    pair as one \\n; the intended newline normalisation of C07's Norms)"""
    d = (case.get("diff") or {})
    a, b = d.get("a"), d.get("b")
    if d.get("what") != "prop" or not (isinstance(a, list) and isinstance(b, list) and len(a) == 5 and len(b) == 5):
        return False
    if a[:3] != b[:3]:
        return False

    def norm(x):
        if isinstance(x, str):
            return x.replace("\r\n", "\n")
        if isinstance(x, list):
            return [norm(i) for i in x]
        return x
    return a[4] != b[4] and norm(a[4]) == b[4]


# ---------------------------------------------------------------- C02
def c02_attach_binary(case, observed, expected):
    return case.get("n") == "ATTACH" and case.get("k") == "binary" and isinstance(observed, dict) and observed.get("decoded_type") == "URI" \
        and observed.get("value") == "BINARY"


# ---------------------------------------------------------------- C12
def c12_history(case, observed, expected):
    """KF_History (spec/TzCache.tla), decided by TLC per vector, and the code did what the pinned cache design does"""
    return bool(case.get("kf")) and bool(case.get("impl_equal"))


def c12_dateutil_first_std_onset(case, observed, expected):
    """zoneinfo provider (dateutil tzical): in a definition with a one-off DAYLIGHT observance (offset change -120 -> 0
    relative to the later standard time) followed by a yearly pair, the minute before the FIRST yearly STANDARD onset
    is answered with the standard offset already."""
    z = case.get("zone") or []
    if case.get("provider") != "zoneinfo" or len(z) != 4 or [o["name"] for o in z] != ["OLD", "STD", "DST", "DST"]:
        return False
    std = z[1]
    first_onset = std["start"] - std["from"]
    return case.get("t") == first_onset - 1 and isinstance(observed, dict) and observed.get("off") == std["to"]


# ---------------------------------------------------------------- C13
def c13_known_class(case, observed, expected):
    """decided by TLC in Trace_VTimezone: every mismatching probe of the zone lies in the Displaced or ShortPeriod class"""
    return bool(case.get("known_class"))


def c13_regen_pytz(case, observed, expected):
    return bool(case.get("known_class")) and case.get("provider") == "pytz"


def c13_regen_first_kind(case, observed, expected):
    """zoneinfo provider: the regenerated component differs only in STANDARD/DAYLIGHT of the observance standing at the
    window start with TZOFFSETFROM = TZOFFSETTO (decided by first_kind_only on the two components)"""
    return bool(case.get("known_class")) and case.get("provider") == "zoneinfo" and bool(case.get("firstkind"))


def c13_apia_dateutil(case, observed, expected):
    return case.get("tzid") == "Pacific/Apia" and case.get("exc") == "ValueError"


def c12_cross_order(case, observed, expected):
    """a definition whose onsets are ordered differently in local time and in UTC (zone family A/B of
    MC_VTimezone!CrossZones), and the object answered exactly what the get_transitions + bisect mirror answers
    (observed under both providers: dateutil's tzical also compares wall times)"""
    z = case.get("zone") or []
    return [o["name"] for o in z] == ["A", "B"] and bool(case.get("impl_equal"))


def c02_unidentifiable_tz(case, observed, expected):
    """an aware date-time whose tzinfo is a bare fixed offset no IANA zone of the identification table matches
    (pytz.FixedOffset, datetime.timezone(+01:30)): written without a resolvable TZID and read back naive"""
    return case.get("tzkind") in ("pytz-fixed-60", "stdlib-plus0130") and bool(case.get("naive_back"))
