"""Predicates naming the input classes of known findings.  Each mirrors a KF_*
operator in spec/Findings.tla (cross-checked by TLC against the model-derived
failure set on the bounded domain).  A predicate receives the failing case,
what was observed and what was expected."""


def _s(case):
    return "".join(map(chr, case.get("s", [])))


def _always(case, observed, expected):
    return True


# ---------------------------------------------------------------- C07
def _items(case):
    if "items" in case:
        return [list(i) for i in case["items"]]
    return [list(case.get("s", []))]


def c07_prop_unescape(case, observed, expected):
    """KF_C07_PropUnescape: backslash or percent in the text, and the code did
    exactly what the pinned parts() pre-unescape mirror does."""
    return bool(case.get("impl_equal")) and any(92 in i or 37 in i for i in _items(case))


def c07_bom(case, observed, expected):
    its = _items(case)
    return bool(case.get("impl_equal")) and bool(its) and bool(its[0]) and its[0][0] == 65279


def c07_list_comma(case, observed, expected):
    return bool(case.get("impl_equal")) and any(44 in i for i in _items(case))


# ---------------------------------------------------------------- C08 / C05
def _pvals(case):
    return [v for p in case.get("c", {}).get("ps", []) for v in p["vals"]]


def c08_param_backslash_pct(case, observed, expected):
    """KF_C08_Unescape: a parameter value contains a backslash or a percent sign and the
    code did exactly what the pinned parts() placeholder mechanism does."""
    return bool(case.get("impl_equal")) and any(92 in v or 37 in v for v in _pvals(case))


def c05_value_unescape(case, observed, expected):
    """value text altered by the parts() placeholder mechanism (C07-K2 / C08-K1 seen from C05)"""
    v = case.get("c", {}).get("v", [])
    return bool(case.get("impl_equal")) and (
        any(92 in x or 37 in x for x in _pvals(case)) or 92 in v or 37 in v or (v[:1] == [65279]))


def c05_param_backslash_injection(case, observed, expected):
    if "payload" in case:
        return bool(case.get("param_backslash"))
    return bool(case.get("impl_equal")) and any(92 in x for x in _pvals(case))


# ---------------------------------------------------------------- C20
def c20_pytz_custom_tz_copy(case, observed, expected):
    return (case.get("provider") == "pytz" and case.get("custom_tz") and case.get("how") in ("deepcopy", "pickle")
            and case.get("exc") == "UnknownTimeZoneError")
