"""Predicates naming the input classes of known findings.  Each mirrors a KF_*
operator in spec/Findings.tla (cross-checked by TLC against the model-derived
failure set on the bounded domain).  A predicate receives the failing case,
what was observed and what was expected."""


def _s(case):
    return "".join(map(chr, case.get("s", [])))


def _always(case, observed, expected):
    return True


# ---------------------------------------------------------------- C07
def _items(case):
    if "items" in case:
        return [list(i) for i in case["items"]]
    return [list(case.get("s", []))]


def c07_prop_unescape(case, observed, expected):
    """KF_C07_PropUnescape: backslash or percent in the text, and the code did
    exactly what the pinned parts() pre-unescape mirror does."""
    return bool(case.get("impl_equal")) and any(92 in i or 37 in i for i in _items(case))


def c07_bom(case, observed, expected):
    its = _items(case)
    return bool(case.get("impl_equal")) and bool(its) and bool(its[0]) and its[0][0] == 65279


def c07_list_comma(case, observed, expected):
    return bool(case.get("impl_equal")) and any(44 in i for i in _items(case))
