"""gamma/alpha for the parser cluster (C01, C04, C09): abstract line sequences of
spec/Parser.tla -> concrete iCalendar text -> real parse -> model-shaped tree."""
import random

from icalendar import Component, Calendar, Event
from icalendar.timezone import tzp

STRICT_NAMES = ["X-UNKNOWN", "VTODO", "VJOURNAL", "VFREEBUSY", "VALARM", "X-A.B", "STANDARD"]
KIND_OF = {"VCALENDAR": "CAL", "VEVENT": "EV"}

P_POOL = {
    "SUMMARY": ["SUMMARY:hello world", "SUMMARY;LANGUAGE=en:hello", "summary:lower case name", "SUMMARY:", "SUMMARY;X-P=\"a;b\":q"],
    "DTSTART": ["DTSTART:20240101T100000", "DTSTART;VALUE=DATE:20240101", "DTSTART:20240101T100000Z",
                "DTSTART;TZID=Europe/Berlin:20240101T100000", "DTSTART:20240101"],
    "X-COMMENT": ["X-COMMENT:the end", "X-COMMENT;P=1:x"],
}
# lines that split fine but whose value is in none of the DATE / DATE-TIME / TIME / DURATION / PERIOD grammars
# (and that the lenient decoders also refuse: "P" or a 7-digit text would be accepted)
PB_POOL = ["DTSTART:garbage", "DTSTART:2024", "DTSTART:20241301T000000", "DTSTART:20240101T250000",
           "DTSTART:20240101T100000X", "DTSTART:20240101T100000/garbage", "DTSTART;TZID=Europe/Berlin:2024-01-01",
           # multi-valued lines in which only a LATER item is bad: the whole line is dropped, nothing of it stays behind
           "FREEBUSY:20240101T000000Z/PT1H,garbage", "FREEBUSY:20240101T000000Z/PT1H,20240102T000000Z/PT1H,x/y",
           "RDATE:20240101T000000,garbage", "EXDATE;VALUE=DATE:20240101,2024", "RDATE;VALUE=PERIOD:20240101T000000Z/PT1H,x/y"]
J_POOL = ["NOCOLONHERE", ":novalue", "A B:x", "X;:v", "X;P:v", 'X;P="a:v', "=:x", "X;P=a\x01b:v", "Ünï code:x" if False else "A,B:x",
          # lines made of white space that is not SP/HTAB-only-at-line-start (a fold): they are junk like any other junk
          "\x0c", "\x1f", "\u00a0", "\u2003\u3000", "\x0b \x0c"]


def kind(name):
    return KIND_OF.get(name, "X")


def concretise(x, rnd, mismatch=0.2, hostile=None):
    """abstract line sequence -> list of concrete lines"""
    lines = []
    stack = []
    for ln in x:
        k = ln["k"]
        if k == "B":
            name = {"CAL": "VCALENDAR", "EV": "VEVENT"}.get(ln["c"]) or rnd.choice(STRICT_NAMES)
            stack.append(name)
            word = "BEGIN" if rnd.random() < 0.8 else rnd.choice(["begin", "Begin"])
            lines.append(f"{word}:{name if rnd.random() < 0.8 else name.lower()}")
        elif k == "E":
            name = stack.pop() if stack else "VEVENT"
            if rnd.random() < mismatch:
                name = rnd.choice(["VCALENDAR", "VEVENT", "X-OTHER", "VTODO"])
            lines.append(f"END:{name}")
        elif k == "P" or k == "XC":
            lines.append(rnd.choice(P_POOL[ln["n"]]))
        elif k == "PB":
            lines.append(rnd.choice(PB_POOL))
        elif k == "J":
            lines.append(rnd.choice(J_POOL))
    return lines


def real_parse(text, multiple):
    """-> ("err", "ValueError") | ("exc", name) | ("ok", [components])"""
    try:
        r = Component.from_ical(text, multiple=multiple)
    except ValueError:
        return ("err", "ValueError")
    except Exception as e:   # noqa: BLE001
        return ("exc", type(e).__name__ + ":" + str(e)[:80])
    return ("ok", r if multiple else [r])


def alpha_tree(c):
    props = []
    for k, v in c.items():
        vals = v if isinstance(v, list) else [v]
        for _ in vals:
            props.append([k.upper(), "v1"])
    # the model's bad-value line is named DTSTART; its multi-valued concretisations carry other names
    alias = {"FREEBUSY": "DTSTART", "RDATE": "DTSTART", "EXDATE": "DTSTART"}
    return {"name": kind(c.name), "props": props, "errs": [alias.get((e[0] or "").upper(), e[0] or "") for e in c.errors],
            "kids": [alpha_tree(s) for s in c.subcomponents]}


def same_tree(a, b):
    """Parser!Same on JSON-shaped trees (names, per-name value sequences, nesting)"""
    if a["name"] != b["name"] or len(a["kids"]) != len(b["kids"]):
        return False
    names = {p[0] for p in a["props"]} | {p[0] for p in b["props"]}
    for n in names:
        if [p for p in a["props"] if p[0] == n] != [p for p in b["props"] if p[0] == n]:
            return False
    return all(same_tree(x, y) for x, y in zip(a["kids"], b["kids"]))


def full_alpha(c):
    """typed projection for round-trip comparison: name, properties (name, type, params, encoded value), kids"""
    props = []
    for k in sorted(c.keys()):
        v = c[k]
        vals = v if isinstance(v, list) else [v]
        for x in vals:
            try:
                enc = x.to_ical() if hasattr(x, "to_ical") else repr(x)
            except Exception as e:   # noqa: BLE001
                enc = "EXC:" + type(e).__name__
            if isinstance(enc, bytes):
                enc = enc.decode("utf-8", "replace")
            prm = sorted((pk, pv if isinstance(pv, str) else list(pv)) for pk, pv in getattr(x, "params", {}).items())
            props.append([k, type(x).__name__, prm, enc, native(x)])
    return {"name": c.name, "props": props, "kids": [full_alpha(s) for s in c.subcomponents]}


def native(x):
    """the decoded Python value itself (not its encoding): two values with the same text but different
    native values -- e.g. floats that were rounded on output -- must not compare equal"""
    try:
        if hasattr(x, "latitude"):
            return [float(x.latitude).hex(), float(x.longitude).hex()]
        if isinstance(x, float):
            return float(x).hex()
        if hasattr(x, "dts"):
            return [repr(d.dt) for d in x.dts]
        if hasattr(x, "cats"):
            return [str(c) for c in x.cats]
        if hasattr(x, "dt"):
            return repr(x.dt)
        if hasattr(x, "td"):
            return repr(x.td)
        if isinstance(x, dict):
            return repr(sorted((k, repr(v)) for k, v in x.items()))
        if isinstance(x, str):
            return ["s", str.__str__(x)]          # the characters themselves (known-finding predicates look at them)
        if isinstance(x, int):
            return repr(x)
        if hasattr(x, "obj"):
            return repr(x.obj)
    except Exception as e:   # noqa: BLE001
        return "EXC:" + type(e).__name__
    return repr(type(x).__name__)


def stability(comp):
    """parse -> serialise -> parse -> serialise on one accepted component.
    -> None if stable, else a dict describing the first failing clause"""
    try:
        b1 = comp.to_ical()
    except ValueError:
        return None       # refused: permitted outcome (C04 deals with the exception class)
    except Exception as e:   # noqa: BLE001
        return {"clause": "serialise-raises", "exc": type(e).__name__}
    r = real_parse(b1, False)
    if r[0] != "ok":
        return {"clause": "reparse-rejected", "how": r[1], "b1": b1.decode("utf-8", "replace")[:300]}
    c2 = r[1][0]
    a1, a2 = full_alpha(comp), full_alpha(c2)
    if a1 != a2:
        return {"clause": "tree-changed", "a1": a1, "a2": a2}
    try:
        b2 = c2.to_ical()
    except Exception as e:   # noqa: BLE001
        return {"clause": "serialise-raises-2", "exc": type(e).__name__}
    if b2 != b1:
        return {"clause": "bytes-changed", "b1": b1.decode("utf-8", "replace")[:300], "b2": b2.decode("utf-8", "replace")[:300]}
    # a third trip, and serialising the SAME objects again: nothing happens only the second time
    try:
        if comp.to_ical() != b1 or c2.to_ical() != b2:
            return {"clause": "bytes-changed", "b1": b1.decode("utf-8", "replace")[:300], "b2": "(the same object serialised twice)"}
    except Exception as e:   # noqa: BLE001
        return {"clause": "serialise-raises-2", "exc": type(e).__name__}
    r3 = real_parse(b2, False)
    if r3[0] != "ok":
        return {"clause": "reparse-rejected", "how": r3[1], "b1": b2.decode("utf-8", "replace")[:300]}
    a3 = full_alpha(r3[1][0])
    if a3 != a2:
        return {"clause": "tree-changed", "a1": a2, "a2": a3}
    return None
