"""Process-history preludes.

Every property is quantified over histories: what a check observes must not depend on what the process did
before.  `warm(ctx)` is called at the start of every check and exercises, in an order derived from the seed,
the places where the library keeps (or could keep) process-wide or class-level state: canonical-order lookups
on the bare mapping classes, the component factory, both time zone providers, the VTIMEZONE cache (incl. an
IANA id written with a leading slash and deliberately simplified rules), generated VTIMEZONEs, parameters
attached through the API to list values, parses of parameter-less lines whose Parameters are then edited,
failing calls (malformed text, a lone surrogate in a folded line, a second parent for an Alarms object).

On a tree where the properties hold this changes nothing that a check observes; the FRESH step compares
with views computed in an interpreter that has no history at all.
"""
import random
from datetime import date, datetime, timedelta

SLASH_VTZ = ("BEGIN:VCALENDAR\r\nVERSION:2.0\r\nPRODID:prelude\r\nBEGIN:VTIMEZONE\r\nTZID:/%s\r\nBEGIN:STANDARD\r\nDTSTART:19700101T000000\r\n"
             "TZOFFSETFROM:+0500\r\nTZOFFSETTO:+0500\r\nTZNAME:PRELUDE\r\nEND:STANDARD\r\nEND:VTIMEZONE\r\nBEGIN:VEVENT\r\nUID:p\r\n"
             "DTSTART;TZID=/%s:20240101T100000\r\nEND:VEVENT\r\nEND:VCALENDAR\r\n")


def slash_zones(zones):
    """parse, for each IANA id, a calendar whose VTIMEZONE names it with a leading slash and gives it deliberately wrong
    (fixed +05:00) rules: the provider's own zone of that name must not be affected.  To be called after a provider switch
    (which empties the VTIMEZONE cache)."""
    from icalendar import Calendar
    for z in zones:
        try:
            Calendar.from_ical(SLASH_VTZ % (z, z))
        except ValueError:
            pass


def warm(ctx):
    from icalendar import Calendar, Event, Todo, Alarm, Component, Timezone, vRecur
    from icalendar.caselessdict import CaselessDict
    from icalendar.parser import Parameters, Contentline, Contentlines, foldline
    from icalendar.alarms import Alarms
    from icalendar.timezone import tzp
    rnd = random.Random(ctx.seed * 7919 + 13)

    def bare_sorts():
        for cls in (CaselessDict, Component, Parameters):
            o = cls()
            o["zeta"] = "1"
            o["alpha"] = "2"
            o.sorted_keys()
            o.sorted_items()
        Component().to_ical()

    def generic_component():
        c = Component.from_ical("BEGIN:X-PRELUDE\r\nSUMMARY:s\r\nCATEGORIES:b,a\r\nBEGIN:X-INNER\r\nUID:1\r\nEND:X-INNER\r\nEND:X-PRELUDE\r\n")
        c.to_ical()
        c.to_ical(sorted=False)

    def slash_zone():
        for z in ("Europe/Vienna", "Europe/Berlin", "America/New_York"):
            try:
                Calendar.from_ical(SLASH_VTZ % (z, z))
            except ValueError:
                pass

    def providers():
        for p in ("pytz", "zoneinfo", "pytz", "zoneinfo"):
            tzp.use(p)
            tzp.timezone("Europe/Berlin")
            tzp.timezone("Nowhere/Unknown")
            Timezone.from_tzid("Europe/Berlin", first_date=date(2020, 1, 1), last_date=date(2022, 1, 1))
        tzp.use_default()

    def api_parameters():
        e = Event()
        e.add("rdate", [datetime(2024, 1, 1, 10), datetime(2024, 1, 2, 10)], parameters={"X-PRELUDE": "leak?", "TZID": "Europe/Vienna"})
        e.add("exdate", [date(2024, 1, 1)], parameters={"X-PRELUDE": "leak?"})
        e.add("attendee", "mailto:p@example.com", parameters={"CN": "Prelude", "MEMBER": ["a", "b"]})
        e.add("rrule", {"freq": "daily", "byday": ["MO"], "x-prelude": ["1"]})
        e.add("categories", ["x", "y"])
        e.to_ical()

    def edited_parse_results():
        e = Component.from_ical("BEGIN:VEVENT\r\nSUMMARY:no params\r\nUID:u\r\nRRULE:FREQ=WEEKLY;BYDAY=MO\r\nCATEGORIES:a,b\r\nEND:VEVENT\r\n")
        for k in list(e.keys()):
            v = e[k]
            if hasattr(v, "params"):
                v.params["X-PRELUDE"] = "edited"
        e["RRULE"]["BYDAY"].append("TU")
        e["CATEGORIES"].cats.append("edited")
        n, p, v = Contentline("SUMMARY:plain").parts()
        p["X-PRELUDE"] = "edited"
        Parameters.from_ical("A=1")["X-PRELUDE"] = "edited"
        r = vRecur.from_ical("FREQ=DAILY;COUNT=2")
        r["COUNT"].append(9)
        try:
            r["BYDAY"]
        except KeyError:
            pass

    def failing_calls():
        for bad in ("BEGIN:VEVENT\r\nno colon\r\n", "garbage", "BEGIN:VTODO\r\nDTSTART:x\r\nEND:VTODO\r\n", "END:VEVENT\r\n"):
            try:
                Todo.from_ical(bad)
            except ValueError:
                pass
        for bad in ("x=\"", "=", "A=1;A"):
            try:
                Parameters.from_ical(bad)
            except ValueError:
                pass
        try:
            foldline("é" * 40 + "\ud800" + "é" * 60)
        except (UnicodeError, AssertionError):
            pass
        try:
            Contentlines([Contentline("SUMMARY:é\ud800")]).to_ical()
        except (UnicodeError, AssertionError):
            pass
        a, b = Event(), Event()
        for ev in (a, b):
            ev.add("dtstart", datetime(2024, 1, 1, 10))
            al = Alarm()
            al.add("trigger", timedelta(minutes=-5))
            ev.add_component(al)
        alarms = Alarms(a)
        try:
            alarms.add_component(b)
        except ValueError:
            pass
        try:
            vRecur.from_ical("FREQ")
        except ValueError:
            pass
        try:
            Timezone.from_tzid("Nowhere/Unknown")
        except Exception:   # noqa: BLE001
            pass

    steps = [bare_sorts, generic_component, slash_zone, providers, api_parameters, edited_parse_results, failing_calls]
    rnd.shuffle(steps)
    failed = []
    for s in steps:
        try:
            s()
        except Exception as e:   # noqa: BLE001  (a prelude step is workload, not a check)
            failed.append(f"{s.__name__}: {type(e).__name__}")
    tzp.use_default()
    if failed:
        ctx.notes.append("prelude steps that raised: " + "; ".join(failed))
    ctx.notes.append("process-history prelude executed: " + ", ".join(s.__name__ for s in steps))
