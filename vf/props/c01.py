"""C01 — parse, serialise, parse of any accepted calendar is stable and lossless.

MC      spec/MC_Parser: InvStable (Parse(Emit(Parse(x))) ~ Parse(x), Emit idempotent afterwards) on
        every abstract line sequence; spec/MC_CalendarGen: well-formed calendars with a carried
        denotation and nondeterministic rendering choices.
REPLAY  accepted sequences concretised and run through parse -> to_ical -> parse -> to_ical on the
        real code (typed projection of the tree incl. parameters, bytes); generated well-formed
        calendars must parse to exactly the denotation TLC carried.
RECORD  the repository's fixture calendars and delimiter-token mutations of them, run through the
        same four-step round trip (the comparison of two typed projections is a plain equality;
        the value-level Ref lives in C03/C05/C07/C08, whose known classes surface here as C01-K*).
"""
import glob
import os
import random

from vf.core import Ctx, cfg_text, main_wrapper, Machinery, REPO
from vf import parsercommon as pc
from vf import calgen
from icalendar import Component
from icalendar.timezone import tzp


def L(s):
    return [ord(c) for c in s]


def changed_lines(st):
    """the first differing pair of wire lines between b1 and b2 (for the trace spec)"""
    if "b1" in st and "b2" in st:
        l1, l2 = st["b1"].split("\r\n"), st["b2"].split("\r\n")
        for a, b in zip(l1, l2):
            if a != b:
                return a, b
    return None


def first_diff(a1, a2, path="/"):
    if a1["name"] != a2["name"]:
        return {"path": path, "what": "name", "a": a1["name"], "b": a2["name"]}
    if a1["props"] != a2["props"]:
        for p, q in zip(a1["props"], a2["props"]):
            if p != q:
                return {"path": path, "what": "prop", "a": p, "b": q}
        n1, n2 = len(a1["props"]), len(a2["props"])
        if n1 > n2:      # the second parse lost the trailing property
            return {"path": path, "what": "prop", "a": a1["props"][n2], "b": None}
        return {"path": path, "what": "prop-count", "a": n1, "b": n2}
    if len(a1["kids"]) != len(a2["kids"]):
        return {"path": path, "what": "kids", "a": len(a1["kids"]), "b": len(a2["kids"])}
    for i, (x, y) in enumerate(zip(a1["kids"], a2["kids"])):
        d = first_diff(x, y, f"{path}{i}/")
        if d:
            return d
    return None


def check_stability(ctx, comp, case):
    st = pc.stability(comp)
    if st is None:
        return
    detail = {"clause": st["clause"]}
    if st["clause"] == "tree-changed":
        detail["diff"] = first_diff(st["a1"], st["a2"])
    else:
        detail.update({k: v for k, v in st.items() if k != "clause"})
    ctx.fail("P:C01:stable-" + st["clause"], {**case, "diff": detail.get("diff")}, detail, None)


def run(ctx: Ctx):
    rnd = random.Random(ctx.seed)
    n, en = (5, 4) if ctx.quick else (6, 5)
    r = ctx.mc("MC_Parser", cfg_text(spec="Spec", constants={"MaxLen": n, "EmitLen": en}, invariants=["InvStable", "Vec"]),
               workers=8 if ctx.quick else 14, timeout=6000)
    vecs = [v for v in r.prints if v["multi"][0] == "ok" and v["multi"][1]]
    if len(vecs) < 150:
        raise Machinery(f"too few accepted sequences {len(vecs)}")
    ctx.sample(vecs[len(vecs) // 2])
    try:
        for prov in ("zoneinfo", "pytz"):
            tzp.use(prov)
            for v in (vecs if prov == "zoneinfo" else vecs[::3]):
                x = v["x"]
                ctx.case((prov, repr(x)), sum(1 for t in x if t["k"] in ("P", "XC")) > 0)
                lines = pc.concretise(x, rnd)
                text = "\r\n".join(lines) + "\r\n"
                res = pc.real_parse(text, True)
                if res[0] != "ok":
                    continue        # outcome conformance is C04's subject
                for comp in res[1]:
                    check_stability(ctx, comp, {"x": x, "text": text, "provider": prov})
    finally:
        tzp.use_default()

    # ------------------------------------------------------------- well-formed generated calendars
    calgen.run_generated(ctx, rnd, "C01")

    # ------------------------------------------------------------- fold alignment
    # a delimiter / escape / multi-octet character at every column around the 75-octet fold, in a value and in a
    # parameter: the serialiser folds there, the second parse must see the same value
    specials = ["\r", " ", "\t", "\\\\", "\\,", "\\;", "\\n", "\u00e9", "\U0001F600", '"', ":", ";", ",", "%", "^", "\u0301"]
    try:
        for prov in ("zoneinfo", "pytz") if not ctx.quick else ("zoneinfo",):
            tzp.use(prov)
            for ch in specials:
                for n in range(50, 80):
                    texts = ["BEGIN:VEVENT\r\nDESCRIPTION:" + "x" * n + ch + "yz\r\nEND:VEVENT\r\n"]
                    if ch not in ('"', "\r"):
                        texts.append("BEGIN:VTODO\r\nATTENDEE;CN=\"" + "x" * n + ch.replace("\\\\", "\\") + "y\":mailto:a@example.com\r\nEND:VTODO\r\n")
                    for text in texts:
                        ctx.case(("align", prov, text), True)
                        res = pc.real_parse(text, True)
                        if res[0] != "ok":
                            continue
                        for comp in res[1]:
                            check_stability(ctx, comp, {"align": [ch, n], "provider": prov, "text": text})
    finally:
        tzp.use_default()

    # ------------------------------------------------------------- fixtures and delimiter mutations
    files = sorted(glob.glob(str(REPO / "src/icalendar/tests/*/*.ics")))
    if len(files) < 50:
        raise Machinery("fixtures missing")
    toks = ["\\", ";", ":", ",", '"', "%", "2", "C", "n", "N", "^", "=", "\\\\", "\\n", "\\,", "%2C", "%5C", "\\;"]
    nmut = 2 if ctx.quick else 30
    try:
        for prov in ("zoneinfo", "pytz"):
            tzp.use(prov)
            for f in files:
                raw = open(f, "rb").read()
                try:
                    base = raw.decode("utf-8")
                except UnicodeDecodeError:
                    continue
                variants = [base]
                if len(base) < 20000:
                    for _ in range(nmut if prov == "zoneinfo" else 1):
                        t = base
                        for _ in range(rnd.randint(1, 3)):
                            pos = rnd.randrange(0, len(t) + 1)
                            t = t[:pos] + rnd.choice(toks) + t[pos:]
                        variants.append(t)
                for k, text in enumerate(variants):
                    res = pc.real_parse(text, True)
                    ctx.case((prov, os.path.basename(f), k, text), k > 0)
                    if res[0] != "ok":
                        continue
                    for comp in res[1]:
                        check_stability(ctx, comp, {"file": os.path.basename(f), "mutation": k, "provider": prov,
                                                    "text": text if k else None})
    finally:
        tzp.use_default()
    ctx.assumptions += [
        "typed values are compared through (property name, value class, parameters, encoded value)",
        "serialisation refused with ValueError is a permitted outcome (C04/C05)",
    ]
    # ------------------------------------------------------------- SUITE: calls observed in the repository's own tests
    from vf import suite
    suite.step(ctx, "parts", ["P:C01"])
    # ------------------------------------------------------------- FRESH: history independence of returned objects (spec/Fresh.tla)
    from vf import fresh
    fresh.step(ctx, "C01")
    return ctx.finish(rule=(
        "accepted abstract line sequences (<= 4/5 lines) concretised with several spellings; generated well-formed calendars with "
        "carried denotation; all fixture calendars and delimiter-token mutations of them, both providers; non-trivial = contains "
        "a property line / is a mutation"))


if __name__ == "__main__":
    main_wrapper(run, "C01")
