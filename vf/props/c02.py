"""C02 — a calendar built through the API survives serialise and parse intact.

MC      spec/MC_PropertyTypes: the RFC 5545 property table (default type, alternative types,
        list-valued, UTC-only) x the value kinds the API accepts; every admissible cell with the
        facts the wire must show (VALUE needed?, TZID needed?, Z suffix?).
REPLAY  every cell x parameter shape x construction route (add, item assignment, property
        setters, nested in a parent component): built with the real API, serialised, the emitted
        line projected (name, VALUE, TZID, Z), parsed back and compared with the supplied value.
VALIDATE spec/Trace_PropertyTypes: LineOK (VALUE / TZID rule), name/order, parameters, value
        equality, decoded RFC type -- evaluated by TLC for every recorded property.
"""
import random
import re
from datetime import date, datetime, timedelta
from zoneinfo import ZoneInfo

from vf.core import Ctx, cfg_text, main_wrapper, Machinery
from vf.realcode import unfold_lines
from icalendar import Calendar, Event, Todo, Alarm, FreeBusy, Timezone, TimezoneStandard, Journal, Component
from icalendar.prop import (vBinary, vRecur, vText, vInt, vGeo, vDDDTypes, vDDDLists, vPeriod, vUTCOffset, vUri,
                            vCalAddress, vCategory, vDuration, vDatetime, vDate)
from icalendar.timezone import tzp

UTC = ZoneInfo("UTC")
KEY = "Europe/Berlin"


def value_of(kind):
    z = lambda *a: tzp.localize(datetime(*a), KEY)   # noqa: E731
    u = lambda *a: datetime(*a, tzinfo=UTC)          # noqa: E731
    return {
        "text": "Meeting, room; A: ünï", "text-list": ["alpha", "b c", "delta"], "int": 5, "geo": (37.386013, -122.082932),
        "date": date(2024, 2, 29), "date-list": [date(2024, 1, 5), date(2024, 1, 6)],
        "dt-naive": datetime(2024, 1, 1, 10, 0, 5), "dt-utc": u(2024, 1, 1, 10), "dt-zoned": z(2024, 7, 1, 10),
        "dt-list-zoned": [z(2024, 7, 1, 10), z(2024, 12, 1, 10)], "dt-list-utc": [u(2024, 7, 1, 10), u(2024, 7, 2, 10)],
        "duration": timedelta(hours=1, minutes=30),
        "period-utc": (u(2024, 1, 5, 10), timedelta(hours=1)), "period-zoned": (z(2024, 1, 5, 10), z(2024, 1, 5, 11)),
        "period-list-utc": [(u(2024, 1, 5, 10), timedelta(hours=1)), (u(2024, 1, 6, 10), u(2024, 1, 6, 11))],
        "recur": {"freq": "weekly", "byday": ["MO", "-1FR"], "count": 3, "interval": 2, "bysecond": [0, 59], "byminute": [30], "byhour": [9, 17],
                  "byweekno": [20, -1], "bymonthday": [1, -1], "byyearday": [100, -1], "bymonth": [3, 11], "bysetpos": [1, -1], "wkst": "SU"},
        "utc-offset": timedelta(hours=-4, minutes=-30), "uri": "http://example.com/a?b=c#d",
        "cal-address": "mailto:jane_doe@example.com", "binary": vBinary("hello binary"),
    }[kind]


def comp_for(name):
    if name in ("CALSCALE", "METHOD", "PRODID", "VERSION"):
        return Calendar()
    if name in ("TRIGGER", "ACTION", "REPEAT", "ACKNOWLEDGED"):
        return Alarm()
    if name in ("TZOFFSETFROM", "TZOFFSETTO", "TZNAME"):
        return TimezoneStandard()
    if name in ("TZID", "TZURL"):
        return Timezone()
    if name == "FREEBUSY":
        return FreeBusy()
    if name in ("DUE", "COMPLETED", "PERCENT-COMPLETE"):
        return Todo()
    return Event()


SETTER = {"DTSTART": "DTSTART", "DTEND": "DTEND", "DUE": "DUE", "DURATION": "DURATION", "TRIGGER": "TRIGGER",
          "DTSTAMP": "DTSTAMP", "LAST-MODIFIED": "LAST_MODIFIED", "ACKNOWLEDGED": "ACKNOWLEDGED"}


def rfc_type(v):
    if isinstance(v, list):
        ts = {rfc_type(x) for x in v}
        return ts.pop() if len(ts) == 1 else "MIXED"
    if isinstance(v, vDDDLists):
        ts = {rfc_type(x) for x in v.dts}
        return ts.pop() if len(ts) == 1 else "MIXED"
    if isinstance(v, (vDDDTypes, vPeriod, vDatetime, vDate, vDuration)):
        d = v.dt
        if isinstance(d, datetime):
            return "DATE-TIME"
        if isinstance(d, date):
            return "DATE"
        if isinstance(d, timedelta):
            return "DURATION"
        if isinstance(d, tuple):
            return "PERIOD"
    for cls, t in ((vCategory, "TEXT"), (vText, "TEXT"), (vInt, "INTEGER"), (vGeo, "GEO"), (vRecur, "RECUR"), (vUTCOffset, "UTC-OFFSET"),
                   (vUri, "URI"), (vCalAddress, "CAL-ADDRESS"), (vBinary, "BINARY")):
        if isinstance(v, cls):
            return t
    return type(v).__name__


def tzkey(d):
    return getattr(d.tzinfo, "key", None) or getattr(d.tzinfo, "zone", None)


def same_dt(a, b):
    if type(a) is not type(b):
        return False
    if isinstance(a, datetime):
        return a.replace(tzinfo=None) == b.replace(tzinfo=None) and a.utcoffset() == b.utcoffset() and \
            (a.tzinfo is None or tzkey(a) == tzkey(b))
    if isinstance(a, tuple):
        return len(a) == len(b) and all(same_dt(x, y) for x, y in zip(a, b))
    return a == b


def equal_value(kind, supplied, got):
    """got: the value object(s) read back from the parsed component"""
    try:
        if isinstance(got, vDDDLists) and kind in ("date", "dt-naive", "dt-utc", "dt-zoned", "period-utc", "period-zoned"):
            return len(got.dts) == 1 and same_dt(supplied, got.dts[0].dt)
        if kind == "text":
            if isinstance(got, vCategory):
                return [str(c) for c in got.cats] == [supplied]
            return str.__str__(got) == supplied
        if kind == "text-list":
            if isinstance(got, vCategory):
                return [str(c) for c in got.cats] == supplied
            return [str.__str__(x) for x in (got if isinstance(got, list) else [got])] == supplied
        if kind == "int":
            return int(got) == supplied and isinstance(got, int)
        if kind == "geo":
            return (got.latitude, got.longitude) == supplied
        if kind in ("date", "dt-naive", "dt-utc", "dt-zoned", "duration", "period-utc", "period-zoned"):
            return same_dt(supplied, got.dt)
        if kind in ("date-list", "dt-list-zoned", "dt-list-utc", "period-list-utc"):
            vals = []
            for g in (got if isinstance(got, list) else [got]):
                vals += [x.dt for x in g.dts] if isinstance(g, vDDDLists) else [g.dt]
            return len(vals) == len(supplied) and all(same_dt(a, b) for a, b in zip(supplied, vals))
        if kind == "recur":
            want = {"FREQ": ["WEEKLY"], "BYDAY": ["MO", "-1FR"], "COUNT": [3], "INTERVAL": [2], "BYSECOND": [0, 59], "BYMINUTE": [30], "BYHOUR": [9, 17],
                    "BYWEEKNO": [20, -1], "BYMONTHDAY": [1, -1], "BYYEARDAY": [100, -1], "BYMONTH": [3, 11], "BYSETPOS": [1, -1], "WKST": ["SU"]}
            # the decoded parts are the supplied values AND of the supplied kinds (an integer part does not come back as text)
            return dict(got) == want and all(isinstance(x, int) for k_, v_ in got.items() if k_ not in ("FREQ", "BYDAY", "WKST") for x in v_)
        if kind == "utc-offset":
            return got.td == supplied
        if kind in ("uri", "cal-address"):
            return str.__str__(got) == supplied
        if kind == "binary":
            return isinstance(got, vBinary) and got.obj == supplied.obj
    except Exception:   # noqa: BLE001
        return False
    return False


PARAM_SHAPES = [{}, {"X-P": "v"}, {"X-LIST": ["a", "b"]}, {"X-Q": "a;b,c:d"}, {"x-lower": "Mixed Case"},
                # sequences that are escapes in RFC 6868 / URL encoding are plain text in RFC 5545 parameter values
                {"X-C": "x^n y^^ z^' 100%41"}]


def split_params(head):
    out = {}
    for m in re.finditer(r';([A-Za-z0-9-]+)=((?:"[^"]*"|[^";:,]*)(?:,(?:"[^"]*"|[^";:,]*))*)', head):
        out[m.group(1).upper()] = m.group(2)
    return out


def wire_facts(b, name):
    """(VALUE, TZID, z, nlines) of the line(s) of property `name` in serialised bytes"""
    lines = [ln for ln in unfold_lines(b) if re.match(r"^" + re.escape(name) + r"[;:]", ln, re.I)]
    vals, tzs, zs = set(), set(), []
    for ln in lines:
        m = re.match(r'^([A-Za-z0-9-]+)((?:;[A-Za-z0-9-]+=(?:"[^"]*"|[^";:,]*)(?:,(?:"[^"]*"|[^";:,]*))*)*):(.*)$', ln, re.S)
        if not m:
            return None
        ps = split_params(m.group(2))
        vals.add(ps.get("VALUE", ""))
        tzs.add(ps.get("TZID", "").strip('"'))
        dts = re.findall(r"\d{8}T\d{6}Z?", m.group(3))
        zs.append(bool(dts) and all(x.endswith("Z") for x in dts))
    if not lines:
        return None
    return {"value": vals.pop() if len(vals) == 1 else "MIXED", "tzid": tzs.pop() if len(tzs) == 1 else "MIXED",
            "z": all(zs), "lines": len(lines)}


def observe(n, k, route, pshape, nested, rnd):
    supplied = value_of(k)
    if n in ("CATEGORIES", "RESOURCES") and k == "text":
        supplied = "Meeting room; A: ünï"      # a comma inside a list item is C07-K4's subject
    comp = comp_for(n)
    if isinstance(comp, Timezone):
        std = TimezoneStandard()
        std.add("dtstart", datetime(1970, 10, 25, 3))
        std.add("tzoffsetfrom", timedelta(hours=2))
        std.add("tzoffsetto", timedelta(hours=1))
        comp.add_component(std)
        if n == "TZID":
            supplied, pshape = "Custom/Zone-1", None   # dateutil's VTIMEZONE reader accepts no parameters on TZID
    key = n.lower() if rnd.random() < 0.5 else n
    params = dict(pshape) if pshape else None
    import copy as _copy
    handed = supplied                      # the object handed to the API ...
    try:
        supplied = _copy.deepcopy(supplied)    # ... is compared as it was AT the call (the API must not be able to edit the expectation)
    except Exception:   # noqa: BLE001
        supplied = handed
    handed_params = params
    if route in ("setter", "item") and rnd.random() < 0.5:
        # the slot was in use before: a value of ANOTHER kind with parameters of its own is replaced; nothing of it survives
        prev = {"DTSTART": tzp.localize(datetime(2020, 2, 2, 2, 2), "America/New_York"), "DTEND": tzp.localize(datetime(2020, 2, 2, 3, 2), "America/New_York"),
                "DUE": date(2020, 2, 2), "TRIGGER": datetime(2020, 2, 2, 2, 2, tzinfo=UTC), "DURATION": timedelta(days=3)}.get(n)
        if prev is not None:
            try:
                if route == "setter":
                    setattr(comp, SETTER[n], prev)
                else:
                    comp[n] = Component._encode(n, prev, {"X-OLD": "stale"})
                comp[n].params["X-OLD"] = "stale"
            except Exception:   # noqa: BLE001  (not every kind is accepted by every slot)
                comp.pop(n, None)
    if route == "setter":
        setattr(comp, SETTER[n], handed)
        if params:
            for pk, pv in params.items():
                comp[n].params[pk] = pv
    elif route == "item":
        if isinstance(handed, list) and n not in ("RDATE", "EXDATE", "CATEGORIES"):
            obj = [Component._encode(n, v, params) for v in handed]
        else:
            obj = Component._encode(n, handed, params)
        comp[key] = obj
    else:
        comp.add(key, handed, parameters=params)
    root = comp
    if nested:
        root = Calendar() if not isinstance(comp, (Alarm, TimezoneStandard)) else (Event() if isinstance(comp, Alarm) else Timezone())
        root.add_component(Journal())
        root.add_component(comp)
    b = root.to_ical()
    wf = wire_facts(b, n)
    back_root = type(root).from_ical(b)
    back = back_root.subcomponents[1] if nested else back_root
    if isinstance(comp, Timezone) and not nested:
        back.subcomponents.clear()
    ok_nest = (not nested) or (len(back_root.subcomponents) == 2 and back_root.subcomponents[1].name == comp.name)
    got = back.get(n)
    same_name = ok_nest and got is not None and list(back.keys()) == [n] and not back.errors and \
        (nested or isinstance(comp, Timezone) or not back.subcomponents)
    vals = got if isinstance(got, list) else [got]
    want_params = {pk.upper(): pv for pk, pv in (pshape or {}).items()}
    if k == "binary":
        case_extra = None
    same_params = got is not None and all(
        {pk: (list(pv) if isinstance(pv, (list, tuple)) else pv) for pk, pv in getattr(x, "params", {}).items()
         if pk not in ("VALUE", "TZID", "ENCODING")} == want_params for x in vals)
    return {"n": n, "k": k, "value": (wf or {}).get("value", "NOLINE"), "tzid": (wf or {}).get("tzid", "NOLINE"), "z": bool((wf or {}).get("z")),
            "key": KEY, "same_name": bool(same_name), "same_params": bool(same_params),
            "equal_value": bool(got is not None and equal_value(k, supplied, got)),
            "decoded_type": rfc_type(got) if got is not None else "NONE"}


def run(ctx: Ctx):
    rnd = random.Random(ctx.seed)
    r = ctx.mc("MC_PropertyTypes", cfg_text(spec="Spec", invariants=["InvTable", "Vec"]), workers=2, timeout=600)
    cells = r.prints
    if len(cells) < 60:
        raise Machinery(f"too few cells {len(cells)}")
    ctx.sample(cells[len(cells) // 2])
    ev, meta = [], []
    try:
        for prov in ("zoneinfo", "pytz"):
            tzp.use(prov)
            for c in cells:
                n, k = c["n"], c["k"]
                routes = ["add", "item"] + (["setter"] if n in SETTER and not c["list"] else [])
                for route in routes:
                    for pshape in (PARAM_SHAPES if not ctx.quick or prov == "zoneinfo" else PARAM_SHAPES[:2]):
                        for nested in (False, True):
                            case = {"n": n, "k": k, "route": route, "params": pshape, "nested": nested, "provider": prov}
                            ctx.case(repr(case), c["type"] != c["default"] or c["zone"] in ("zoned", "utc") or bool(pshape))
                            try:
                                e = observe(n, k, route, pshape, nested, rnd)
                            except Exception as x:   # noqa: BLE001
                                ctx.fail("P:C02:build-serialise-parse", {**case, "exc": type(x).__name__}, str(x)[:200], None)
                                continue
                            ev.append(e)
                            meta.append(case)
            # multi-valued order
            # a first value that is empty / zero / false must not be lost when the name is added again
            for n, first, rest in (("COMMENT", "", ["b", "c"]), ("X-COUNT", 0, [5, 0]), ("DESCRIPTION", "", [""])):
                comp = Event()
                vals = [first] + rest
                for v in vals:
                    comp.add(n, v if not isinstance(v, int) else vInt(v))
                got = type(comp).from_ical(comp.to_ical()).get(n)
                ctx.evaluations += 1
                back = [str(x) for x in got] if isinstance(got, list) else [str(got)]
                if back != [str(v) for v in vals]:
                    ctx.fail("P:C02:multi-valued-order", {"n": n, "values": vals, "provider": prov}, back, [str(v) for v in vals])
            # early years: four-digit, zero-padded year fields
            for n, v in (("DTSTART", date(987, 6, 5)), ("DTSTART", datetime(45, 1, 2, 3, 4, 5)), ("EXDATE", [date(999, 12, 31)]),
                         ("RDATE", [(datetime(101, 1, 1, 0, 0, tzinfo=UTC), timedelta(hours=1))]), ("DTSTAMP", datetime(800, 2, 29, 1, 2, 3, tzinfo=UTC))):
                comp = Event()
                comp.add(n, v)
                ctx.evaluations += 1
                try:
                    got = Event.from_ical(comp.to_ical()).get(n)
                    ok = got is not None and (same_dt(v, got.dt) if not isinstance(v, list) else
                                              (len(got.dts) == 1 and same_dt(v[0], got.dts[0].dt)))
                except Exception as x:   # noqa: BLE001
                    ok, got = False, type(x).__name__
                if not ok:
                    ctx.fail("P:C02:value-equal", {"n": n, "value": repr(v), "provider": prov, "early_year": True}, repr(got)[:120], None)
            # more than one value per kind: magnitudes and spellings the representative value does not have
            from icalendar.prop import vFloat
            variants = [("GEO", (1 / 81000, -4.5e-07)), ("GEO", (-89.99999999, 179.123456789012)), ("GEO", (0.0, 1e-10)), ("GEO", (6.62607015e-34, 1.5e22)),
                        ("PRIORITY", 0), ("SEQUENCE", 2 ** 31), ("PERCENT-COMPLETE", 100),
                        ("DURATION", timedelta(weeks=-1)), ("DURATION", timedelta(0)), ("DURATION", timedelta(days=1, seconds=1)),
                        ("DURATION", -timedelta(hours=25, seconds=59)), ("TRIGGER", timedelta(seconds=-1)),
                        ("DTSTART", datetime(2024, 12, 31, 23, 59, 59)), ("DTSTART", date(9999, 12, 31)), ("DTSTART", datetime(1, 1, 1, 0, 0, 0, tzinfo=UTC)),
                        ("TZOFFSETTO", timedelta(hours=14)), ("TZOFFSETTO", -timedelta(hours=12, minutes=30, seconds=15)),
                        ("SUMMARY", ""), ("SUMMARY", " leading and trailing "), ("SUMMARY", "tab\tand \u2028 separators"),
                        ("CATEGORIES", ["a", "", "c"]), ("CATEGORIES", ["only"]), ("RESOURCES", ["x y", "z;w"])]
            # values of SUBCLASSES of the documented kinds (a str / int / date / datetime / timedelta subclass is that kind)
            class _S(str):
                pass

            class _I(int):
                pass

            class _D(date):
                pass

            class _DT(datetime):
                pass

            class _TD(timedelta):
                pass
            variants += [("SUMMARY", _S("sub class, text")), ("PRIORITY", _I(3)), ("DTSTART", _D(2024, 1, 2)), ("DTSTART", _DT(2024, 1, 2, 3, 4, 5)),
                         ("DTSTART", _DT(2024, 1, 2, 3, 4, 5, tzinfo=ZoneInfo("Europe/Berlin"))), ("DURATION", _TD(hours=1, seconds=5)),
                         ("TRIGGER", _TD(minutes=-5)), ("LOCATION", _S(""))]
            for n, v in variants:
                comp = comp_for(n)
                ctx.evaluations += 1
                ctx.case(("variant", n, repr(v), prov), True)
                try:
                    comp.add(n, v)
                    got = type(comp).from_ical(comp.to_ical()).get(n)
                    if isinstance(v, tuple) and n == "GEO":
                        ok = (float(got.latitude).hex(), float(got.longitude).hex()) == (float(v[0]).hex(), float(v[1]).hex())
                    elif isinstance(v, vFloat):
                        ok = float(got).hex() == float(v).hex()
                    elif isinstance(v, (vInt, int)) and not isinstance(v, bool):
                        ok = isinstance(got, int) and int(got) == int(v)
                    elif isinstance(v, timedelta):
                        ok = (got.td if hasattr(got, "td") else got.dt) == v
                    elif isinstance(v, datetime):
                        ok = same_dt(datetime(v.year, v.month, v.day, v.hour, v.minute, v.second, tzinfo=v.tzinfo), got.dt)
                    elif isinstance(v, date):
                        ok = same_dt(date(v.year, v.month, v.day), got.dt)
                    elif isinstance(v, list):
                        ok = ([str(c) for c in got.cats] if hasattr(got, "cats") else [str.__str__(x) for x in got]) == v
                    else:
                        ok = str.__str__(got) == v
                except Exception as x:   # noqa: BLE001
                    ok, got = False, type(x).__name__ + ": " + str(x)[:80]
                if not ok:
                    ctx.fail("P:C02:value-equal", {"n": n, "value": repr(v), "provider": prov, "variant": True}, repr(got)[:160], None)
            # tzinfo objects of every family, several of each family one after the other in one process: the value read back
            # is the same instant with the same wall-clock fields (identification of the zone must not depend on what was
            # identified before)
            from dateutil import tz as dtz
            from datetime import timezone as _tz
            import pytz as _pytz
            kinds = [("tzrange-EST", lambda: dtz.tzrange("EST", -18000)), ("tzrange-CET", lambda: dtz.tzrange("CET", 3600)),
                     ("tzrange-CET-CEST", lambda: dtz.tzrange("CET", 3600, "CEST")), ("tzrange-JST", lambda: dtz.tzrange("JST", 32400)),
                     ("tzoffset-3600", lambda: dtz.tzoffset(None, 3600)), ("tzoffset-BRST", lambda: dtz.tzoffset("BRST", -10800)),
                     ("gettz-Vienna", lambda: dtz.gettz("Europe/Vienna")), ("gettz-NewYork", lambda: dtz.gettz("America/New_York")),
                     ("tzstr-EST5EDT", lambda: dtz.tzstr("EST5EDT")), ("stdlib-utc", lambda: _tz.utc), ("stdlib-plus5", lambda: _tz(timedelta(hours=5))),
                     ("stdlib-minus3", lambda: _tz(timedelta(hours=-3))), ("pytz-utc", lambda: _pytz.utc), ("dateutil-UTC", lambda: dtz.UTC),
                     ("zoneinfo-Tokyo", lambda: ZoneInfo("Asia/Tokyo")), ("pytz-fixed-60", lambda: _pytz.FixedOffset(60)),
                     ("stdlib-plus0130", lambda: _tz(timedelta(minutes=90))),
                     # tz database aliases of UTC and fixed-offset zones whose abbreviation is "UTC"/"GMT"/a number
                     ("zoneinfo-Etc/UTC", lambda: ZoneInfo("Etc/UTC")), ("zoneinfo-Zulu", lambda: ZoneInfo("Zulu")),
                     ("zoneinfo-Etc/Universal", lambda: ZoneInfo("Etc/Universal")), ("zoneinfo-UCT", lambda: ZoneInfo("UCT")),
                     ("pytz-Etc/UTC", lambda: _pytz.timezone("Etc/UTC")), ("pytz-Zulu", lambda: _pytz.timezone("Zulu")),
                     ("zoneinfo-GMT", lambda: ZoneInfo("GMT")), ("zoneinfo-Etc/GMT+5", lambda: ZoneInfo("Etc/GMT+5")),
                     ("pytz-Etc/GMT-3", lambda: _pytz.timezone("Etc/GMT-3")), ("zoneinfo-Africa/Abidjan", lambda: ZoneInfo("Africa/Abidjan"))]
            for rounds in range(2 if ctx.quick else 12):
                order = list(kinds)
                rnd.shuffle(order)
                for name, mk in order:
                    z = mk()
                    for wall in (datetime(2024, 7, 1, 12, 0), datetime(2024, 1, 15, 8, 30)):
                        d = wall.replace(tzinfo=z)
                        ctx.evaluations += 1
                        ctx.case(("tzkind", name, prov, wall.month), True)
                        try:
                            comp = Event()
                            comp.add("dtstart", d)
                            comp.add("rdate", [d])
                            back = Event.from_ical(comp.to_ical())
                            g1, g2 = back["DTSTART"].dt, back["RDATE"].dts[0].dt
                            ok = all(g.tzinfo is not None and g == d and g.replace(tzinfo=None) == wall for g in (g1, g2))
                            obs = [repr(g1), repr(g2)]
                        except Exception as x:   # noqa: BLE001
                            ok, obs = False, type(x).__name__ + ": " + str(x)[:80]
                            g1 = None
                        if not ok:
                            ctx.fail("P:C02:zoned-value-equal", {"tzkind": name, "wall": wall.isoformat(), "provider": prov,
                                                                 "naive_back": bool(g1 is not None and g1.tzinfo is None)}, obs, repr(d))
            # a custom VTIMEZONE is a component like any other: every property of it and of its observances (X- ones with
            # parameters included) is read back, whatever the provider does with the definition
            from icalendar import TimezoneDaylight as _TzD
            from vf.parsercommon import full_alpha as _fa
            for tzid_c, with_x in (("Custom/Zone-C02", True), ("Custom Zone 2", True), ("Custom/Plain", False)):
                cal_c = Calendar()
                cal_c.add("prodid", "-//verif//")
                cal_c.add("version", "2.0")
                tz_c = Timezone()
                tz_c.add("tzid", tzid_c)
                if with_x:
                    tz_c.add("x-lic-location", tzid_c)
                for cls_o, st, frm, to, nm, mon in ((TimezoneStandard, datetime(1970, 10, 25, 3), 2, 1, "OFF", 10), (_TzD, datetime(1970, 3, 29, 2), 1, 2, "ON", 3)):
                    o = cls_o()
                    o.add("dtstart", st)
                    o.add("tzoffsetfrom", timedelta(hours=frm))
                    o.add("tzoffsetto", timedelta(hours=to))
                    o.add("tzname", nm)
                    o.add("rrule", {"freq": "yearly", "bymonth": mon, "byday": "-1su"})
                    if with_x:
                        o.add("x-observance-note", "note " + nm, parameters={"X-SRC": "verif"})
                        o.add("comment", "c " + nm)
                    tz_c.add_component(o)
                cal_c.add_component(tz_c)
                ev_c = Event()
                ev_c.add("uid", "1")
                ev_c.add("dtstart", datetime(2024, 7, 1, 12, 0), parameters={"TZID": tzid_c})
                cal_c.add_component(ev_c)
                ctx.evaluations += 1
                ctx.case(("custom-vtimezone", tzid_c, prov), True)
                try:
                    data_c = cal_c.to_ical()
                    back_c = Calendar.from_ical(data_c)
                    def _wire(t):     # names, types, parameters, encodings (the supplied rule is a plain dict: its native form differs by design)
                        return {"name": t["name"], "props": [q[:4] for q in t["props"]], "kids": [_wire(k_) for k_ in t["kids"]]}
                    want_t, got_t = _wire(_fa(cal_c)), _wire(_fa(back_c))
                    # the event's DTSTART comes back zoned (its native value differs by design): compare the VTIMEZONE subtree in full
                    ok = want_t["kids"][0] == got_t["kids"][0] and back_c.to_ical() == data_c
                    obs = [k for k in got_t["kids"][0]["kids"]] if not ok else None
                except Exception as x:   # noqa: BLE001
                    ok, obs = False, type(x).__name__ + ": " + str(x)[:80]
                if not ok:
                    ctx.fail("P:C02:value-equal", {"what": "custom VTIMEZONE subtree", "tzid": tzid_c, "provider": prov}, repr(obs)[:400], None)
            # properties with a UTC-converting setter: a zoned value of any family is stored and read back as the same instant,
            # written in the Z form
            from dateutil import tz as _dtz2
            import pytz as _pytz2
            for attr, wire, cls in (("DTSTAMP", "DTSTAMP", Event), ("LAST_MODIFIED", "LAST-MODIFIED", Todo), ("ACKNOWLEDGED", "ACKNOWLEDGED", Alarm),
                                    ("X_MOZ_SNOOZE_TIME", "X-MOZ-SNOOZE-TIME", Event), ("X_MOZ_LASTACK", "X-MOZ-LASTACK", Todo)):
                for zv in (tzp.localize(datetime(2024, 7, 1, 14, 30, 5), "Europe/Vienna"), datetime(2024, 1, 5, 9, 0, tzinfo=ZoneInfo("America/New_York")),
                           _pytz2.timezone("Asia/Tokyo").localize(datetime(2024, 3, 3, 3, 3, 3)), datetime(2024, 7, 1, 12, 0, tzinfo=_dtz2.tzoffset(None, 3600)),
                           datetime(2024, 7, 1, 12, 0, tzinfo=UTC)):
                    ctx.evaluations += 1
                    ctx.case(("utc-setter", attr, repr(zv), prov), True)
                    comp = cls()
                    try:
                        setattr(comp, attr, zv)
                        b = comp.to_ical()
                        if wire in ("DTSTAMP", "LAST-MODIFIED"):
                            # the same through add(), under every spelling of the name: the RFC requires these in UTC
                            for nm_ in (wire, wire.lower(), wire.title()):
                                c2_ = cls()
                                c2_.add(nm_, zv)
                                ln2 = [ln for ln in unfold_lines(c2_.to_ical()) if ln.upper().startswith(wire)][0]
                                g2 = cls.from_ical(c2_.to_ical())[wire].dt
                                if not (ln2.endswith("Z") and "TZID" not in ln2.upper() and g2.tzinfo is not None and g2 == zv):
                                    ctx.fail("P:C02:value-equal", {"add": nm_, "value": repr(zv), "provider": prov, "cls": cls.__name__}, [ln2, repr(g2)], None)
                        got = getattr(cls.from_ical(b), attr)
                        line = [ln for ln in unfold_lines(b) if ln.upper().startswith(wire)][0]
                        ok = got is not None and got.tzinfo is not None and got == zv and line.endswith("Z") and "TZID" not in line.upper()
                        obs = [line, repr(got)]
                    except Exception as x:   # noqa: BLE001
                        ok, obs = False, type(x).__name__ + ": " + str(x)[:80]
                    if not ok:
                        ctx.fail("P:C02:value-equal", {"setter": attr, "value": repr(zv), "provider": prov, "cls": cls.__name__}, obs, None)
            for n, k in (("COMMENT", "text"), ("ATTENDEE", "cal-address"), ("RDATE", "dt-list-zoned"), ("EXDATE", "date-list"), ("ATTACH", "uri")):
                comp = comp_for(n)
                vals = []
                for i in range(3):
                    v = value_of(k)
                    if isinstance(v, str):
                        v = f"{v}-{i}"
                    elif isinstance(v, list):
                        v = [x + timedelta(days=i) for x in v]
                    vals.append(v)
                    comp.add(n, v)
                back = type(comp).from_ical(comp.to_ical())
                got = back.get(n)
                ctx.evaluations += 1
                ok = isinstance(got, list) and len(got) == 3 and all(equal_value(k, a, b) for a, b in zip(vals, got))
                if not ok:
                    ctx.fail("P:C02:multi-valued-order", {"n": n, "k": k, "provider": prov}, repr(got)[:200], None)
    finally:
        tzp.use_default()
    ctx.sample({"trace_event": ev[0]})
    for idx, clause, known in ctx.validate_trace("Trace_PropertyTypes", ev, cfg_text(spec="Spec"), chunk=20000, timeout=1200):
        if clause.startswith("M:"):
            ctx.drifted(clause, meta[idx])
            continue
        ctx.fail(clause, meta[idx], ev[idx], None)
    ctx.assumptions += [
        "the RFC property table in spec/PropertyTypes.tla is transcribed from RFC 5545 3.7/3.8 and RFC 9074",
        "a redundant VALUE naming the actual type is admissible; a contradicting one is not",
        "one representative Python value per value kind; value-level universality is C03/C07/C11's subject",
    ]
    return ctx.finish(rule=(
        "every RFC-admissible cell (property name x value kind) x 5 parameter shapes x {add, item assignment, setter} x {alone, nested} "
        "x both providers; non-trivial = the value is not of the default type, is zoned/UTC, or carries parameters"))


if __name__ == "__main__":
    main_wrapper(run, "C02")
