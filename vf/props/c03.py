"""C03 — every typed value codec is its own inverse and emits RFC 5545 value grammar.

MC      spec/MC_ValueCodecs: value families per type; InvEnc (mirror encoder text in the grammar
        and denoting the value), InvTexts (every admissible RFC text denotes the value),
        InvClass (grammars disjoint; the vDDDTypes dispatch mirror = grammar membership).
REPLAY  vectors: real encoder vs mirror text; real decoder on every admissible text; real
        classifier.  Everything that differs from the mirror is judged by TLC.
RECORD  random values over the full Python domains of all sixteen value types.
VALIDATE spec/Trace_ValueCodecs: grammar, denotation, round trip, classification per event.
"""
import random
import struct
from datetime import date, datetime, time, timedelta
from zoneinfo import ZoneInfo

from vf.core import Ctx, cfg_text, main_wrapper, Machinery
from icalendar.prop import (vDate, vDatetime, vTime, vDuration, vPeriod, vUTCOffset, vInt, vFloat, vBoolean,
                            vBinary, vGeo, vUri, vCalAddress, vWeekday, vFrequency, vMonth, vDDDTypes)

UTC = ZoneInfo("UTC")


def L(s):
    if isinstance(s, bytes):
        s = s.decode("utf-8")
    return [ord(c) for c in s]


def S(a):
    return "".join(map(chr, a))


# ---------------------------------------------------------------- gamma / alpha per type
def g_dt(v):
    d = datetime(*v[:6])
    return d.replace(tzinfo=UTC) if v[6] else d


def a_dt(x):
    if not isinstance(x, datetime):
        return ["odd", repr(x)]
    utc = 0
    if x.tzinfo is not None:
        if x.utcoffset() != timedelta(0):
            return ["odd-tz", repr(x)]
        utc = 1
    return [x.year, x.month, x.day, x.hour, x.minute, x.second, utc]


def g_dur(v):
    return v[0] * timedelta(days=v[1], seconds=v[2])


def a_dur(td):
    if not isinstance(td, timedelta):
        return ["odd", repr(td)]
    sign = 1
    if td < timedelta(0):
        sign, td = -1, -td
    return [sign, td.days, td.seconds]


def a_off(td):
    if not isinstance(td, timedelta):
        return ["odd", repr(td)]
    sign = 1
    if td < timedelta(0):
        sign, td = -1, -td
    return [sign, td.days * 86400 + td.seconds]


def g_period(v):
    return (g_dt(v[0]), g_dt(v[2]) if v[1] == "e" else g_dur(v[2]))


def a_period(p):
    if not (isinstance(p, tuple) and len(p) == 2):
        return ["odd", repr(p)]
    return [a_dt(p[0]), "d" if isinstance(p[1], timedelta) else "e", a_dur(p[1]) if isinstance(p[1], timedelta) else a_dt(p[1])]


def a_int(n):
    return [1 if n >= 0 else -1, L(str(abs(n)))]


def fhex(x):
    return float(x).hex()


def a_weekday(w):
    return [w.relative or 0, L(w.weekday)]


CODEC = {
    "date": (lambda v: vDate(date(*v)), vDate.from_ical, lambda x: [x.year, x.month, x.day] if type(x) is date else ["odd", repr(x)]),
    "time": (lambda v: vTime(time(*v)), vTime.from_ical, lambda x: [x.hour, x.minute, x.second] if isinstance(x, time) else ["odd", repr(x)]),
    "date-time": (lambda v: vDatetime(g_dt(v)), vDatetime.from_ical, a_dt),
    "duration": (lambda v: vDuration(g_dur(v)), vDuration.from_ical, a_dur),
    "utc-offset": (lambda v: vUTCOffset(v[0] * timedelta(seconds=v[1])), vUTCOffset.from_ical, a_off),
    "period": (lambda v: vPeriod(g_period(v)), vPeriod.from_ical, a_period),
}
PYCLASS = {date: "date", datetime: "date-time", time: "time", timedelta: "duration", tuple: "period"}


def classify(text):
    try:
        x = vDDDTypes.from_ical(text)
    except ValueError:
        return "none"
    except Exception as e:   # noqa: BLE001
        return "EXC:" + type(e).__name__
    for k, n in PYCLASS.items():
        if type(x) is k:
            return n
    return "odd"


def encode(typ, v):
    try:
        return L(CODEC[typ][0](v).to_ical())
    except Exception as e:   # noqa: BLE001
        return L("EXC:" + type(e).__name__)


def decode(typ, text):
    try:
        return CODEC[typ][2](CODEC[typ][1](text))
    except Exception as e:   # noqa: BLE001
        return ["EXC", type(e).__name__]


def run(ctx: Ctx):
    rnd = random.Random(ctx.seed)
    ev, meta = [], []
    if ctx.quick:
        base = dict(Years={1, 4, 100, 1900, 2000, 2024, 9999}, Days={1, 28, 29, 30, 31}, Hs={0, 12, 23}, Ms={0, 30, 59}, Ss={0, 1, 59},
                    DDays={0, 1, 6, 7, 8, 400}, OffSecsSet={0, 1, 59, 60, 3599, 3600, 43200, 50400, 86399})
        fams = ["date", "time", "duration", "offset"]
        small = dict(base, Years={2000, 2023}, Days={28, 29, 31}, Hs={0, 23}, Ms={0, 59}, Ss={0, 59}, DDays={0, 1, 7})
    else:
        base = dict(Years={1, 4, 100, 400, 1582, 1900, 1999, 2000, 2023, 2024, 2100, 9999}, Days=set(range(1, 32)),
                    Hs=set(range(24)), Ms={0, 1, 30, 58, 59}, Ss={0, 1, 30, 58, 59},
                    DDays={0, 1, 6, 7, 8, 14, 400, 999999}, OffSecsSet=set(range(0, 86400, 60)) | {1, 59, 3599, 86399})
        fams = ["date", "time", "duration", "offset"]
        small = dict(base, Years={2000, 2023, 2024}, Days={1, 28, 29, 31}, Hs={0, 12, 23}, Ms={0, 59}, Ss={0, 59}, DDays={0, 1, 7})
    runs = [(f, base) for f in fams] + [("datetime", small), ("period", dict(small, Years={2024}, Days={29, 31}, Hs={0, 23}))]
    nvec = 0
    for fam, consts in runs:
        r = ctx.mc("MC_ValueCodecs", cfg_text(spec="Spec", constants={"Family": fam, **consts},
                                              invariants=["InvEnc", "InvTexts", "InvClass", "Vec"]),
                   workers=4 if ctx.quick else 12, timeout=3000)
        nvec += len(r.prints)
        for v in r.prints:
            typ, val = v["type"], v["v"]
            ctx.case((typ, repr(val)), True)
            enc = encode(typ, val)
            back = decode(typ, S(enc)) if enc[:4] != L("EXC:") else ["EXC"]
            if enc == v["impl"] and back == val:
                pass        # InvEnc proved: the mirror's text is in the grammar and denotes v
            else:
                if enc != v["impl"]:
                    ctx.drifted("M:C03:enc-mirror", {"type": typ, "v": val}, S(enc), S(v["impl"]))
                ev.append({"k": "enc", "type": typ, "v": val, "text": enc, "back": back})
                meta.append({"type": typ, "v": val, "path": "enc"})
            for t in v["texts"]:
                txt = S(t)
                back = decode(typ, txt)
                cls = classify(txt) if typ != "utc-offset" else typ
                if back == val and cls == typ:
                    continue        # InvTexts / InvClass proved: t is in the grammar, denotes v, has this class
                ev.append({"k": "dec", "type": typ, "v": val, "text": t, "back": back, "cls": cls})
                meta.append({"type": typ, "v": val, "text": txt, "path": "dec"})
        ctx.sample({"family": fam, "vector": r.prints[len(r.prints) // 2]})
    if nvec < 1000:
        raise Machinery("too few vectors")

    # ------------------------------------------------------------- RECORD random values, all types
    n = 400 if ctx.quick else 6000
    for i in range(n):
        def rec(typ, v, textobj, back):
            ev.append({"k": "enc", "type": typ, "v": v, "text": L(textobj), "back": back})
            meta.append({"type": typ, "v": v, "path": "random"})
            ctx.case((typ, repr(v)), True)
        y, mo = rnd.choice([1, 99, 1000, 1970, 2024, 9999, rnd.randint(1, 9999)]), rnd.randint(1, 12)
        import calendar as _cal
        d = rnd.choice([1, 28, _cal.monthrange(y, mo)[1], rnd.randint(1, _cal.monthrange(y, mo)[1])])
        dv = [y, mo, d]
        tv = [rnd.randint(0, 23), rnd.randint(0, 59), rnd.randint(0, 59)]
        rec("date", dv, vDate(date(*dv)).to_ical(), decode("date", S(encode("date", dv))))
        rec("time", tv, vTime(time(*tv)).to_ical(), decode("time", S(encode("time", tv))))
        dtv = dv + tv + [rnd.randint(0, 1)]
        rec("date-time", dtv, vDatetime(g_dt(dtv)).to_ical(), decode("date-time", S(encode("date-time", dtv))))
        du = [rnd.choice([1, -1]), rnd.choice([0, 0, rnd.randint(0, 10), rnd.randint(0, 99999)]),
              rnd.choice([0, rnd.randint(0, 86399), 3600 * rnd.randint(0, 23), 60 * rnd.randint(0, 59)])]
        if du[1] == 0 and du[2] == 0:
            du[0] = 1
        rec("duration", du, vDuration(g_dur(du)).to_ical(), decode("duration", S(encode("duration", du))))
        of = [rnd.choice([1, -1]), rnd.choice([0, rnd.randint(0, 86399), 60 * rnd.randint(0, 1439), 3600 * rnd.randint(0, 23)])]
        if of[1] == 0:
            of[0] = 1
        rec("utc-offset", of, vUTCOffset(of[0] * timedelta(seconds=of[1])).to_ical(), decode("utc-offset", S(encode("utc-offset", of))))
        if y < 9998:
            pv = [dtv, rnd.choice(["e", "d"]), None]
            pv[2] = [y + 1, mo, min(d, 28)] + tv + [dtv[6]] if pv[1] == "e" else [1, du[1] % 1000, du[2]]
            rec("period", pv, vPeriod(g_period(pv)).to_ical(), decode("period", S(encode("period", pv))))
        nint = rnd.choice([0, 1, -1, 2**31 - 1, -2**31, 2**31, 2**63, -10**30, rnd.randint(-10**12, 10**12)])
        rec("integer", a_int(nint), vInt(nint).to_ical(), a_int(vInt.from_ical(vInt(nint).to_ical().decode())))
        b = rnd.random() < 0.5
        rec("boolean", int(b), vBoolean(b).to_ical(), int(bool(vBoolean.from_ical(vBoolean(b).to_ical().decode()))))
        x = rnd.choice([0.0, 1.0, -3.14, 1000000.0000001, 37.386013, -122.082932, rnd.uniform(-180, 180), rnd.uniform(-1, 1),
                        rnd.random() * 10 ** rnd.randint(-12, 25), float(rnd.randint(-10**9, 10**9))])
        ft = vFloat(x).to_ical()
        try:
            fb = fhex(vFloat.from_ical(ft.decode()))
        except Exception as e:   # noqa: BLE001
            fb = "EXC:" + type(e).__name__
        rec("float", fhex(x), ft, fb)
        g = (rnd.uniform(-90, 90), rnd.choice([rnd.uniform(-180, 180), rnd.random() * 1e-7, 0.0]))
        gt = vGeo(g).to_ical()
        try:
            gb = [fhex(q) for q in vGeo.from_ical(gt if isinstance(gt, str) else gt.decode())]
        except Exception as e:   # noqa: BLE001
            gb = ["EXC:" + type(e).__name__]
        rec("geo", [fhex(g[0]), fhex(g[1])], gt, gb)
        payload = "".join(chr(rnd.choice([rnd.randint(0, 127), rnd.randint(128, 0x7ff), rnd.randint(0x800, 0xd7ff), rnd.randint(0x10000, 0x10ffff)]))
                          for _ in range(rnd.randint(0, 12)))
        bt = vBinary(payload).to_ical()
        rec("binary", list(payload.encode("utf-8")), bt, list(vBinary.from_ical(bt)))
        uri = rnd.choice(["http://example.com/a?b=c#d", "mailto:jane_doe@example.com", "urn:x:" + payload.replace("\n", ""), "CID:part3.msg"])
        if "\n" not in uri:
            rec("uri", L(uri), vUri(uri).to_ical(), L(str(vUri.from_ical(vUri(uri).to_ical().decode()))))
            rec("cal-address", L(uri), vCalAddress(uri).to_ical(), L(str(vCalAddress.from_ical(vCalAddress(uri).to_ical().decode()))))
        wd = rnd.choice(["", "+", "-"]) + rnd.choice(["", "1", "2", "12", "53"]) + rnd.choice(["SU", "MO", "TU", "WE", "TH", "FR", "SA"])
        if wd[0] in "+-" and not wd[1].isdigit():
            wd = wd[1:]
        w = vWeekday(wd if rnd.random() < 0.5 else wd.lower())
        rec("weekday", a_weekday(vWeekday(wd)), w.to_ical(), a_weekday(vWeekday.from_ical(w.to_ical().decode())))
        fq = rnd.choice(vFrequency.frequencies and list(vFrequency.frequencies.keys()))
        fqo = vFrequency(fq if rnd.random() < 0.5 else fq.lower())
        rec("frequency", L(fq), fqo.to_ical(), L(str(vFrequency.from_ical(fqo.to_ical().decode()))))
        mn = rnd.randint(1, 13)
        leap = rnd.random() < 0.3
        mo_ = vMonth(f"{mn}L" if leap else rnd.choice([mn, str(mn)]))
        mb = vMonth.from_ical(mo_.to_ical().decode())
        rec("month", [mn, int(leap)], mo_.to_ical(), [int(mb), int(mb.leap)])
    # equivalent spellings of UTC, and subclasses of the value kinds: the text is the same as for the plain value
    import dateutil.tz as _dtz
    import pytz as _pytz
    from datetime import timezone as _tz

    class _D(date):
        pass

    class _DT(datetime):
        pass

    class _TD(timedelta):
        pass
    utcs = [("timezone.utc", _tz.utc), ("timezone(0,'GMT')", _tz(timedelta(0), "GMT")), ("tzoffset(None,0)", _dtz.tzoffset(None, 0)),
            ("tzoffset('UTC',0)", _dtz.tzoffset("UTC", 0)), ("tz.UTC", _dtz.UTC), ("pytz.utc", _pytz.utc), ("ZoneInfo UTC", UTC),
            ("tzutc()", _dtz.tzutc())]
    for name, z in utcs:
        dtv = [2024, 7, 1, 12, 30, 5, 1]
        d = datetime(*dtv[:6], tzinfo=z)
        for path, enc_fn in (("vDatetime", lambda x: vDatetime(x).to_ical()), ("vDDDTypes", lambda x: vDDDTypes(x).to_ical()),
                             ("vPeriod", lambda x: vPeriod((x, timedelta(hours=1))).to_ical().split(b"/")[0])):
            try:
                text = enc_fn(d)
            except Exception as e:   # noqa: BLE001
                text = ("EXC:" + type(e).__name__).encode()
            ev.append({"k": "enc", "type": "date-time", "v": dtv, "text": L(text), "back": decode("date-time", S(L(text)))})
            meta.append({"type": "date-time", "v": dtv, "path": f"{path} with tzinfo {name}"})
            ctx.case(("utc-spelling", name, path), True)
    for sub, typ, val in ((_D(2024, 2, 29), "date", [2024, 2, 29]), (_DT(2024, 2, 29, 23, 59, 58), "date-time", [2024, 2, 29, 23, 59, 58, 0]),
                          (_DT(2024, 2, 29, 23, 59, 58, tzinfo=UTC), "date-time", [2024, 2, 29, 23, 59, 58, 1]), (_TD(days=1, seconds=3661), "duration", [1, 1, 3661]),
                          (_TD(seconds=-30), "duration", [-1, 0, 30])):
        for path, enc_fn in (("vDDDTypes", lambda x: vDDDTypes(x).to_ical()), ("typed", lambda x: {"date": vDate, "date-time": vDatetime, "duration": vDuration}[typ](x).to_ical())):
            try:
                text = enc_fn(sub)
            except Exception as e:   # noqa: BLE001
                text = ("EXC:" + type(e).__name__).encode()
            ev.append({"k": "enc", "type": typ, "v": val, "text": L(text), "back": decode(typ, S(L(text)))})
            meta.append({"type": typ, "v": val, "path": f"{path} with a {type(sub).__mro__[1].__name__} subclass"})
            ctx.case(("subclass", typ, path, repr(val)), True)
    # zoned values: the text is the wall-clock reading (FORM #3, no Z) whatever was encoded before -- in particular right
    # after a value that denotes the SAME instant in another zone or in UTC (equal and equal-hash in Python) -- and an explicit
    # period is written with exactly the end it was given, also when the clocks change between start and end
    from icalendar.timezone import tzp as _tzp
    from zoneinfo import ZoneInfo as _ZI

    def _wall(x, flag):
        return [x.year, x.month, x.day, x.hour, x.minute, x.second, flag]
    try:
        for prov in ("zoneinfo", "pytz"):
            _tzp.use(prov)
            for (y_, mo_, d_, h_), zones in (((2024, 6, 1, 12), ("Europe/Berlin", "Europe/Paris", "America/Los_Angeles")),
                                            ((2031, 3, 9, 9), ("America/Los_Angeles", "Asia/Kolkata")), ((2024, 10, 27, 0), ("Europe/Vienna", "Australia/Lord_Howe"))):
                u = _tzp.localize_utc(datetime(y_, mo_, d_, h_, 30, 0))
                seq = [(u, 1)]
                for zn in zones:
                    seq += [(u.astimezone(_tzp.timezone(zn)), 0), (u, 1)]
                seq += [(u.astimezone(_tzp.timezone(zones[0])), 0), (u.astimezone(_tzp.timezone(zones[1])), 0)]
                for path, enc_fn in (("vDatetime", lambda x: vDatetime(x).to_ical()), ("vDDDTypes", lambda x: vDDDTypes(x).to_ical())):
                    for x, flag in seq:
                        try:
                            text = enc_fn(x)
                        except Exception as e:   # noqa: BLE001
                            text = ("EXC:" + type(e).__name__).encode()
                        v = _wall(x, flag)
                        ev.append({"k": "enc", "type": "date-time", "v": v, "text": L(text), "back": decode("date-time", S(L(text)))})
                        meta.append({"type": "date-time", "v": v, "path": f"{path} of a value in {x.tzinfo} after an equal instant in another zone ({prov})"})
                        ctx.case(("equal-instant", prov, path, repr(x)), True)
            for tzid, d1, d2 in (("Europe/Berlin", datetime(2024, 1, 10, 9, 0), datetime(2024, 1, 12, 17, 30)), ("America/New_York", datetime(2024, 3, 9, 12, 0), datetime(2024, 3, 11, 12, 0)),
                                 ("Europe/Berlin", datetime(2024, 10, 26, 20, 0), datetime(2024, 10, 27, 20, 0)), ("America/New_York", datetime(2024, 11, 3, 0, 30), datetime(2024, 11, 3, 3, 0)),
                                 ("Australia/Lord_Howe", datetime(2024, 4, 6, 23, 0), datetime(2024, 4, 7, 5, 0)), ("Asia/Tokyo", datetime(2024, 5, 5, 5, 5), datetime(2024, 5, 5, 6, 5))):
                st, en = _tzp.localize(d1, tzid), _tzp.localize(d2, tzid)
                for path, enc_fn in (("vPeriod", lambda a, b: vPeriod((a, b)).to_ical()), ("vDDDTypes", lambda a, b: vDDDTypes((a, b)).to_ical())):
                    try:
                        text = enc_fn(st, en)
                    except Exception as e:   # noqa: BLE001
                        text = ("EXC:" + type(e).__name__).encode()
                    pv = [_wall(d1, 0), "e", _wall(d2, 0)]
                    ev.append({"k": "enc", "type": "period", "v": pv, "text": L(text), "back": decode("period", S(L(text)))})
                    meta.append({"type": "period", "v": pv, "path": f"{path} explicit period in {tzid} ({prov})"})
                    ctx.case(("zoned-period", prov, path, tzid, d1.isoformat()), True)
    finally:
        _tzp.use_default()
    ctx.sample({"trace_event": ev[-1]})
    for idx, clause, known in ctx.validate_trace("Trace_ValueCodecs", ev, cfg_text(spec="Spec"), chunk=10000, timeout=3000):
        if clause.startswith("M:"):
            ctx.drifted(clause, meta[idx])
            continue
        ctx.fail(clause, {**meta[idx], "text": S(ev[idx]["text"])}, ev[idx]["back"], None)
    ctx.assumptions += [
        "DATE-TIME / TIME with second 60 are outside the domain (Python cannot represent the value)",
        "float and GEO value equality is the equality of two float.hex() strings computed in Python; the grammar is decided by TLC",
        "TIME values are floating (naive) times; zoned date-times are C11's subject",
    ]
    # ------------------------------------------------------------- SUITE: calls observed in the repository's own tests
    from vf import suite
    suite.step(ctx, "values", ["P:C03"])
    # ------------------------------------------------------------- FRESH: history independence of returned objects (spec/Fresh.tla)
    from vf import fresh
    fresh.step(ctx, "C03")
    return ctx.finish(rule=(
        "value families per type enumerated by TLC (boundary years x all months x critical days; all hours x critical minutes/seconds; "
        "durations over days {0,1,6,7,8,400} x h {0,1,23} x m/s {0,1,59} x sign with all admissible texts; offsets incl. all whole minutes "
        "in thorough), random values of all 16 types validated by TLC; every case is non-trivial by construction (distinct value)"))


if __name__ == "__main__":
    main_wrapper(run, "C03")
