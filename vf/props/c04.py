"""C04 — parsing is total: a result or ValueError; VEVENT isolates bad property lines.

MC      spec/MC_Parser: the line-loop automaton over every abstract line sequence up to a bound;
        InvTotal (the loop terminates with a result or an error), InvIsolated (a bad line inserted
        anywhere in an accepted sequence: dropped + recorded inside VEVENT, ValueError elsewhere).
REPLAY  every sequence concretised (several spellings per token, mismatched END names, mixed
        case) and parsed for real, single and multiple, both providers: outcome class and tree
        (names, properties, error lists, nesting) equal the model; to_ical()/walk() of the result
        raise nothing but ValueError.
HOSTILE structured pools: hostile TZIDs, malformed VTIMEZONEs, deep nesting, END:VTIMEZONE on
        non-timezones, duplicated singletons, truncated lines.
FUZZ    mutated fixtures and token soup (seeded); outcome class and CPU budget per case.
LINES   with the guarded hooks of icalendar/_verif.py every real parse of the fixtures and hostile cases
        emits one event per consumed line; spec/Trace_ParserLines classifies the raw line with the
        mirror of Contentline.parts and requires the automaton to take exactly the logged step
        (action, stack depth, finished components).
VALIDATE spec/Trace_Parser: outcome in {result, ValueError}, budget -- evaluated by TLC.
"""
import glob
import os
import random
import time

from vf.core import Ctx, cfg_text, main_wrapper, Machinery, REPO, time_limit, HardTimeout
from vf import parsercommon as pc
from icalendar import Component, Calendar
from icalendar.timezone import tzp

BUDGET_MS = 4000


def exercise(res):
    """serialise and walk whatever was returned; -> None or exception name (non-ValueError)"""
    for c in res:
        try:
            c.to_ical()
        except ValueError:
            pass
        except Exception as e:   # noqa: BLE001
            return "to_ical:" + type(e).__name__ + ":" + str(e)[:60]
        try:
            for s in c.walk():
                s.name
                list(s.items())
        except Exception as e:   # noqa: BLE001
            return "walk:" + type(e).__name__
    return None


def outcome(text, multiple):
    t0 = time.process_time()
    try:
        with time_limit(20):
            r = pc.real_parse(text, multiple)
    except HardTimeout:
        return "exc", "no result within 20 s", 20000, None
    out = r[0]
    detail = r[1] if r[0] != "ok" else None
    if r[0] == "ok":
        ex = exercise(r[1])
        if ex:
            out, detail = "exc", ex
    ms = int((time.process_time() - t0) * 1000)
    return out, detail, ms, (r[1] if r[0] == "ok" else None)


VTZ_OK = ["BEGIN:VTIMEZONE", "TZID:%s", "BEGIN:STANDARD", "DTSTART:19701025T030000", "TZOFFSETFROM:+0200", "TZOFFSETTO:+0100",
          "TZNAME:CET", "END:STANDARD", "END:VTIMEZONE"]


def hostile_cases(rnd):
    cases = []
    for tzid in ["Europe", "/", "../x", "", "Europe/", "/Europe/Berlin", "UTC", "a" * 300, "Etc/", "posix", "right/UTC", ".", "Europe/Berlin/x",
                 "America/Argentina", "%s", "é", "W. Europe Standard Time", "Custom Zone"]:
        cases.append(("tzid", f"BEGIN:VEVENT\r\nDTSTART;TZID={tzid}:20240101T100000\r\nEND:VEVENT\r\n"))
        cases.append(("tzid-cal", "BEGIN:VCALENDAR\r\nBEGIN:VTODO\r\nDUE;TZID=" + tzid + ":20240101T100000\r\nRDATE;TZID=" + tzid +
                      ":20240101T100000,20240102T100000\r\nEND:VTODO\r\nEND:VCALENDAR\r\n"))
        cases.append(("tzid-def", "BEGIN:VCALENDAR\r\n" + "\r\n".join(VTZ_OK) % tzid + "\r\nBEGIN:VEVENT\r\nDTSTART;TZID=" + tzid +
                      ":20240101T100000\r\nEND:VEVENT\r\nEND:VCALENDAR\r\n"))
    bodies = {
        "no-freq-rrule": ["DTSTART:19701025T030000", "RRULE:BYDAY=-1SU;BYMONTH=10", "TZOFFSETFROM:+0200", "TZOFFSETTO:+0100"],
        "date-dtstart": ["DTSTART;VALUE=DATE:19701025", "TZOFFSETFROM:+0200", "TZOFFSETTO:+0100"],
        "no-dtstart": ["TZOFFSETFROM:+0200", "TZOFFSETTO:+0100"],
        "no-from": ["DTSTART:19701025T030000", "TZOFFSETTO:+0100"],
        "no-to": ["DTSTART:19701025T030000", "TZOFFSETFROM:+0100"],
        "dup-dtstart": ["DTSTART:19701025T030000", "DTSTART:19711025T030000", "TZOFFSETFROM:+0200", "TZOFFSETTO:+0100"],
        "dup-offset": ["DTSTART:19701025T030000", "TZOFFSETFROM:+0200", "TZOFFSETFROM:+0300", "TZOFFSETTO:+0100"],
        "rdate-date": ["DTSTART:19701025T030000", "RDATE;VALUE=DATE:19711025", "TZOFFSETFROM:+0200", "TZOFFSETTO:+0100"],
        "rdate-period": ["DTSTART:19701025T030000", "RDATE;VALUE=PERIOD:19711025T030000/PT1H", "TZOFFSETFROM:+0200", "TZOFFSETTO:+0100"],
        "utc-dtstart": ["DTSTART:19701025T030000Z", "TZOFFSETFROM:+0200", "TZOFFSETTO:+0100"],
        "tzname-list": ["DTSTART:19701025T030000", "TZOFFSETFROM:+0200", "TZOFFSETTO:+0100", "TZNAME:A", "TZNAME:B"],
        "until-date": ["DTSTART:19701025T030000", "RRULE:FREQ=YEARLY;UNTIL=19801025", "TZOFFSETFROM:+0200", "TZOFFSETTO:+0100"],
        "big-count": ["DTSTART:19701025T030000", "RRULE:FREQ=YEARLY;COUNT=3", "TZOFFSETFROM:+0200", "TZOFFSETTO:+0100"],
        "weird-offset": ["DTSTART:19701025T030000", "TZOFFSETFROM:+0200", "TZOFFSETTO:-235959"],
        "text-offset": ["DTSTART:19701025T030000", "TZOFFSETFROM;VALUE=TEXT:+0200", "TZOFFSETTO:+0100"],
        # onsets at the ends of the date range with offsets that push them over it (local time -> UTC overflows)
        "first-day-east": ["DTSTART:00010101T000000", "TZOFFSETFROM:+2359", "TZOFFSETTO:+0100"],
        "first-day-east-rule": ["DTSTART:00010101T000000", "RRULE:FREQ=YEARLY;COUNT=2", "TZOFFSETFROM:+1400", "TZOFFSETTO:+1300"],
        "last-day-west": ["DTSTART:99991231T235959", "TZOFFSETFROM:-2359", "TZOFFSETTO:-1200"],
        "last-day-west-rdate": ["DTSTART:99981231T235959", "RDATE:99991231T235959", "TZOFFSETFROM:-1200", "TZOFFSETTO:-1100"],
        "first-day-to": ["DTSTART:00010101T000000", "TZOFFSETFROM:+0000", "TZOFFSETTO:+2359"],
    }
    for name, body in bodies.items():
        for sub in ("STANDARD", "DAYLIGHT"):
            txt = "BEGIN:VCALENDAR\r\nBEGIN:VTIMEZONE\r\nTZID:Hostile/%s\r\nBEGIN:%s\r\n%s\r\nEND:%s\r\nEND:VTIMEZONE\r\nBEGIN:VEVENT\r\n" \
                  "DTSTART;TZID=Hostile/%s:20240101T100000\r\nEND:VEVENT\r\nEND:VCALENDAR\r\n" % (name, sub, "\r\n".join(body), sub, name)
            cases.append(("vtz-" + name, txt))
    cases.append(("vtz-empty", "BEGIN:VTIMEZONE\r\nTZID:Hostile/empty\r\nEND:VTIMEZONE\r\n"))
    cases.append(("vtz-two-tzid", "BEGIN:VTIMEZONE\r\nTZID:A1\r\nTZID:A2\r\nEND:VTIMEZONE\r\n"))
    cases.append(("vtz-no-tzid", "BEGIN:VTIMEZONE\r\nBEGIN:STANDARD\r\nDTSTART:19701025T030000\r\nTZOFFSETFROM:+0200\r\nTZOFFSETTO:+0100\r\nEND:STANDARD\r\nEND:VTIMEZONE\r\n"))
    cases.append(("end-vtz-on-event", "BEGIN:VEVENT\r\nTZID:foo\r\nEND:VTIMEZONE\r\n"))
    cases.append(("end-vtz-on-unknown", "BEGIN:X-THING\r\nTZID:foo\r\nEND:VTIMEZONE\r\n"))
    cases.append(("end-vtz-nested", "BEGIN:VCALENDAR\r\nBEGIN:VTODO\r\nTZID;X=1:bar\r\nEND:VTIMEZONE\r\nEND:VCALENDAR\r\n"))
    for depth in (10, 64):
        cases.append(("deep", "".join("BEGIN:VEVENT\r\n" for _ in range(depth)) + "SUMMARY:x\r\n" + "".join("END:VEVENT\r\n" for _ in range(depth))))
        cases.append(("deep-mixed", "".join(f"BEGIN:{'VCALENDAR' if i % 2 else 'X-N'}\r\n" for i in range(depth)) + "".join("END:X\r\n" for _ in range(depth))))
    cases.append(("dup-singletons", "BEGIN:VEVENT\r\nUID:1\r\nUID:2\r\nDTSTART:20240101\r\nDTSTART:20240102T000000\r\nDTEND:20240103\r\nDURATION:P1D\r\nDURATION:PT1H\r\nSEQUENCE:1\r\nSEQUENCE:x\r\nEND:VEVENT\r\n"))
    cases.append(("period-mixed", "BEGIN:VFREEBUSY\r\nFREEBUSY:20240101/20240102T000000\r\nEND:VFREEBUSY\r\n"))
    cases.append(("period-mixed-ev", "BEGIN:VEVENT\r\nRDATE;VALUE=PERIOD:20240101/20240102T000000\r\nRDATE;VALUE=PERIOD:20240101T000000/20240102\r\nEND:VEVENT\r\n"))
    cases.append(("period-reversed", "BEGIN:VEVENT\r\nRDATE;VALUE=PERIOD:20240103T000000/20240102T000000\r\nEND:VEVENT\r\n"))
    cases.append(("rrule-odd", "BEGIN:VEVENT\r\nRRULE:FREQ=DAILY;UNTIL=garbage\r\nRRULE:FREQ=DAILY;BYDAY=\r\nRRULE:=;=\r\nRRULE:FREQ\r\nEND:VEVENT\r\n"))
    for stamp in ("00010101T000000", "99991231T235959", "00010101T000000Z", "99991231T235959Z"):
        for tz in ("Europe/Berlin", "Pacific/Kiritimati", "America/Adak", "UTC"):
            cases.append(("extreme-date", f"BEGIN:VEVENT\r\nDTSTART;TZID={tz}:{stamp}\r\nEND:VEVENT\r\n"))
            cases.append(("extreme-date-strict", f"BEGIN:VTODO\r\nDUE;TZID={tz}:{stamp}\r\nRDATE;TZID={tz}:{stamp},{stamp}\r\nEND:VTODO\r\n"))
    cases.append(("tzid-list", "BEGIN:VEVENT\r\nDTSTART;TZID=Europe/Berlin,Europe/Paris:20240101T100000\r\nEND:VEVENT\r\n"))
    cases.append(("tzid-list-strict", "BEGIN:VTODO\r\nDUE;TZID=a,b:20240101T100000\r\nEND:VTODO\r\n"))
    # every rule part x every malformed item shape (the decoders of the parts differ: vInt, vMonth, vWeekday, vDDDTypes, vFrequency,
    # vSkip): empty, empty list items, sign only, letters, a wrong-typed item, a doubled "=", a repeated part
    for part in ("COUNT", "INTERVAL", "BYSECOND", "BYMINUTE", "BYHOUR", "BYWEEKNO", "BYMONTHDAY", "BYYEARDAY", "BYMONTH", "UNTIL", "BYSETPOS", "WKST", "BYDAY",
                 "FREQ", "BYWEEKDAY", "SKIP", "RSCALE", "X-PART"):
        for item in ("", ",", "1,", ",2", "-", "+", "L", "5LL", "x", "MO,", "1.5", "20240101T", "=", "1=2", " ", "\u00b2", "1,,2"):
            rest = "" if part == "FREQ" else "FREQ=DAILY;"
            cases.append(("rrule-part-item", f"BEGIN:VEVENT\r\nUID:1\r\nRRULE:{rest}{part}={item}\r\nEND:VEVENT\r\n"))
            if (len(part) + len(item)) % 3 == 0:
                cases.append(("rrule-part-item-strict", f"BEGIN:VTODO\r\nRRULE:{rest}{part}={item};{part}={item}\r\nEXRULE:{rest}{part.lower()}={item}\r\nEND:VTODO\r\n"))
    # the same for the other comma / semicolon separated value types
    for line in ("EXDATE:,", "EXDATE:20240101,", "RDATE:,20240101T000000", "RDATE;VALUE=PERIOD:,", "RDATE;VALUE=PERIOD:20240101T000000/", "RDATE;VALUE=PERIOD:/PT1H",
                 "FREEBUSY:,", "FREEBUSY:/", "GEO:;", "GEO:1;", "GEO:;2", "REQUEST-STATUS:;", "REQUEST-STATUS:", "CATEGORIES:,", "RESOURCES:,,", "TRIGGER:", "TRIGGER:-", "TRIGGER:P",
                 "DURATION:PT", "DURATION:+", "TZOFFSETFROM:", "TZOFFSETFROM:+", "TZOFFSETTO:-0", "SEQUENCE:", "SEQUENCE:-", "PRIORITY:+", "PERCENT-COMPLETE:", "ATTACH;VALUE=BINARY:",
                 "ATTACH;ENCODING=BASE64;VALUE=BINARY:=", "DTSTART;VALUE=DATE:", "DTSTART;VALUE=TIME:", "DTSTART;VALUE=:20240101", "X-B;VALUE=BOOLEAN:", "X-F;VALUE=FLOAT:",
                 "X-F;VALUE=FLOAT:.", "X-F;VALUE=FLOAT:-", "X-I;VALUE=INTEGER:", "X-U;VALUE=UTC-OFFSET:", "X-R;VALUE=RECUR:", "X-R;VALUE=RECUR:;", "X-P;VALUE=PERIOD:", "X-D;VALUE=DURATION:",
                 "X-C;VALUE=CAL-ADDRESS:", "X-T;VALUE=DATE-TIME:T", "X-T;VALUE=DATE-TIME:20240101T000000ZZ"):
        cases.append(("empty-items", f"BEGIN:VEVENT\r\nUID:1\r\n{line}\r\nEND:VEVENT\r\n"))
        cases.append(("empty-items-strict", f"BEGIN:VTODO\r\n{line}\r\nEND:VTODO\r\n"))
    cases.append(("rrule-until-time", "BEGIN:VEVENT\r\nRRULE:FREQ=WEEKLY;UNTIL=2010000\r\nRRULE:FREQ=DAILY;UNTIL=120000Z\r\nEND:VEVENT\r\n"))
    cases.append(("rrule-todo", "BEGIN:VTODO\r\nRRULE:FREQ=DAILY;COUNT=x\r\nEND:VTODO\r\n"))
    cases.append(("rrule-ok-roundtrip", "BEGIN:VTODO\r\nRRULE:FREQ=DAILY;UNTIL=20240101T000000Z;BYDAY=MO,-1TU;BYMONTH=5L\r\nEXRULE:FREQ=WEEKLY\r\nEND:VTODO\r\n"))
    cases.append(("geo", "BEGIN:VTODO\r\nGEO:1;2;3\r\nEND:VTODO\r\n"))
    cases.append(("geo2", "BEGIN:VEVENT\r\nGEO:1.0\r\nGEO:a;b\r\nGEO:1;2\r\nEND:VEVENT\r\n"))
    cases.append(("binary", "BEGIN:VEVENT\r\nATTACH;ENCODING=BASE64;VALUE=BINARY:@@@@\r\nATTACH;VALUE=BINARY:AAA\r\nEND:VEVENT\r\n"))
    cases.append(("int", "BEGIN:VTODO\r\nPRIORITY:1.5\r\nEND:VTODO\r\n"))
    cases.append(("offset", "BEGIN:STANDARD\r\nTZOFFSETFROM:+2500\r\nEND:STANDARD\r\n"))
    cases.append(("offset2", "BEGIN:STANDARD\r\nTZOFFSETFROM:0100\r\nTZOFFSETTO:+01\r\nTZOFFSETTO:+01000000\r\nEND:STANDARD\r\n"))
    cases.append(("trigger", "BEGIN:VALARM\r\nTRIGGER;VALUE=DATE-TIME:garbage\r\nEND:VALARM\r\n"))
    cases.append(("trigger2", "BEGIN:VEVENT\r\nBEGIN:VALARM\r\nTRIGGER;RELATED=END:-PT\r\nTRIGGER:P1Y\r\nREPEAT:x\r\nEND:VALARM\r\nEND:VEVENT\r\n"))
    cases.append(("categories", "BEGIN:VEVENT\r\nCATEGORIES:a,b\\,c,,\r\nCATEGORIES;X=1:\r\nRESOURCES:a,b\r\nEND:VEVENT\r\n"))
    cases.append(("freebusy-tz", "BEGIN:VFREEBUSY\r\nFREEBUSY;TZID=Europe/Berlin:20240101T000000/PT1H,20240102T000000/20240102T010000\r\nFREEBUSY;TZID=Nope:20240101T000000/PT1H\r\nEND:VFREEBUSY\r\n"))
    # type confusion: every VALUE type against value texts of every other grammar (found C04-F5: a PERIOD
    # with a DATE start parsed but could not be serialised)
    texts = ["20150219", "20150219T133000", "20150219T133000Z", "20150219/PT10H", "20150219/20150221", "20150219T000000/P1D",
             "20150219T000000Z/20150220T000000Z", "20150219T000000/20150220", "P1D", "-PT15M", "PT", "P1W2D", "133000", "133000Z", "+0100",
             "-000000", "1", "-1.5", "1;2", "TRUE", "a,b", "mailto:a@b", "FREQ=DAILY", "FREQ=DAILY;UNTIL=20150219", "AAAA", "", "20150219,20150220",
             "20150219T133000,20150220", "20150219/PT10H,20150220T000000/PT1H"]
    vtypes = ["BINARY", "BOOLEAN", "CAL-ADDRESS", "DATE", "DATE-TIME", "DURATION", "FLOAT", "INTEGER", "PERIOD", "RECUR", "TEXT", "TIME",
              "URI", "UTC-OFFSET", "X-FOO", ""]
    for pn in ("RDATE", "DTSTART", "TRIGGER", "FREEBUSY", "X-P", "EXDATE", "DURATION", "GEO", "RRULE"):
        for vt in vtypes:
            par = f";VALUE={vt}" if vt else ""
            body = "".join(f"{pn}{par}:{t}\r\n" for t in texts)
            cases.append(("type-confusion-lenient", f"BEGIN:VEVENT\r\n{body}END:VEVENT\r\n"))
            for t in texts[:: 2 if vt in ("BINARY", "BOOLEAN", "X-FOO", "URI", "TEXT") else 1]:
                cases.append(("type-confusion", f"BEGIN:VTODO\r\n{pn}{par}:{t}\r\n{pn}{par};TZID=Europe/Berlin:{t}\r\nEND:VTODO\r\n"))
                cases.append(("type-confusion-ev", f"BEGIN:VEVENT\r\n{pn}{par}:{t}\r\nEND:VEVENT\r\n"))
    # magnitudes: numbers and identifiers far outside what datetime/timedelta/zone lookups can hold
    # (C04-F6..F8: OverflowError from timedelta, from start + duration; RecursionError from the tzdata lookup)
    big = ["P99999999999999W", "-P99999999999999D", "P999999999D", "-P999999999D", "PT99999999999999999999S", "P2147483648D",
           "PT9223372036854775808S", "P" + "9" * 400 + "D"]
    for d in big:
        for pn in ("DURATION", "TRIGGER", "X-D;VALUE=DURATION", "REFRESH-INTERVAL"):
            cases.append(("magnitude-duration", f"BEGIN:VTODO\r\n{pn}:{d}\r\nEND:VTODO\r\n"))
            cases.append(("magnitude-duration-ev", f"BEGIN:VEVENT\r\nDTSTART:20200101T000000Z\r\n{pn}:{d}\r\nEND:VEVENT\r\n"))
        for st in ("20200101T000000Z", "20200101T000000", "00010101T000000Z", "99991231T235959Z"):
            cases.append(("magnitude-period", f"BEGIN:VTODO\r\nRDATE;VALUE=PERIOD:{st}/{d}\r\nFREEBUSY:{st}/{d}\r\nEND:VTODO\r\n"))
            cases.append(("magnitude-period-tz", f"BEGIN:VEVENT\r\nRDATE;VALUE=PERIOD;TZID=Pacific/Kiritimati:{st.rstrip('Z')}/{d}\r\nEND:VEVENT\r\n"))
    for tzid in ["a/" * 3000 + "b", "a/" * 3000, "a" * 100000, "../" * 500 + "etc/passwd", "a." * 2000 + "b", "Europe/" * 600 + "Berlin", "a/" * 200 + "b",
                 "\x00", "Europe/Berlin\x00", "CON", "a" * 255, "a" * 256,
                 # limits that count octets, not characters
                 "\u00e9" * 130, "\u00e9" * 200, "\u3042" * 90, "\u3042" * 255, "x/" + "\U0001F600" * 70, "\u00e9" * 4000]:
        cases.append(("magnitude-tzid", f"BEGIN:VTODO\r\nDUE;TZID={tzid}:20200101T000000\r\nEND:VTODO\r\n"))
        cases.append(("magnitude-tzid-ev", f"BEGIN:VEVENT\r\nDTSTART;TZID={tzid}:20200101T000000\r\nRDATE;TZID={tzid}:20200101T000000\r\nEND:VEVENT\r\n"))
    for num in ["9" * 5000, "-" + "9" * 5000, "1e999", "-1e999", "nan", "inf", "1" + "0" * 400 + ".5", "0." + "0" * 400 + "1", "1_0", " 1", "+1", "٣"]:
        cases.append(("magnitude-number", f"BEGIN:VTODO\r\nPRIORITY:{num}\r\nPERCENT-COMPLETE:{num}\r\nEND:VTODO\r\n"))
        cases.append(("magnitude-number-ev", f"BEGIN:VEVENT\r\nSEQUENCE:{num}\r\nGEO:{num};{num}\r\nX-F;VALUE=FLOAT:{num}\r\nX-I;VALUE=INTEGER:{num}\r\n"
                      f"RRULE:FREQ=DAILY;COUNT={num};INTERVAL={num};BYMONTHDAY={num};BYDAY={num}MO\r\nREPEAT:{num}\r\nEND:VEVENT\r\n"))
        cases.append(("magnitude-rrule", f"BEGIN:VTODO\r\nRRULE:FREQ=DAILY;COUNT={num}\r\nEND:VTODO\r\n"))
        cases.append(("magnitude-geo", f"BEGIN:VTODO\r\nGEO:{num};{num}\r\nEND:VTODO\r\n"))
        cases.append(("magnitude-float", f"BEGIN:VTODO\r\nX-F;VALUE=FLOAT:{num}\r\nEND:VTODO\r\n"))
    for stamp in ["00000000", "00000101", "99999999", "20240230", "20241301", "20240101T240000", "20240101T236060", "20240101T235960Z", "00000000T000000",
                  "99991231T235959", "2024010", "202401011", "20240101T1", "20240101T", "T000000", "-0240101", "2024-01-01", "٢٠٢٤٠١٠١"]:
        for pn in ("DTSTART", "DTSTART;VALUE=DATE", "DUE;TZID=Pacific/Kiritimati", "RDATE", "EXDATE;TZID=America/Adak", "COMPLETED", "RECURRENCE-ID"):
            cases.append(("magnitude-stamp", f"BEGIN:VTODO\r\n{pn}:{stamp}\r\nEND:VTODO\r\n"))
        cases.append(("magnitude-stamp-ev", f"BEGIN:VEVENT\r\nDTSTART:{stamp}\r\nDTEND;TZID=Asia/Tokyo:{stamp}\r\nRRULE:FREQ=DAILY;UNTIL={stamp}\r\nEND:VEVENT\r\n"))
    for off in ["+9999", "-9999", "+999999", "+2400", "-2359", "+235959", "+0060", "+000060", "+00", "+0", "+٠١٠٠", "+01:00"]:
        cases.append(("magnitude-offset", f"BEGIN:STANDARD\r\nTZOFFSETFROM:{off}\r\nTZOFFSETTO:{off}\r\nEND:STANDARD\r\n"))
    cases.append(("long-line", "BEGIN:VEVENT\r\nSUMMARY:" + "x" * 300000 + "\r\nEND:VEVENT\r\n"))
    cases.append(("long-fold", "BEGIN:VEVENT\r\nSUMMARY:" + "\r\n ".join("x" for _ in range(20000)) + "\r\nEND:VEVENT\r\n"))
    cases.append(("many-params", "BEGIN:VEVENT\r\nSUMMARY" + "".join(f";X-P{i}=v" for i in range(3000)) + ":x\r\nEND:VEVENT\r\n"))
    cases.append(("many-quotes", "BEGIN:VEVENT\r\nSUMMARY;X=" + '"' * 5001 + ":x\r\nEND:VEVENT\r\n"))
    cases.append(("many-categories", "BEGIN:VEVENT\r\nCATEGORIES:" + "," * 20000 + "\r\nEND:VEVENT\r\n"))
    # parameter lists with sequences that are escapes in RFC 6868: read, serialised and read again without any other exception
    for pv in ('"mailto:a^n","mailto:b"', '"x^^y","z^\'w"', "a^n,b^n", '"^n"', "^^,^'", '"a","b^n c"'):
        for pn in ("MEMBER", "DELEGATED-TO", "X-P", "CN"):
            cases.append(("caret-list", f"BEGIN:VEVENT\r\nATTENDEE;{pn}={pv}:mailto:x@example.com\r\nEND:VEVENT\r\n"))
            cases.append(("caret-list-strict", f"BEGIN:VTODO\r\nATTENDEE;{pn}={pv};ROLE=CHAIR:mailto:x@example.com\r\nEND:VTODO\r\n"))
    cases.append(("bom-mid", "BEGIN:VEVENT\r\n﻿SUMMARY:x\r\nEND:VEVENT\r\n"))
    cases.append(("nul", "BEGIN:VEVENT\r\nSUMMARY:a\x00b\r\nX\x00Y:1\r\nEND:VEVENT\r\n"))
    cases.append(("only-folds", "\r\n \r\n \r\n\t\r\n"))
    cases.append(("fold-start", " BEGIN:VEVENT\r\nEND:VEVENT\r\n"))
    cases.append(("truncated", "BEGIN:VEVENT\r\nDTSTART;TZID=Europe/Ber"))
    cases.append(("truncated2", "BEGIN:VCALENDAR\r\nBEGIN:VEVENT\r\nSUMMARY:x\r\nEND:VEV"))
    cases.append(("quotes", 'BEGIN:VEVENT\r\nATTENDEE;CN="a;b":mailto:x\r\nATTENDEE;CN="a:mailto:x\r\nATTENDEE;CN=a"b:mailto:x\r\nEND:VEVENT\r\n'))
    return cases


def run(ctx: Ctx):
    rnd = random.Random(ctx.seed)
    ev, meta = [], []
    n, en = (5, 4) if ctx.quick else (6, 5)
    r = ctx.mc("MC_Parser", cfg_text(spec="Spec", constants={"MaxLen": n, "EmitLen": en},
                                     invariants=["InvTotal", "InvIsolated", "InvStable", "Vec"]),
               workers=8 if ctx.quick else 14, timeout=6000)
    # liveness: the stepping form of the loop consumes every input (weak fairness, no state constraint)
    ctx.mc("MC_ParserRun", cfg_text(spec="Spec", constants={"MaxLen": 4 if ctx.quick else 6}, invariants=["InvAgree"],
                                    properties=["Terminates"]), workers=4 if ctx.quick else 12, timeout=3000)
    vecs = r.prints
    if len(vecs) < 5000:
        raise Machinery(f"too few sequences {len(vecs)}")
    ctx.sample(vecs[len(vecs) // 2])
    try:
        for prov in ("zoneinfo", "pytz"):
            tzp.use(prov)
            sel = vecs if prov == "zoneinfo" else (vecs[::4] if ctx.quick else vecs[::2])
            for v in sel:
                x = v["x"]
                bad = any(t["k"] in ("J", "PB") for t in x)
                ctx.case((prov, repr(x)), bad and any(t["k"] == "B" for t in x))
                for rep in range(1 if ctx.quick else 2):
                    lines = pc.concretise(x, rnd)
                    text = "\r\n".join(lines) + ("\r\n" if lines else "")
                    if rnd.random() < 0.3:
                        text = text.replace("\r\n", "\n")
                    data = text.encode("utf-8") if rnd.random() < 0.7 else text
                    for multiple, key in ((True, "multi"), (False, "single")):
                        out, detail, ms, res = outcome(data, multiple)
                        want = v[key]
                        case = {"x": x, "text": text, "multiple": multiple, "provider": prov}
                        ctx.evaluations += 1
                        if out == "exc":
                            ctx.fail("P:C04:only-valueerror", case, detail, None)
                            continue
                        if ms > BUDGET_MS:
                            ctx.fail("P:C04:terminates-in-budget", case, ms, BUDGET_MS)
                        if out != want[0]:
                            ctx.fail("P:C04:outcome-class", case, out, want[0])
                            continue
                        if out == "ok":
                            got = [pc.alpha_tree(c) for c in res]
                            if len(got) != len(want[1]) or not all(pc.same_tree(a, b) and a["errs"] == b["errs"] and
                                                                  _errs_equal(a, b) for a, b in zip(got, want[1])):
                                ctx.fail("P:C04:isolation-tree", case, got, want[1])
    finally:
        tzp.use_default()

    # ------------------------------------------------------------- hostile pools + fuzz
    fixtures = sorted(glob.glob(str(REPO / "src/icalendar/tests/*/*.ics")))
    raw = [open(f, "rb").read() for f in fixtures]
    if len(raw) < 50:
        raise Machinery("fixtures missing")
    tokens = [b"BEGIN:", b"END:", b"VEVENT", b"VCALENDAR", b"VTIMEZONE", b"STANDARD", b"DAYLIGHT", b"VALARM", b"\r\n", b"\n", b"\r\n ", b":", b";",
              b"=", b",", b'"', b"\\", b"TZID=", b"TZID:", b"DTSTART", b"RRULE:FREQ=", b"YEARLY", b"VALUE=", b"DATE", b"PERIOD", b"/", b"P1D", b"20240101",
              b"T000000", b"Z", b"RDATE", b"FREEBUSY", b"TRIGGER", b"X-", b"\xff", b"\xc3", b"\x00", b"%2C", b"TZOFFSETFROM:", b"+0100", b"-", b"Europe/Berlin",
              b"DURATION:", b"ATTENDEE", b"mailto:", b"GEO:", b"1;2", b"CATEGORIES:"]
    nf = 600 if ctx.quick else 150000
    try:
        for prov in ("zoneinfo", "pytz"):
            tzp.use(prov)
            for tag, text in hostile_cases(rnd):
                for multiple in (True, False):
                    out, detail, ms, _ = outcome(text, multiple)
                    ev.append({"out": out, "ms": ms})
                    meta.append({"tag": tag, "text": text[:400], "multiple": multiple, "provider": prov, "detail": detail})
                    ctx.case(("hostile", tag, text, multiple, prov), True)
            for i in range(nf // 2):
                mode = rnd.random()
                if mode < 0.55:
                    b = bytearray(rnd.choice(raw))
                    if len(b) > 6000:
                        st = rnd.randrange(0, len(b) - 3000)
                        b = b[st:st + 3000]
                    for _ in range(rnd.randint(1, 6)):
                        op = rnd.random()
                        pos = rnd.randrange(0, max(1, len(b)))
                        if op < 0.3:
                            b[pos:pos + rnd.randint(0, 20)] = b""
                        elif op < 0.6:
                            b[pos:pos] = rnd.choice(tokens)
                        elif op < 0.8 and b:
                            b[pos % len(b)] = rnd.randrange(256)
                        else:
                            a = rnd.randrange(0, max(1, len(b)))
                            b[pos:pos] = b[a:a + rnd.randint(0, 60)]
                    data = bytes(b)
                elif mode < 0.85:
                    data = b"".join(rnd.choice(tokens) for _ in range(rnd.randint(1, 60)))
                else:
                    data = bytes(rnd.randrange(256) for _ in range(rnd.randint(0, 200)))
                multiple = rnd.random() < 0.5
                out, detail, ms, _ = outcome(data, multiple)
                ev.append({"out": out, "ms": ms})
                meta.append({"tag": "fuzz", "data": data[:600].decode("latin-1"), "multiple": multiple, "provider": prov, "detail": detail})
                ctx.case(("fuzz", data, multiple, prov), True)
    finally:
        tzp.use_default()
    # ------------------------------------------------------------- hooks: per-line events of real parses (code -> spec)
    from icalendar import _verif
    if not getattr(_verif, "ENABLED", False):
        raise Machinery("icalendar._verif hooks are not enabled (ICALENDAR_VERIF=1 must be set before import)")
    lev, lmeta = [], []
    sink = []
    _verif.set_sink(sink.append)
    try:
        inputs = [(os.path.basename(f), d) for f, d in zip(fixtures, raw) if len(d) < (6000 if ctx.quick else 40000)]
        inputs += [(tag, t.encode("utf-8")) for tag, t in hostile_cases(rnd)][:: (3 if ctx.quick else 1)]
        for tag, data in inputs:
            if len(data) > 40000 or any(len(ln) > 600 for ln in data.split(b"\n")):
                continue            # TLC classifies every line with the parts() mirror: keep lines short
            for multiple in (True, False):
                del sink[:]
                r = pc.real_parse(data, multiple)
                if r[0] == "exc":
                    continue            # reported by the outcome clauses above
                lev.append({"ev": "start"})
                lmeta.append({"input": tag, "multiple": multiple})
                for e in sink:
                    lev.append({"ev": e["ev"], "line": [ord(c) for c in e["line"]], "depth": e["depth"], "comps": e["comps"]})
                    lmeta.append({"input": tag, "multiple": multiple, "line": e["line"][:120], "seq": e["seq"]})
                lev.append({"ev": "finish", "outcome": "ok" if r[0] == "ok" else "err",
                            "ncomps": len(r[1]) if (r[0] == "ok" and multiple) else -1})
                lmeta.append({"input": tag, "multiple": multiple})
                ctx.case(("lines", tag, multiple), True)
    finally:
        _verif.set_sink(None)
    ctx.notes.append(f"hook events validated against the automaton: {len(lev)}")
    # one TLC run per group of whole parses (the automaton state must not be cut at a chunk boundary)
    start = 0
    bounds = [i for i, e in enumerate(lev) if e["ev"] == "start"] + [len(lev)]
    group_start = 0
    for b in bounds[1:]:
        if b - group_start >= 3000 or b == len(lev):
            part = lev[group_start:b]
            for idx, clause, known in ctx.validate_trace("Trace_ParserLines", part, cfg_text(spec="Spec"), chunk=10 ** 9, timeout=3000,
                                                         name=f"lines{group_start}"):
                gi = group_start + idx
                if clause.startswith("M:"):
                    ctx.drifted(clause, lmeta[gi])
                else:
                    ctx.fail(clause, lmeta[gi], lev[gi].get("ev"), None)
            group_start = b

    outs = {}
    for e in ev:
        outs[e["out"]] = outs.get(e["out"], 0) + 1
    ctx.notes.append(f"hostile+fuzz outcomes: {outs}")
    ctx.sample({"trace_event": ev[0], "case": meta[0]["tag"]})
    for idx, clause, known in ctx.validate_trace("Trace_Parser", ev, cfg_text(spec="Spec", constants={"Budget": BUDGET_MS}),
                                                 chunk=20000, timeout=1200):
        ctx.fail(clause, meta[idx], ev[idx], None)
    ctx.assumptions += [
        "the fuzz part is seeded mutation/generation with a TLC-evaluated acceptance predicate (outcome class, CPU budget); it is sampling, not enumeration",
        f"CPU budget per case {BUDGET_MS} ms (process time)",
    ]
    # ------------------------------------------------------------- SUITE: calls observed in the repository's own tests
    from vf import suite
    suite.step(ctx, "lines", ["P:C04"])
    # ------------------------------------------------------------- FRESH: history independence of returned objects (spec/Fresh.tla)
    from vf import fresh
    fresh.step(ctx, "C04")
    return ctx.finish(rule=(
        "all abstract line sequences (9 tokens) up to length 5/6 checked by TLC, those up to length 4/5 concretised and parsed single+multiple "
        "under both providers; ~170 hostile structured cases; mutated fixtures / token soup / random bytes; non-trivial = contains a bad line "
        "inside some component, or is a hostile/fuzz case"))


def _errs_equal(a, b):
    return all(x["errs"] == y["errs"] and _errs_equal(x, y) for x, y in zip(a["kids"], b["kids"]))


if __name__ == "__main__":
    main_wrapper(run, "C04")
