"""C05 — content-line join/split are inverse; values cannot inject structure.

MC      spec/MC_ContentLine (families inject/value): parameter value x value text over the
        delimiter alphabet {a ; : , " \\ % 2 C = CR LF SP}, TEXT and raw (URI-like) values;
        the mirror's outcome Refused | Rejected | Exact | Corrupted is computed by TLC.
REPLAY  Contentline.from_parts/parts and Event/Todo add -> to_ical -> from_ical; the tree read
        back is compared structurally (component, property and parameter names).
RECORD  random longer Unicode cases incl. control characters and BEGIN:/END: text.
VALIDATE spec/Trace_ContentLine: value round trip, no raw LF on the wire, no injection.
"""
import random

from vf.core import Ctx, cfg_text, main_wrapper, Machinery
from vf import clcommon as cl
from icalendar import Event, Calendar

ALPHA = {97, 59, 58, 44, 34, 92, 37, 50, 67, 61, 13, 10, 32}


def run(ctx: Ctx):
    ev, meta = [], []
    small_p = {97, 59, 58, 92, 34, 44}
    small_v = {97, 59, 58, 44, 92, 61, 10}
    if ctx.quick:
        fams = [("inject", dict(PLen=2, VLen=3, PAlpha=small_p, VAlpha=small_v)),
                ("injectlist", dict(PLen=2, VLen=1, PAlpha={97, 59, 58, 34, 44}, VAlpha={97})),
                ("value", dict(PLen=1, VLen=3, PAlpha=ALPHA, VAlpha=ALPHA))]
    else:
        mid = {97, 59, 58, 44, 34, 92, 37, 61, 10}
        fams = [("inject", dict(PLen=2, VLen=3, PAlpha=mid, VAlpha=mid)),
                ("inject", dict(PLen=1, VLen=3, PAlpha=ALPHA, VAlpha=ALPHA)),
                ("inject", dict(PLen=2, VLen=4, PAlpha=small_p, VAlpha={97, 59, 58, 92, 61})),
                ("injectlist", dict(PLen=2, VLen=2, PAlpha={97, 59, 58, 34, 44, 92, 61}, VAlpha={97, 59, 58})),
                ("value", dict(PLen=1, VLen=4, PAlpha=ALPHA, VAlpha=ALPHA))]
    for fam, k in fams:
        r = ctx.mc("MC_ContentLine", cfg_text(spec="Spec", constants={
            "LLen": 1, "Family": fam, **k},
            invariants=["InvKF05", "Vec"]), workers=6 if ctx.quick else 14, timeout=6000)
        if len(r.prints) < 1000:
            raise Machinery("too few vectors")
        outs = {}
        for v in r.prints:
            outs[v["outcome"]] = outs.get(v["outcome"], 0) + 1
            cl.replay_vector(ctx, v, ev, meta, "C05")
        ctx.notes.append(f"family {fam}: model outcomes {outs}")
        need = {"refused", "exact"} if 10 in k["VAlpha"] else {"exact", "corrupted"}
        if fam == "inject" and not (need <= set(outs)):
            raise Machinery(f"vacuous outcome table {outs}")
        ctx.sample({"family": fam, "vector": {k2: r.prints[len(r.prints) // 2][k2] for k2 in ("c", "line", "outcome", "okValue")}})
    cl.record_random(ctx, ev, meta, 300 if ctx.quick else 4000,
                     [97, 59, 58, 44, 34, 92, 37, 50, 67, 61, 13, 10, 32, 66, 69, 71, 73, 78, 1, 0, 127, 9], "C05")
    # hostile whole-text payloads through every text-like value type
    rnd = random.Random(ctx.seed)
    payloads = ["\r\nBEGIN:VEVENT\r\nSUMMARY:x\r\nEND:VEVENT", "a\nATTENDEE:mailto:x", "x\r\n END:VCALENDAR",
                "\\\nX:1", "a\\", "a\\\\", "\";X=1:", "a:b;c=d", "\x00\x01", "%0D%0A", "\u2028BEGIN:X", "\x0bBEGIN:X",
                "\r", "\rBEGIN:VEVENT", "a\r\n", "\\n\nEND:VEVENT"]
    from icalendar.prop import vText, vUri, vCalAddress, vInline
    for pay in payloads:
        for mk in (lambda s: s, vUri, vCalAddress, vInline, lambda s: vText(s)):
            for where in ("value", "param"):
                cal = Calendar()
                e = Event()
                cal.add_component(e)
                ctx.evaluations += 1
                try:
                    if where == "value":
                        e.add("x-a", mk(pay), parameters={"P": "1"})
                    else:
                        e.add("x-a", mk("v"), parameters={"P": pay})
                    b = cal.to_ical()
                except (AssertionError, ValueError, TypeError):
                    continue      # refused
                try:
                    back = Calendar.from_ical(b)
                except ValueError:
                    continue      # rejected as a whole (strict VCALENDAR) -- permitted
                names = [c.name for c in back.walk()]
                evs = back.walk("VEVENT")
                ok = names == ["VCALENDAR", "VEVENT"] and len(back) == 0
                if ok:
                    st = cl.structure(evs[0])
                    ok = st in ([["X-A", ["P"]]], []) and (st or evs[0].errors)
                if not ok:
                    hit = where == "param" and "\\" in pay
                    ctx.fail("P:C05:component-no-injection",
                             {"payload": pay, "where": where, "impl_equal": False, "param_backslash": hit},
                             {"names": names, "props": [cl.structure(x) for x in evs]}, None)
    for idx, clause, known in ctx.validate_trace("Trace_ContentLine", ev, cfg_text(spec="Spec"), chunk=4000, timeout=3000):
        if clause.startswith("P:C05"):
            case = dict(meta[idx]); case["impl_equal"] = known
            ctx.fail(clause, case, ev[idx].get("parts"), None)
    ctx.assumptions += ["a bare CR is not a line break for RFC 5545 framing nor for this parser",
                        "folding is exact (C06)", "structure = component names, property names, parameter names"]
    # ------------------------------------------------------------- SUITE: calls observed in the repository's own tests
    from vf import suite
    suite.step(ctx, "join", ["P:C05"])
    # ------------------------------------------------------------- FRESH: history independence of returned objects (spec/Fresh.tla)
    from vf import fresh
    fresh.step(ctx, "C05")
    return ctx.finish(rule=(
        "parameter value (<=2) x value text (<=2/3) and value text alone (<=4/5) over {a ; : , \" \\ % 2 C = CR LF SP}, "
        "TEXT and raw value kinds, at Contentline, Event (lenient) and Todo (strict) level; random Unicode cases; hostile "
        "payload list; non-trivial = contains a delimiter/escape/control character"))


if __name__ == "__main__":
    main_wrapper(run, "C05")
