"""C05 — content-line join/split are inverse; values cannot inject structure.

MC      spec/MC_ContentLine (families inject/value): parameter value x value text over the
        delimiter alphabet {a ; : , " \\ % 2 C = CR LF SP}, TEXT and raw (URI-like) values;
        the mirror's outcome Refused | Rejected | Exact | Corrupted is computed by TLC.
REPLAY  Contentline.from_parts/parts and Event/Todo add -> to_ical -> from_ical; the tree read
        back is compared structurally (component, property and parameter names).
RECORD  random longer Unicode cases incl. control characters and BEGIN:/END: text.
VALIDATE spec/Trace_ContentLine: value round trip, no raw LF on the wire, no injection.
"""
import random

from vf.core import Ctx, cfg_text, main_wrapper, Machinery
from vf import clcommon as cl
from icalendar import Event, Calendar, Todo

ALPHA = {97, 59, 58, 44, 34, 92, 37, 50, 67, 61, 13, 10, 32}


def _same_ps(got, want):
    g = sorted((cl.S(p["k"]).upper(), [cl.S(v) for v in p["vals"]]) for p in got)
    w = sorted((cl.S(p["k"]).upper(), [cl.S(v) for v in p["vals"]]) for p in want)
    return g == w


def run(ctx: Ctx):
    ev, meta = [], []
    small_p = {97, 59, 58, 92, 34, 44}
    small_v = {97, 59, 58, 44, 92, 61, 10}
    if ctx.quick:
        fams = [("inject", dict(PLen=2, VLen=3, PAlpha=small_p, VAlpha=small_v)),
                ("injectlist", dict(PLen=2, VLen=1, PAlpha={97, 59, 58, 34, 44}, VAlpha={97})),
                ("value", dict(PLen=1, VLen=3, PAlpha=ALPHA, VAlpha=ALPHA))]
    else:
        mid = {97, 59, 58, 44, 34, 92, 37, 61, 10}
        fams = [("inject", dict(PLen=2, VLen=3, PAlpha=mid, VAlpha=mid)),
                ("inject", dict(PLen=1, VLen=3, PAlpha=ALPHA, VAlpha=ALPHA)),
                ("inject", dict(PLen=2, VLen=4, PAlpha=small_p, VAlpha={97, 59, 58, 92, 61})),
                ("injectlist", dict(PLen=2, VLen=2, PAlpha={97, 59, 58, 34, 44, 92, 61}, VAlpha={97, 59, 58})),
                ("value", dict(PLen=1, VLen=4, PAlpha=ALPHA, VAlpha=ALPHA))]
    for fam, k in fams:
        r = ctx.mc("MC_ContentLine", cfg_text(spec="Spec", constants={
            "LLen": 1, "Family": fam, **k},
            invariants=["InvKF05", "Vec"]), workers=6 if ctx.quick else 14, timeout=6000)
        if len(r.prints) < 1000:
            raise Machinery("too few vectors")
        outs = {}
        for v in r.prints:
            outs[v["outcome"]] = outs.get(v["outcome"], 0) + 1
            cl.replay_vector(ctx, v, ev, meta, "C05")
        ctx.notes.append(f"family {fam}: model outcomes {outs}")
        need = {"refused", "exact"} if 10 in k["VAlpha"] else {"exact", "corrupted"}
        if fam == "inject" and not (need <= set(outs)):
            raise Machinery(f"vacuous outcome table {outs}")
        ctx.sample({"family": fam, "vector": {k2: r.prints[len(r.prints) // 2][k2] for k2 in ("c", "line", "outcome", "okValue")}})
    cl.record_random(ctx, ev, meta, 300 if ctx.quick else 4000,
                     [97, 59, 58, 44, 34, 92, 37, 50, 67, 61, 13, 10, 32, 66, 69, 71, 73, 78, 1, 0, 127, 9], "C05")
    # Unicode hazards as parameter values and values: the line and the component read back must carry them unchanged
    from vf import hazards as _hz
    for i, hs in enumerate(_hz.strings()):
        c = {"ps": [{"k": cl.L("CN"), "list": False, "vals": [cl.L(hs)]}] if i % 2 == 0 else
             [{"k": cl.L("MEMBER"), "list": True, "vals": [cl.L(hs), cl.L("b" + hs)]}],
             "kind": ("text", "raw")[i % 2], "v": cl.L("v " + hs)}
        if any(ch in (34, 10, 13) or ch < 32 or ch == 127 for p in c["ps"] for v in p["vals"] for ch in v):
            continue
        ctx.case(("hazard", hs), True)
        refused, line, parts = cl.do_line(c)
        ev.append({"k": "line", "c": c, "refused": refused, "line": line or [], "parts": parts or {"ok": False}})
        meta.append({"c": c, "path": "Contentline", "hazard": True})
        for cls in (Event, Todo):
            out, detail = cl.do_component(c, cls)
            ctx.evaluations += 1
            if out == "exact":
                got = cl.alpha_params(detail[cl.NAME].params)
                val = cl.L(str.__str__(detail[cl.NAME]))
                if not _same_ps(got, c["ps"]) or val != c["v"]:
                    ctx.fail("P:C05:value-roundtrip", {"c": c, "cls": cls.__name__, "impl_equal": False, "hazard": True}, [got, val], None)
            elif out != "refused":
                ctx.fail("P:C05:component-no-injection", {"c": c, "cls": cls.__name__, "impl_equal": False, "hazard": True}, [out, detail if out == "corrupted" else None], None)
    # property NAMES that are substrings / prefixes / extensions of names the parser treats specially: an unknown name is a
    # single TEXT property whatever it resembles
    for nm in ["BUSY", "FREE", "E", "B", "F", "FREEBUSYX", "X-FREEBUSY", "BEGINNING", "ENDING", "EN", "BEG", "X-BEGIN", "X-END", "RDATE2", "DATE", "EXDAT",
               "CATEGORIE", "CATEGORIESX", "RESOURCE", "TZIDX", "VALUE", "DTSTARTX", "X-COMMENTX", "X", "A-B-C", "N1", "1N"]:
        for val in ["lunch, then gym", "a;b:c,d", "20240101T000000Z/PT1H,20240102T000000Z/PT1H", "x"]:
            for cls in (Event, Todo):
                ctx.evaluations += 1
                ctx.case(("name", nm, val, cls.__name__), True)
                c0 = cls()
                try:
                    c0.add(nm, val, parameters={"P": "1"})
                    b = c0.to_ical()
                    back = cls.from_ical(b)
                except ValueError:
                    continue
                st = cl.structure(back)
                ok = st == [[nm.upper(), ["P"]]] and not back.subcomponents and str.__str__(back[nm]) == val
                if not ok and not (st == [] and back.errors):
                    ctx.fail("P:C05:component-no-injection", {"name": nm, "value": val, "cls": cls.__name__, "impl_equal": False},
                             {"props": st, "values": [str(x) for x in (back.get(nm) if isinstance(back.get(nm), list) else [back.get(nm)])][:4]}, None)
    # hostile whole-text payloads through every text-like value type
    rnd = random.Random(ctx.seed)
    payloads = ["\r\nBEGIN:VEVENT\r\nSUMMARY:x\r\nEND:VEVENT", "a\nATTENDEE:mailto:x", "x\r\n END:VCALENDAR",
                "\\\nX:1", "a\\", "a\\\\", "\";X=1:", "a:b;c=d", "\x00\x01", "%0D%0A", "\u2028BEGIN:X", "\x0bBEGIN:X",
                "\r", "\rBEGIN:VEVENT", "a\r\n", "\\n\nEND:VEVENT"]
    # code points that become (or look like) delimiters under Unicode normalisation / line splitting, followed by structure
    from vf import hazards
    for cp in hazards.LOOKALIKE_DELIMS:
        d = chr(cp)
        payloads += ["Smith" + d + "ROLE=CHAIR", "x" + d + "BEGIN:VEVENT", d + "a=b" + d + "c", "x" + d + "\r\nEND:VEVENT"[:1] + "y", "v" + d]
    from icalendar.prop import vText, vUri, vCalAddress, vInline
    class _PS(str):
        """a str subclass as a parameter value"""
    for pay in payloads:
        for mk in (lambda s: s, vUri, vCalAddress, vInline, lambda s: vText(s)):
            for where in ("value", "param", "param-vtext", "param-subclass"):
                cal = Calendar()
                e = Event()
                cal.add_component(e)
                ctx.evaluations += 1
                try:
                    if where == "value":
                        e.add("x-a", mk(pay), parameters={"P": "1"})
                    else:
                        # the parameter value as a plain str, as the library's own str subclass vText, as a user subclass
                        pv = {"param": pay, "param-vtext": vText(pay), "param-subclass": _PS(pay)}[where]
                        e.add("x-a", mk("v"), parameters={"P": pv})
                    b = cal.to_ical()
                except (AssertionError, ValueError, TypeError):
                    continue      # refused
                try:
                    back = Calendar.from_ical(b)
                except ValueError:
                    continue      # rejected as a whole (strict VCALENDAR) -- permitted
                names = [c.name for c in back.walk()]
                evs = back.walk("VEVENT")
                ok = names == ["VCALENDAR", "VEVENT"] and len(back) == 0
                if ok:
                    st = cl.structure(evs[0])
                    ok = st in ([["X-A", ["P"]]], []) and (st or evs[0].errors)
                if ok and where != "value" and st and "\\" not in pay and "%" not in pay and '"' not in pay:
                    # accepted and structurally exact: then the parameter VALUE is the intended one, too
                    gotp = evs[0]["X-A"].params.get("P")
                    if gotp != pay:
                        ctx.fail("P:C05:value-roundtrip", {"payload": pay, "where": where, "impl_equal": False, "typed_param": True}, repr(gotp)[:120], None)
                if not ok:
                    hit = where.startswith("param") and "\\" in pay
                    ctx.fail("P:C05:component-no-injection",
                             {"payload": pay, "where": where, "impl_equal": False, "param_backslash": hit},
                             {"names": names, "props": [cl.structure(x) for x in evs]}, None)
    # the value text is the value whatever parameters accompany it: parameters that announce a transfer encoding, a character
    # set or a type to other parsers do not make this one re-interpret the text
    accomp = [{"ENCODING": "QUOTED-PRINTABLE"}, {"ENCODING": "quoted-printable", "LANGUAGE": "en"}, {"ENCODING": "QUOTED-PRINTABLE", "CHARSET": "latin-1"},
              {"ENCODING": "8BIT"}, {"ENCODING": "BASE64"}, {"CHARSET": "utf-16"}, {"VALUE": "TEXT"}, {"FMTTYPE": "text/html"}, {"X-ENCODING": "URL"}, {"LANGUAGE": "en"}]
    texts = ["1 + 1 =3D 2, caf=C3=A9", "a=41b", "soft=", "=3D=3D", "aGVsbG8=", "a%41b%0D%0Ac", "&amp;&#65;", "\\u0041", "=?utf-8?q?a=41?=", "caf\u00e9 =E9"]
    for prm in accomp:
        for txt in texts:
            for nm, mk in (("description", vText), ("x-note", vText), ("x-plain", lambda s: s), ("url", vUri), ("comment", vText), ("attendee", vCalAddress)):
                ctx.evaluations += 1
                ctx.case(("accompanied", tuple(sorted(prm.items())), txt, nm), True)
                e = Event()
                try:
                    e.add(nm, mk(txt), parameters=dict(prm))
                    cal = Calendar()
                    cal.add_component(e)
                    cur = cal
                    for _ in range(2):
                        cur = Calendar.from_ical(cur.to_ical())
                    (bev,) = cur.walk("VEVENT")
                    got = bev[nm]
                    ok = not bev.errors and str.__str__(got) == txt and {k: v for k, v in got.params.items()} == {k.upper(): v for k, v in prm.items()}
                    obs = {"value": str.__str__(got) if isinstance(got, str) else repr(got)[:80], "params": dict(got.params), "errors": [list(map(str, x))[:2] for x in bev.errors]}
                except Exception as x:   # noqa: BLE001
                    ok, obs = False, type(x).__name__ + ": " + str(x)[:80]
                if not ok:
                    ctx.fail("P:C05:value-roundtrip", {"name": nm, "value": txt, "params": prm, "impl_equal": False, "accompanied": True}, obs, None)
    for idx, clause, known in ctx.validate_trace("Trace_ContentLine", ev, cfg_text(spec="Spec"), chunk=4000, timeout=3000):
        if clause.startswith("P:C05"):
            case = dict(meta[idx]); case["impl_equal"] = known
            ctx.fail(clause, case, ev[idx].get("parts"), None)
        elif clause == "P:C08:line-roundtrip":
            # "splitting that line returns ... the same parameters": the clause that C08 owns is C05's as well (values free of
            # DQUOTE and control characters, where the round trip is required)
            case = dict(meta[idx]); case["impl_equal"] = known
            ctx.fail("P:C05:same-parameters", case, ev[idx].get("parts"), None)
    ctx.assumptions += ["a bare CR is not a line break for RFC 5545 framing nor for this parser",
                        "folding is exact (C06)", "structure = component names, property names, parameter names"]
    # ------------------------------------------------------------- SUITE: calls observed in the repository's own tests
    from vf import suite
    suite.step(ctx, "join", ["P:C05"])
    # ------------------------------------------------------------- FRESH: history independence of returned objects (spec/Fresh.tla)
    from vf import fresh
    fresh.step(ctx, "C05")
    return ctx.finish(rule=(
        "parameter value (<=2) x value text (<=2/3) and value text alone (<=4/5) over {a ; : , \" \\ % 2 C = CR LF SP}, "
        "TEXT and raw value kinds, at Contentline, Event (lenient) and Todo (strict) level; random Unicode cases; hostile "
        "payload list; non-trivial = contains a delimiter/escape/control character"))


if __name__ == "__main__":
    main_wrapper(run, "C05")
