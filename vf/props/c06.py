"""C06 — folding: <= 75 octets, no split characters, exact unfolding.

MC      spec/MC_Folding: Impl foldline |= IsFolding and ImplUnfold(ImplFold(s)) = s for
        every line over {1,2,3,4-octet, SP, CR} up to a length bound at small limits, and
        for the boundary family a^i w a^j at limit 75; limit 4 must be refuted (vacuity).
REPLAY  vectors -> foldline(line, limit) / Contentline(line).to_ical(); equal to the
        mirror => TLC's verdict applies, otherwise judged by TLC at octet level.
RECORD  long random lines, every line of every serialised fixture component.
VALIDATE spec/Trace_Folding: per physical line budget, UTF-8 validity, one added space,
        exact unfolding -- evaluated on the recorded octets.
"""
import glob
import os
import random

from vf.core import Ctx, cfg_text, main_wrapper, Machinery, REPO
from icalendar.parser import foldline, Contentline, Contentlines
from icalendar import Calendar, Component

ALPHA = {97, 233, 8364, 128512, 32, 13}


def S(a):
    return "".join(map(chr, a))


def L(s):
    return [ord(c) for c in s]


def run(ctx: Ctx):
    ev, meta = [], []
    base = {"Wide": {233}, "Lo": 1, "Hi": 1, "Tails": {0}}
    # vacuity guard: the loop is unsound for limit < widest + 2; TLC must find that
    r0 = ctx.mc("MC_Folding", cfg_text(init="InitEnum", next="NextEnum", constants={
        **base, "Limit": 4, "MaxLen": 3, "Alpha": ALPHA, "Emit": False}, invariants=["InvFold"]),
        expect_ok=False, count=False, workers=1, timeout=300)
    if r0.violated != "InvFold":
        raise Machinery("limit 4 should refute InvFold (vacuity guard)")
    limits = [6, 8] if ctx.quick else [6, 7, 8, 9, 10]
    for lim in limits:
        # invariants at depth N, vectors emitted at depth N-1
        n = 7 if ctx.quick else 8
        ctx.mc("MC_Folding", cfg_text(init="InitEnum", next="NextEnum", constants={
            **base, "Limit": lim, "MaxLen": n, "Alpha": ALPHA, "Emit": False},
            invariants=["InvFold", "InvUnfold"]), workers=4 if ctx.quick else 12, timeout=3000)
        r = ctx.mc("MC_Folding", cfg_text(init="InitEnum", next="NextEnum", constants={
            **base, "Limit": lim, "MaxLen": 5 if ctx.quick else 6, "Alpha": ALPHA, "Emit": True},
            invariants=["InvFold", "InvUnfold", "Vec"]), workers=4, timeout=3000, count=False)
        for v in r.prints:
            replay(ctx, v, ev, meta, use_contentline=False)
    # boundary family at the real limit
    r = ctx.mc("MC_Folding", cfg_text(init="InitBoundary", next="NextNone", constants={
        "Limit": 75, "MaxLen": 0, "Alpha": ALPHA, "Emit": True,
        # one code point per UTF-8 width, plus code points a Unicode-aware folder might treat specially: combining
        # marks of 2/3/4 octets, joiners and variation selectors, the line separators of str.splitlines()
        "Wide": ({233, 8364, 128512, 32, 13, 9} if not ctx.quick else {233, 8364, 128512, 13})
        | {0x301, 0x20D7, 0x1D167, 0x200D, 0xFE0F, 0x2028, 0x85, 0x1C, 0x0B, 0xA0},
        "Lo": 68 if ctx.quick else 60, "Hi": 76 if ctx.quick else 80,
        "Tails": {0, 1, 75} if ctx.quick else {0, 1, 74, 75, 76}},
        invariants=["InvFold", "InvUnfold", "Vec"]), workers=4 if ctx.quick else 12, timeout=3000)
    if len(r.prints) < 100:
        raise Machinery("boundary family too small")
    for v in r.prints:
        replay(ctx, v, ev, meta, use_contentline=True)
    ctx.sample({"vector": {k: (v[k] if k != "out" else v[k][:40]) for k in v}})

    # ------------------------------------------------------------- RECORD
    rnd = random.Random(ctx.seed)
    nrand = 300 if ctx.quick else 3000
    widths = [97, 98, 32, 9, 13, 233, 0x7ff, 0x800, 8364, 0xffff, 0x10000, 128512, 0x10ffff, 58, 59,
              0x301, 0x308, 0x20D7, 0x1D167, 0x200D, 0xFE0F, 0x2028, 0x2029, 0x85, 0x1C, 0x0B, 0x0C, 0xA0, 0x5B0, 0x64B]
    todo = []
    for i in range(nrand):
        n = rnd.randint(50, 400 if not ctx.quick else 240)
        mode = rnd.random()
        if mode < 0.3:
            codes = [rnd.choice([97, 32, 9, 13, 58]) for _ in range(n)]
        else:
            codes = [rnd.choice(widths) for _ in range(n)]
        todo.append(codes)
    # physical lines that consist of blanks only: a tail of blanks that starts exactly at a fold point (+-2), and runs of
    # blanks longer than a physical line
    for n in list(range(71, 78)) + list(range(145, 152)) + [219, 220, 221, 222, 223]:
        for tail in (" ", "  ", "\t", " \t ", "   \t"):
            for wide in ("", "\u00e9", "\U0001F600"):
                if (n + len(tail) + len(wide)) % (1 if not ctx.quick else 3) == 0:
                    todo.append(L("X:" + wide + "a" * (n - 2 - len(wide.encode())) + tail))
    for run in (74, 75, 80, 148, 160):
        todo.append(L("X:a" + " " * run + "b"))
        todo.append(L("X:a" + "\t" * run))
        todo.append(L("X:" + "\u00e9" * 10 + " " * run + "\u00e9"))
    for i, codes in enumerate(todo):
        line = S(codes)
        ctx.case(("line", line), True)
        out = Contentline(line).to_ical()
        ev.append({"k": "fold", "line": codes, "limit": 75, "out": list(out)})
        meta.append({"line": codes, "path": "Contentline.to_ical"})
        got = Contentline.from_ical(out)
        ev.append({"k": "unfold", "line": codes, "got": L(str(got))})
        meta.append({"line": codes, "path": "Contentline.from_ical"})
        # several lines through Contentlines
        if i % 10 == 0:
            lines = Contentlines([Contentline(line), Contentline("X:" + line[:80]), Contentline("")])
            b = lines.to_ical()
            back = [str(x) for x in Contentlines.from_ical(b) if x]
            if back != [line, "X:" + line[:80]]:
                ctx.fail("P:C06:contentlines-roundtrip", {"line": codes}, [L(x) for x in back], None)
    # every line of every serialised fixture component
    nfix = 0
    files = sorted(glob.glob(str(REPO / "src/icalendar/tests/*/*.ics")))
    if not files:
        raise Machinery("no fixture files found")
    cap = 1500 if ctx.quick else 20000
    for f in files:
        try:
            comps = Component.from_ical(open(f, "rb").read(), multiple=True)
        except Exception:
            continue
        for comp in comps:
            try:
                lines = comp.content_lines()
                whole = comp.to_ical()
            except Exception:
                continue
            if whole != b"\r\n".join(l.to_ical() for l in lines if l) + b"\r\n":
                ctx.fail("P:C06:component-is-join-of-lines", {"file": os.path.basename(f)}, None, None)
            for ln in lines:
                if not ln:
                    continue
                s = str(ln)
                if (len(s) < 70 and s.isascii()) or nfix >= cap:
                    ctx.evaluations += 1
                    continue
                nfix += 1
                ctx.case(("fixture", s), True)
                ev.append({"k": "fold", "line": L(s), "limit": 75, "out": list(ln.to_ical())})
                meta.append({"file": os.path.basename(f), "line": L(s)[:60]})
    ctx.notes.append(f"fixture lines validated by TLC: {nfix}")
    # every way of constructing a content line: from bytes in a declared (non-default) encoding, strict or not; the
    # serialised form is UTF-8 whatever the input encoding was
    for text in ("SUMMARY:caf\u00e9 " + "\u00fc" * 50, "SUMMARY:plain ascii " + "x" * 70, "X-A;CN=\u00d8:" + "\u00e9" * 36 + "z" * 3, "SUMMARY:\u20ac" * 12):
        for enc in ("utf-8", "latin-1", "cp1252", "utf-16", "utf-8-sig"):
            for strict, as_str in ((False, False), (True, False), (False, True)):
                try:
                    raw = text if as_str else text.encode(enc)
                    cl = Contentline(raw, strict=strict, encoding=enc)
                except (UnicodeError, ValueError):
                    continue
                if str(cl) != text and str(cl).lstrip("\ufeff") != text:
                    continue
                ctx.case(("ctor", text[:12], enc, strict, as_str), True)
                try:
                    out = cl.to_ical()
                except Exception as e:   # noqa: BLE001
                    ctx.fail("P:C06:fold-total", {"line": L(str(cl))[:40], "encoding": enc, "strict": strict}, type(e).__name__, None)
                    continue
                ev.append({"k": "fold", "line": L(str(cl)), "limit": 75, "out": list(out)})
                meta.append({"line": L(str(cl))[:40], "path": f"Contentline({'str' if as_str else 'bytes'}, strict={strict}, encoding={enc!r}).to_ical"})
    # BEGIN / END lines are content lines like any other: a long (vendor) component name is folded as well
    from icalendar import Component as _Cmp
    for n in (60, 68, 69, 70, 74, 80, 120, 200):
        for body in ("X-" + "V" * n, "X-" + "\u00c4" * (n // 2)):
            c = _Cmp()
            c.name = body
            c.add("uid", "1")
            out = c.to_ical()
            ctx.case(("long-name", n, body[:4]), True)
            phys = out.split(b"\r\n")
            lines_, cur = [], None
            for ph in phys:
                if ph[:1] in (b" ", b"\t") and cur is not None:
                    cur.append(ph)
                else:
                    cur = [ph]
                    lines_.append(cur)
            for grp in lines_:
                if not grp[0]:
                    continue
                raw = b"\r\n".join(grp)
                logical = (grp[0] + b"".join(g[1:] for g in grp[1:])).decode("utf-8", "replace")
                ev.append({"k": "fold", "line": L(logical), "limit": 75, "out": list(raw)})
                meta.append({"line": L(logical)[:40], "path": "Component.to_ical (long component name)"})
    # lines that are short in CHARACTERS and long in OCTETS, through the list-level and component-level serialisers
    # (a fast path that measures len(str) must not skip folding)
    from icalendar import Event as _Ev
    for ch in (0xE9, 0x4E2D, 0x1F600, 0x301):
        for n in (20, 26, 37, 38, 40, 60, 66, 74):
            body = chr(ch) * n
            if ch == 0x301:
                body = "e" + body
            line = "SUMMARY:" + body
            if len(line) >= 75:
                continue
            ctx.case(("short-chars", ch, n), True)
            out = Contentlines([Contentline(line), Contentline("UID:1")]).to_ical()
            tail = b"\r\nUID:1\r\n"
            if not out.endswith(tail):
                ctx.fail("P:C06:contentlines-roundtrip", {"line": L(line), "path": "Contentlines.to_ical"}, list(out[-20:]), None)
                continue
            ev.append({"k": "fold", "line": L(line), "limit": 75, "out": list(out[:-len(tail)])})
            meta.append({"line": L(line)[:40], "path": "Contentlines.to_ical (all lines < 75 characters)"})
            e = _Ev()
            e.add("summary", body)
            out = e.to_ical()
            pre, post = b"BEGIN:VEVENT\r\n", b"\r\nEND:VEVENT\r\n"
            if out.startswith(pre) and out.endswith(post):
                ev.append({"k": "fold", "line": L(line), "limit": 75, "out": list(out[len(pre):-len(post)])})
                meta.append({"line": L(line)[:40], "path": "Event.to_ical (all lines < 75 characters)"})
    ctx.sample({"trace_event": {k: (v if not isinstance(v, list) else v[:30]) for k, v in ev[-1].items()}})
    for idx, clause, known in ctx.validate_trace("Trace_Folding", ev, cfg_text(spec="Spec"), chunk=3000, timeout=3000):
        ctx.fail(clause, meta[idx], ev[idx].get("out", ev[idx].get("got")), None)
    ctx.assumptions += ["content lines contain no LF (Contentline refuses it)",
                        "the serialised component is the CRLF-join of its lines' folded forms (checked as a glue equality)"]
    # ------------------------------------------------------------- SUITE: calls observed in the repository's own tests
    from vf import suite
    suite.step(ctx, "fold", ["P:C06"])
    # ------------------------------------------------------------- FRESH: history independence incl. failing calls (spec/Fresh.tla)
    from vf import fresh
    fresh.step(ctx, "C06")
    return ctx.finish(rule=(
        "all lines over {a, e-acute(2), euro(3), emoji(4), SP, CR} up to length 7/8 at limits 6..10, the family "
        "a^i w a^j (i 60..80, w <=2 wide symbols) at limit 75, random lines of 50..400 characters and all long or "
        "non-ASCII lines of the serialised fixtures; non-trivial = contains a multi-octet character, SP, TAB or CR, or is longer than 75 octets"))


def replay(ctx, v, ev, meta, use_contentline):
    s = S(v["s"])
    lim = v["limit"]
    ctx.case(("v", s, lim), any(c > 127 or c in (32, 13, 9) for c in v["s"]) or len(v["s"]) > lim)
    out = foldline(s, limit=lim)
    if L(out) != v["out"]:
        ctx.drifted("M:C06:fold-mirror", {"s": v["s"], "limit": lim}, L(out)[:80], v["out"][:80])
        ev.append({"k": "fold", "line": v["s"], "limit": lim, "out": list(out.encode("utf-8"))})
        meta.append({"s": v["s"], "limit": lim, "path": "foldline"})
    if use_contentline:
        b = Contentline(s).to_ical()
        if b != out.encode("utf-8"):
            ev.append({"k": "fold", "line": v["s"], "limit": 75, "out": list(b)})
            meta.append({"s": v["s"], "limit": 75, "path": "Contentline.to_ical"})
        got = str(Contentline.from_ical(b))
        if got != s:
            ctx.fail("P:C06:library-unfold", {"s": v["s"]}, L(got), v["s"])


if __name__ == "__main__":
    main_wrapper(run, "C06")
