"""C07 — TEXT escaping is lossless: alone, as a property value, in lists.

Pipeline (DESIGN.md 1.3):
  MC      spec/MC_TextCodec, MC_TextList: every string / list over the critical
          alphabet; InvEnc / InvWire hold of the Impl mirror; TLC prints one vector
          per string carrying the mirror's outputs and the Ref verdict on them.
  REPLAY  each vector is run through the real code.  Where the code's output equals
          the mirror's, the Ref verdict TLC computed applies; where it differs, the
          case is sent back to TLC as a trace event and judged by Ref there.
  RECORD  long random Unicode strings through the same paths.
  VALIDATE spec/Trace_TextCodec evaluates every clause on every event.
"""
import random

from vf.core import Ctx, cfg_text, main_wrapper, Machinery
from vf import realcode as rc

ALPHA = [92, 110, 78, 59, 44, 58, 34, 37, 50, 67, 13, 10, 32, 97]
CRIT = set(ALPHA) - {32, 97}


def S(a):
    return "".join(map(chr, a))


def L(s):
    return [ord(c) for c in s]


def nontrivial(codes):
    return any(c in CRIT or c > 127 for c in codes)


def run(ctx: Ctx):
    ev = []            # trace events for TLC
    meta = []          # parallel: case description

    def push(e, case):
        ev.append(e)
        meta.append(case)

    # ------------------------------------------------------------- MC + GEN + REPLAY (strings)
    maxlen = 4 if ctx.quick else 5
    r = ctx.mc("MC_TextCodec", cfg_text(
        spec="Spec", constants={"MaxLen": maxlen, "Alpha": set(ALPHA), "Emit": True},
        invariants=["InvEnc", "InvCodec", "InvKF", "Vec"]), workers=4 if ctx.quick else 12, timeout=3000)
    vectors = r.prints
    if not ctx.quick:
        r2 = ctx.mc("MC_TextCodec", cfg_text(
            spec="Spec", constants={"MaxLen": 4, "Alpha": {92, 110, 44, 59, 37, 50, 67, 65279, 233, 10},
                                    "Emit": True},
            invariants=["InvEnc", "Vec"]), workers=8, timeout=3000)
        vectors = vectors + r2.prints
    else:
        r2 = ctx.mc("MC_TextCodec", cfg_text(
            spec="Spec", constants={"MaxLen": 3, "Alpha": {92, 110, 44, 65279, 233, 128512},
                                    "Emit": True},
            invariants=["InvEnc", "Vec"]), workers=2, timeout=600)
        vectors = vectors + r2.prints
    # non-vacuity: the pinned pre-fix decoder is refuted by TLC (finding C07-F1, fixed)
    r0 = ctx.mc("MC_TextCodec", cfg_text(
        spec="Spec", constants={"MaxLen": 2, "Alpha": set(ALPHA), "Emit": False},
        invariants=["InvOld"]), expect_ok=False, count=False, workers=1, timeout=300)
    if r0.violated != "InvOld":
        raise Machinery("InvOld should be refuted by TLC (vacuity guard)")
    if len(vectors) < 1000:
        raise Machinery("too few vectors")
    n_drift = 0
    for v in vectors:
        s = S(v["s"])
        ctx.case(("s", s), nontrivial(v["s"]))
        # encoder
        esc = L(rc.text_encode(s))
        if esc != v["esc"]:
            n_drift += 1
            ctx.drifted("M:C07:esc-mirror", {"s": v["s"]}, esc, v["esc"])
            push({"k": "enc", "s": v["s"], "out": esc}, {"s": v["s"], "path": "enc"})
        # codec round trip
        out = L(rc.text_codec(s))
        if out == v["codec"]:
            if not v["codecOK"]:
                ctx.fail("P:C07:codec-roundtrip", {"s": v["s"], "impl_equal": True}, out, v["norms"])
        else:
            ctx.drifted("M:C07:codec-mirror", {"s": v["s"]}, out, v["codec"])
            push({"k": "codec", "s": v["s"], "out": out}, {"s": v["s"], "path": "codec"})
        # decode of a grammar-valid escaped text
        if v["gram"]:
            out = L(rc.text_decode(s))
            if out == v["unesc"]:
                if not v["decOK"]:
                    ctx.fail("P:C07:decode-rfc", {"s": v["s"], "impl_equal": True}, out, v["den"])
            else:
                ctx.drifted("M:C07:unesc-mirror", {"s": v["s"]}, out, v["unesc"])
                push({"k": "dec", "s": v["s"], "out": out}, {"s": v["s"], "path": "dec"})
        # property path
        ok, out, wire = rc.text_property(s)
        out = L(out) if ok else []
        m = v["prop"]
        if ok == m["ok"] and (not ok or out == m["v"]):
            if not v["propOK"]:
                ctx.fail("P:C07:prop-roundtrip", {"s": v["s"], "impl_equal": True}, out, v["norms"])
        else:
            ctx.drifted("M:C07:prop-mirror", {"s": v["s"]}, [ok, out], m)
            push({"k": "prop", "s": v["s"], "ok": ok, "out": out}, {"s": v["s"], "path": "prop"})
        if wire is not None:
            push({"k": "wire", "s": v["s"], "out": L(wire)}, {"s": v["s"], "path": "wire"})
    ctx.sample({"vector": vectors[len(vectors) // 2]})

    # ------------------------------------------------------------- MC + REPLAY (lists)
    if ctx.quick:
        consts = {"MaxLen": 2, "MaxItems": 2, "Alpha": {92, 110, 59, 44, 37, 10, 97, 34}}
    else:
        consts = {"MaxLen": 2, "MaxItems": 2, "Alpha": {92, 110, 78, 59, 44, 58, 37, 50, 67, 10, 13, 97, 34}}
    r = ctx.mc("MC_TextList", cfg_text(spec="Spec", constants=consts, invariants=["InvWire", "InvKF", "Vec"]),
               workers=4 if ctx.quick else 12, timeout=3000)
    for v in r.prints:
        items = [S(i) for i in v["items"]]
        ctx.case(("items", tuple(items)), any(nontrivial(i) for i in v["items"]))
        out = [L(x) for x in rc.cat_codec(items)]
        if out == v["codec"]:
            if not v["codecOK"]:
                ctx.fail("P:C07:list-codec", {"items": v["items"], "impl_equal": True}, out, v["items"])
        else:
            ctx.drifted("M:C07:catcodec-mirror", {"items": v["items"]}, out, v["codec"])
            push({"k": "catcodec", "items": v["items"], "out": out}, {"items": v["items"], "path": "catcodec"})
        ok, out, wire = rc.cat_property(items)
        out = [L(x) for x in out] if ok else []
        m = v["prop"]
        if ok == m["ok"] and (not ok or out == m["v"]):
            if not v["propOK"]:
                ctx.fail("P:C07:list-roundtrip", {"items": v["items"], "impl_equal": True}, out, v["items"])
        else:
            ctx.drifted("M:C07:catprop-mirror", {"items": v["items"]}, [ok, out], m)
            push({"k": "cat", "items": v["items"], "ok": ok, "out": out}, {"items": v["items"], "path": "cat"})
        if wire is not None:
            push({"k": "catwire", "items": v["items"], "out": L(wire)}, {"items": v["items"], "path": "catwire"})
    ctx.sample({"list_vector": r.prints[len(r.prints) // 3]})

    # ------------------------------------------------------------- RECORD (long random strings)
    rnd = random.Random(ctx.seed)
    n_long = 400 if ctx.quick else 4000
    maxl = 60 if ctx.quick else 160
    pool_u = [233, 8364, 128512, 65279, 0x2019, 0x85, 0x2028, 0x7f, 1, 9, 0xA0, 0x4e2d]
    for i in range(n_long):
        n = rnd.randint(1, maxl)
        mode = rnd.random()
        if mode < 0.5:
            codes = [rnd.choice(ALPHA) for _ in range(n)]
        elif mode < 0.8:
            codes = [rnd.choice(ALPHA + pool_u) for _ in range(n)]
        else:
            codes = []
            while len(codes) < n:
                c = rnd.randint(1, 0x10FFFF)
                if 0xD800 <= c <= 0xDFFF:
                    continue
                codes.append(c if rnd.random() < 0.6 else rnd.choice(ALPHA))
        s = S(codes)
        ctx.case(("s", s), True)
        push({"k": "enc", "s": codes, "out": L(rc.text_encode(s))}, {"s": codes, "path": "enc"})
        push({"k": "codec", "s": codes, "out": L(rc.text_codec(s))}, {"s": codes, "path": "codec"})
        ok, out, wire = rc.text_property(s)
        push({"k": "prop", "s": codes, "ok": ok, "out": L(out) if ok else []}, {"s": codes, "path": "prop"})
        if wire is not None:
            push({"k": "wire", "s": codes, "out": L(wire)}, {"s": codes, "path": "wire"})
        if i % 4 == 0:
            k = rnd.randint(1, 4)
            items = []
            for _ in range(k):
                a = rnd.randint(0, len(codes))
                b = min(len(codes), a + rnd.randint(0, 12))
                items.append(codes[a:b])
            sit = [S(x) for x in items]
            push({"k": "catcodec", "items": items, "out": [L(x) for x in rc.cat_codec(sit)]},
                 {"items": items, "path": "catcodec"})
            ok, out, wire = rc.cat_property(sit)
            push({"k": "cat", "items": items, "ok": ok, "out": [L(x) for x in out] if ok else []},
                 {"items": items, "path": "cat"})
            if wire is not None:
                push({"k": "catwire", "items": items, "out": L(wire)}, {"items": items, "path": "catwire"})
    # fold alignment: a line break, space, escape or multi-octet character at every column around the 75-octet fold of
    # the serialised property (the value must come back through fold -> unfold -> split -> decode unchanged)
    for chs in ([13], [32], [9], [92], [44], [59], [10], [13, 10], [0xE9], [0x1F600], [34], [58], [0x301]):
        for n in range(52, 78) if not ctx.quick else range(56, 76):
            codes = [120] * n + chs + [121, 122]
            s = S(codes)
            ctx.case(("align", tuple(chs), n), True)
            ok, out, wire = rc.text_property(s)
            push({"k": "prop", "s": codes, "ok": ok, "out": L(out) if ok else []}, {"s": codes, "path": "prop-align"})
            items = [codes[:30], codes[30:]]
            ok, out, wire = rc.cat_property([S(x) for x in items])
            push({"k": "cat", "items": items, "ok": ok, "out": [L(x) for x in out] if ok else []}, {"items": items, "path": "cat-align"})
    # every property that holds TEXT (by the RFCs, or because the name is unknown) goes through the same codec: the NAME of
    # the property does not change how commas, semicolons, backslashes and line breaks in the value are treated
    text_names = ["description", "comment", "location", "contact", "resources", "x-foo", "styled-description", "structured-data", "name", "color",
                  "tzname", "related-to", "uid", "x-wr-calname", "conference-x", "busy", "e"]
    for s_ in ("Easel, large; flip-chart", "a\nb", "back\\slash", "plain", "x:y", "\u00e9\u4e2d, \U0001F600"):
        for nm in text_names:
            ctx.case(("text-name", nm, s_), True)
            ok, out, wire = rc.text_property(s_, nm)
            push({"k": "prop", "s": L(s_), "ok": ok, "out": L(out) if ok else []}, {"s": L(s_), "path": f"prop {nm.upper()}"})
    # category items handed over as a tuple or as a one-shot iterator are the same items
    for items in ([L("a"), L("b,c"), L("d e")], [L("only")], [L("x"), L(""), L("z")]):
        for form in (tuple, "gen", "map", "iter"):
            ctx.case(("cat-form", str(form), repr(items)), True)
            ok, out, wire = rc.cat_property([S(x) for x in items], form)
            push({"k": "cat", "items": items, "ok": ok, "out": [L(x) for x in out] if ok else []}, {"items": items, "path": f"cat handed as {form}"})
    # strings that cannot be encoded (a lone surrogate; a character outside the requested encoding): refusing them is fine,
    # returning a DIFFERENT string is not
    from icalendar.prop import vText as _vT
    for s_, enc in (("party \ud83c", "utf-8"), ("\udc80x", "utf-8"), ("caf\u00e9 \u20ac", "latin-1"), ("\u4e2d", "ascii")):
        ctx.case(("unencodable", s_, enc), True)
        ctx.evaluations += 1
        try:
            got = str(_vT.from_ical(_vT(s_, encoding=enc).to_ical().decode(enc)))
        except Exception:   # noqa: BLE001  (refused)
            continue
        push({"k": "codec", "s": L(s_), "out": L(got)}, {"s": L(s_), "path": f"codec with encoding {enc}"})
        ok, out, wire = rc.text_property(s_) if enc == "utf-8" else (False, None, None)
        if ok:
            push({"k": "prop", "s": L(s_), "ok": ok, "out": L(out)}, {"s": L(s_), "path": "prop-unencodable"})
    # Unicode hazards: code points special to str.strip / isprintable / splitlines / normalize / upper (vf/hazards.py)
    from vf import hazards
    # sequences that are escapes in OTHER grammars (RFC 6868 parameter values, URL encoding, C strings, HTML): plain text here
    other_escapes = ["2^n", "a^^b", "^'q^'", "^", "^^n", "x^Ny", "100%", "%41", "a%0Ab", "&amp;", "&#10;", "\\x41"[1:], "\\u0041"[1:], "$(x)", "{0}", "%s"]
    for hs in hazards.strings() + other_escapes:
        codes = L(hs)
        ctx.case(("hazard", hs), True)
        push({"k": "enc", "s": codes, "out": L(rc.text_encode(hs))}, {"s": codes, "path": "enc-hazard"})
        push({"k": "codec", "s": codes, "out": L(rc.text_codec(hs))}, {"s": codes, "path": "codec-hazard"})
        ok, out, wire = rc.text_property(hs)
        push({"k": "prop", "s": codes, "ok": ok, "out": L(out) if ok else []}, {"s": codes, "path": "prop-hazard"})
        items = [codes, L("x") + codes]
        ok, out, wire = rc.cat_property([S(x) for x in items])
        push({"k": "cat", "items": items, "ok": ok, "out": [L(x) for x in out] if ok else []}, {"items": items, "path": "cat-hazard"})
    ctx.sample({"trace_event": ev[-1]})

    # ------------------------------------------------------------- VALIDATE
    fails = ctx.validate_trace("Trace_TextCodec", ev, cfg_text(spec="Spec"), chunk=4000, timeout=3000)
    for idx, clause, known in fails:
        case = dict(meta[idx])
        case["impl_equal"] = known
        e = ev[idx]
        ctx.fail(clause, case, e.get("out"), None)

    ctx.assumptions += [
        "Ref (Den, Norms, Safe) in spec/TextCodec.tla is the reading of RFC 5545 3.3.11 fixed in DESIGN.md section 3",
        "a bare CR is not a line break; lone surrogates are outside the domain",
        "folding/unfolding of the serialised component is exact (that is C06's obligation)",
    ]
    # ------------------------------------------------------------- SUITE: calls observed in the repository's own tests
    from vf import suite
    suite.step(ctx, "text", ["P:C07"])
    # ------------------------------------------------------------- FRESH: history independence of returned objects (spec/Fresh.tla)
    from vf import fresh
    fresh.step(ctx, "C07")
    return ctx.finish(rule=(
        "strings: every string over the 14-symbol critical alphabet up to length "
        f"{maxlen} (plus a BOM/non-ASCII alphabet), lists of <=2 items, enumerated by TLC; long random "
        "Unicode strings recorded from the real code and validated by TLC. distinct_nontrivial counts distinct "
        "strings/lists containing at least one of \\ n N ; , : \" % 2 C CR LF or a non-ASCII character"))


if __name__ == "__main__":
    main_wrapper(run, "C07")
