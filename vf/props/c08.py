"""C08 — parameters round-trip with correct quoting, list arity, caseless names.

MC      spec/MC_ContentLine (families scalar/list/two): Parameters.to_ical/from_ical and
        Contentline.from_parts/parts mirrors against the Ref reading of RFC 5545 3.2
        (RefSplit/RefParam); vectors carry the mirror's outputs and Ref's verdict.
REPLAY  Parameters, Contentline and Event/Todo round trips compared with the mirror.
RECORD  random longer / Unicode parameter maps.
VALIDATE spec/Trace_ContentLine evaluates round-trip and quoting clauses in TLC.
"""
from vf.core import Ctx, cfg_text, main_wrapper, Machinery
from vf import clcommon as cl
from icalendar.parser import Parameters

PALPHA = {97, 65, 44, 59, 58, 61, 39, 94, 32, 92, 37, 50, 67}


def run(ctx: Ctx):
    ev, meta = [], []
    fams = [("scalar", dict(PLen=3 if ctx.quick else 4, LLen=1)),
            ("list", dict(PLen=1, LLen=1)),
            ("two", dict(PLen=1, LLen=1))]
    if not ctx.quick:
        # lists of values up to length 2 over a reduced alphabet (the full one exceeds TLC's 10^6 set limit)
        fams.append(("list", dict(PLen=1, LLen=2, PAlpha={97, 44, 59, 58, 92, 94})))
    total = 0
    for fam, k in fams:
        r = ctx.mc("MC_ContentLine", cfg_text(spec="Spec", constants={
            "PAlpha": PALPHA, "VAlpha": {97}, "VLen": 1, "Family": fam, **k},   # a family may narrow PAlpha
            invariants=["InvNoLfOnWire", "InvKF08", "Vec"]), workers=4 if ctx.quick else 12, timeout=3000)
        total += len(r.prints)
        for v in r.prints:
            cl.replay_vector(ctx, v, ev, meta, "C08")
            # the NAME of a parameter never changes how its value list is written or split (CN, TZID, VALUE ... are names
            # the library knows, but the list grammar is the same for all)
            if fam == "list" and len(v["c"]["ps"]) == 1 and v["dom08"]:
                base = v["c"]["ps"][0]
                nm_wire = {}
                for nm in ("CN", "TZID", "MEMBER", "VALUE", "ENCODING", "X-Q", "DELEGATED-TO", "LANGUAGE"):
                    ps2 = [dict(base, k=cl.L(nm))]
                    wire, back = cl.do_paramsA(ps2)
                    ctx.evaluations += 1
                    nm_wire[nm] = (cl.S(wire).split("=", 1)[1] if "=" in cl.S(wire) else cl.S(wire),
                                   [cl.S(x) for x in back["ps"][0]["vals"]] if back.get("ok") and back["ps"] else back)
                if len({repr(x) for x in nm_wire.values()}) != 1:
                    ctx.fail("P:C08:name-independent-list", {"c": v["c"], "impl_equal": False}, {k: x for k, x in nm_wire.items()}, None)
            # a one-element list / tuple is the same parameter value as its element (assumption below): same wire, same read-back
            ps = v["c"]["ps"]
            if fam == "scalar" and ps and all(len(p["vals"]) == 1 and not p["list"] for p in ps):
                # a str SUBCLASS (incl. the library's own vText) as a parameter value is that string
                from icalendar.prop import vText as _vText

                class _S(str):
                    pass
                for mk in (_S, _vText):
                    P = Parameters()
                    for p in ps:
                        P[cl.S(p["k"])] = mk(cl.S(p["vals"][0]))
                    ctx.evaluations += 1
                    try:
                        wire = P.to_ical().decode("utf-8")
                    except Exception as e:   # noqa: BLE001
                        wire = "EXC:" + type(e).__name__
                    scalar_wire = cl.to_params(ps).to_ical().decode("utf-8")
                    if wire != scalar_wire:
                        ctx.fail("P:C08:str-subclass-value", {"c": v["c"], "as": mk.__name__, "impl_equal": False}, wire, scalar_wire)
                for seq in (list, tuple):
                    P = Parameters()
                    for p in ps:
                        P[cl.S(p["k"])] = seq([cl.S(p["vals"][0])])
                    ctx.evaluations += 1
                    try:
                        wire = P.to_ical().decode("utf-8")
                    except Exception as e:   # noqa: BLE001
                        wire = "EXC:" + type(e).__name__
                    scalar_wire = cl.to_params(ps).to_ical().decode("utf-8")
                    if wire != scalar_wire:
                        ctx.fail("P:C08:one-element-list", {"c": v["c"], "as": seq.__name__, "impl_equal": False}, wire, scalar_wire)
        ctx.sample({"family": fam, "vector": {k2: r.prints[len(r.prints) // 2][k2] for k2 in ("c", "wireA", "okA", "okB", "quoteOK")}})
    if total < 1000:
        raise Machinery("too few vectors")
    cl.record_random(ctx, ev, meta, 300 if ctx.quick else 4000,
                     [97, 65, 44, 59, 58, 61, 39, 94, 32, 92, 37, 50, 67, 66, 51, 53], "C08")
    # a parameter map is written as what it holds NOW: serialise, edit in place (through the mapping interface and through
    # the list objects it holds), serialise again -- alone, in a content line and on a property of a component
    from icalendar import Event as _Ev
    from icalendar.parser import Contentline as _CL
    from icalendar.prop import vText as _VT
    rnd_e = __import__("random").Random(ctx.seed + 11)
    words = ["a", "b,c", "d;e", "f:g", "h i", "J", "k^l", "", "mailto:m@example.com", "\u00e9"]
    for i in range(60 if ctx.quick else 600):
        P = Parameters()
        for nm in rnd_e.sample(["MEMBER", "cn", "X-Q", "Delegated-To", "p"], rnd_e.randint(1, 3)):
            P[nm] = [rnd_e.choice(words) for _ in range(rnd_e.randint(2, 3))] if rnd_e.random() < 0.6 else rnd_e.choice(words)
        holder = _VT("v")
        holder.params = P
        e_ = _Ev()
        e_["X-A"] = holder
        routes = [("Parameters", lambda: P.to_ical().decode("utf-8")),
                  ("Parameters unsorted", lambda: P.to_ical(sorted=False).decode("utf-8")),
                  ("Contentline", lambda: str(_CL.from_parts("X-A", P, _VT("v"))).rsplit(":v", 1)[0].partition(";")[2]),
                  ("Event", lambda: str(e_.content_lines()[1]).rsplit(":v", 1)[0].partition(";")[2])]
        for _r, f in routes:
            f()                                             # first serialisation, discarded
        edits = []
        for _ in range(rnd_e.randint(1, 3)):
            k = rnd_e.choice(list(P.keys()))
            v = P[k]
            op = rnd_e.choice(["append", "setitem0", "reverse", "pop", "extend", "assign", "del", "update", "setdefault"])
            if op in ("append", "setitem0", "reverse", "pop", "extend") and not isinstance(v, list):
                op = "assign"
            edits.append(op)
            if op == "append":
                v.append(rnd_e.choice(words))
            elif op == "setitem0":
                v[0] = rnd_e.choice(words)
            elif op == "reverse":
                v.reverse()
            elif op == "pop" and len(v) > 2:
                v.pop()
            elif op == "extend":
                v += [rnd_e.choice(words)]
            elif op == "assign":
                P[k.swapcase()] = rnd_e.choice(words)
            elif op == "del" and len(P) > 1:
                del P[k.lower()]
            elif op == "update":
                P.update({"x-new": rnd_e.choice(words)})
            elif op == "setdefault":
                P.setdefault("X-DEF", [rnd_e.choice(words), "z"])
        now = cl.alpha_params(P)
        ctx.case(("edited", i, tuple(edits)), True)
        for rname, f in routes:
            wire = f()
            if wire is None:
                continue
            if rname.endswith("unsorted") or rname == "Parameters":
                pass
            try:
                back = {"ok": True, "ps": cl.alpha_params(Parameters.from_ical(wire))}
            except ValueError:
                back = {"ok": False}
            ev.append({"k": "paramsA", "ps": now, "wire": cl.L(wire), "back": back})
            meta.append({"c": {"ps": now}, "path": f"{rname} after in-place edits {edits}"})
    for idx, clause, known in ctx.validate_trace("Trace_ContentLine", ev, cfg_text(spec="Spec"), chunk=4000, timeout=3000):
        if clause.startswith("P:C08"):
            case = dict(meta[idx]); case["impl_equal"] = known
            ctx.fail(clause, case, ev[idx].get("parts", ev[idx].get("back")), None)
    ctx.assumptions += ["parameter values are free of DQUOTE and control characters (the property's domain)",
                        "a one-element list and its element are the same parameter value (DESIGN.md section 3)"]
    # ------------------------------------------------------------- SUITE: calls observed in the repository's own tests
    from vf import suite
    suite.step(ctx, "join", ["P:C08"])
    # ------------------------------------------------------------- FRESH: history independence of returned objects (spec/Fresh.tla)
    from vf import fresh
    fresh.step(ctx, "C08")
    # ------------------------------------------------------------- VIEW: views after every edit history (spec/View.tla)
    from vf import view
    view.step(ctx, "C08")
    return ctx.finish(rule=(
        "all scalar values over {a A , ; : = ' ^ SP \\ % 2 C} up to length 3/4, all 2-3 element lists of values of length "
        "<=1/2, all pairs of parameters with mixed-case names, plus random longer Unicode maps; non-trivial = some value "
        "contains a delimiter, quote, backslash or percent character"))


if __name__ == "__main__":
    main_wrapper(run, "C08")
