"""C09 — the parse result is invariant under line endings, BOM, str/bytes, folds, name case.

MC      spec/MC_Wire: for every short list of abstract content lines and every combination of
        rendering choices (CRLF/LF, BOM, str/bytes, four fold placements with SP/TAB, three letter
        cases of names, trailing blank lines): Frame(Render(ls, ch)) = Frame(Render(ls, plain))
        for the Ref framing (InvRef) and for the mirror of the library's framing (InvImpl).
        spec/MC_CalendarGen: abstract calendars with nondeterministic rendering choices.
REPLAY  every generated calendar under every chosen rendering, both providers: the parsed tree
        (against the carried denotation) and its re-serialisation are identical across renderings.
RECORD  the fixture calendars under the same rewrites.
"""
import glob
import os
import random
import re

from vf.core import Ctx, cfg_text, main_wrapper, Machinery, REPO, Raw
from vf import calgen
from vf import parsercommon as pc
from icalendar import Component
from icalendar.timezone import tzp


def L(s):
    return [ord(c) for c in s]


def tl(s):
    return "<<" + ", ".join(str(ord(c)) for c in s) + ">>"


def line(name, params, value):
    ps = ", ".join("[k |-> %s, list |-> %s, vals |-> <<%s>>]" % (tl(k), "TRUE" if len(v) > 1 else "FALSE", ", ".join(tl(x) for x in v))
                   for k, v in params)
    return "[name |-> %s, params |-> <<%s>>, value |-> %s]" % (tl(name), ps, tl(value))


LINEPOOL = [
    line("BEGIN", [], "VEVENT"), line("END", [], "VEVENT"),
    line("SUMMARY", [], "a b: c;d"), line("DTSTART", [("TZID", ["Europe/Berlin"])], "20240101T100000"),
    line("ATTENDEE", [("CN", ["Doe, J: x;y"]), ("ROLE", ["CHAIR"])], "mailto:a@b.example"),
    line("X-A", [("M", ["p", "q r"])], " lead and trail "),
]


def rewrite_text(text, how, rnd):
    """the rewrites of MC_Wire applied to a whole (well-formed) calendar text"""
    t = text.replace("\r\n", "\n")
    # unfold first, so folds can be re-placed
    t = re.sub(r"\n[ \t]", "", t)
    lines = [x for x in t.split("\n") if x]
    out = []
    for ln in lines:
        if how["case"]:
            try:
                if re.match(r"^(BEGIN|END):", ln, re.I):
                    w, v = ln.split(":", 1)
                    ln = calgen.case_name(w, how["case"], rnd) + ":" + calgen.case_name(v, how["case"], rnd)
                else:
                    ln = calgen.recase_line(ln, how["case"], rnd)
            except Machinery:
                return None          # a line outside the simple grammar: skip this rewrite for this file
        out.append(calgen.fold(ln, how["fold"]))
    t = "\r\n".join(out) + "\r\n" + "\r\n" * how["trail"]
    if how["eol"] == "lf":
        t = t.replace("\r\n", "\n")
    if how["str"]:
        return t
    b = t.encode("utf-8")
    return (b"\xef\xbb\xbf" + b) if how["bom"] else b


def run(ctx: Ctx):
    rnd = random.Random(ctx.seed)
    r = ctx.mc("MC_Wire", cfg_text(spec="Spec", constants={"MaxLines": 2 if ctx.quick else 3},
                                   invariants=["InvRef", "InvRefReads", "InvImpl"]),
               defs={"LinePool": Raw("{" + ", ".join(LINEPOOL if not ctx.quick else LINEPOOL[:5]) + "}")},
               workers=8 if ctx.quick else 14, timeout=6000)
    ctx.sample({"mc_wire": {"states": r.distinct, "pool": len(LINEPOOL)}})

    groups = calgen.run_generated(ctx, rnd, "C09")
    ncmp = 0
    for key, g in groups.items():
        if len(g) < 2:
            continue
        items = list(g.items())
        base_probs, base_ser, base_case = items[0][1]
        for chs, (probs, ser, case) in items[1:]:
            ncmp += 1
            if ser != base_ser:
                ctx.fail("P:C09:same-reserialisation", {**case, "other_ch": base_case["ch"]},
                         ser.decode("utf-8", "replace")[:300] if isinstance(ser, bytes) else ser,
                         base_ser.decode("utf-8", "replace")[:300] if isinstance(base_ser, bytes) else base_ser)
            if [(a, repr(b)) for a, b, _ in probs] != [(a, repr(b)) for a, b, _ in base_probs]:
                ctx.fail("P:C09:same-tree", {**case, "other_ch": base_case["ch"]}, [p[:2] for p in probs][:3], [p[:2] for p in base_probs][:3])
    if ncmp < 50:
        raise Machinery(f"too few rendering pairs compared ({ncmp})")
    ctx.notes.append(f"rendering pairs compared on generated calendars: {ncmp}")

    # ------------------------------------------------------------- fixtures under the same rewrites
    files = sorted(glob.glob(str(REPO / "src/icalendar/tests/*/*.ics")))
    nvar = 3 if ctx.quick else 12
    nfix = 0
    try:
        for prov in ("zoneinfo", "pytz"):
            tzp.use(prov)
            for f in files:
                raw = open(f, "rb").read()
                try:
                    text = raw.decode("utf-8")
                except UnicodeDecodeError:
                    continue
                base = pc.real_parse(raw, True)
                if base[0] != "ok" or not base[1] or len(raw) > 40000:
                    continue
                try:
                    base_ser = [c.to_ical() for c in base[1]]
                except Exception:   # noqa: BLE001
                    continue
                if "\\" in text or "%" in text:
                    continue        # C07-K2 / C08-K1: unfolding moves escape sequences; stay inside the sound domain
                # the property speaks about well-formed texts: every unfolded line is name *(;param) : value,
                # line breaks are CRLF or LF (no stray CR), folds are a line break + one SP/TAB
                norm = text.lstrip("\ufeff").replace("\r\n", "\n")
                if "\r" in norm or not all(re.match(r"^[A-Za-z0-9-]+[;:]", x) for x in re.sub(r"\n[ \t]", "", norm).split("\n") if x):
                    continue
                for k in range(nvar if prov == "zoneinfo" else 1):
                    how = {"eol": rnd.choice(["crlf", "lf"]), "bom": rnd.random() < 0.5, "str": rnd.random() < 0.3,
                           "fold": rnd.randint(0, 3), "case": rnd.randint(0, 2), "trail": rnd.randint(0, 2)}
                    if how["str"]:
                        how["bom"] = False
                    data = rewrite_text(text.lstrip("﻿"), how, rnd)
                    if data is None:
                        continue
                    nfix += 1
                    ctx.case((prov, os.path.basename(f), repr(how)), True)
                    got = pc.real_parse(data, True)
                    case = {"file": os.path.basename(f), "how": how, "provider": prov}
                    if got[0] != "ok":
                        ctx.fail("P:C09:rewrite-accepted", case, got[1], None)
                        continue
                    try:
                        ser = [c.to_ical() for c in got[1]]
                    except Exception as e:   # noqa: BLE001
                        ctx.fail("P:C09:same-reserialisation", case, type(e).__name__, None)
                        continue
                    if ser != base_ser:
                        a = b"".join(ser).split(b"\r\n")
                        b = b"".join(base_ser).split(b"\r\n")
                        d = next(((x, y) for x, y in zip(a, b) if x != y), (b"<length>", b""))
                        ctx.fail("P:C09:same-reserialisation", case, d[0].decode("utf-8", "replace")[:200], d[1].decode("utf-8", "replace")[:200])
    finally:
        tzp.use_default()
    ctx.notes.append(f"fixture rewrites parsed: {nfix}")

    # ------------------------------------------------------------- a calendar that defines and uses its own time zone
    # (each rendering gets a fresh TZID: the VTIMEZONE cache of the process must not hide what a rendering does)
    def tzcal(tzid):
        return "\r\n".join(["BEGIN:VCALENDAR", "VERSION:2.0", "PRODID:-//verif//tz//EN", "BEGIN:VTIMEZONE", f"TZID:{tzid}", "BEGIN:STANDARD",
                            "DTSTART:19701025T030000", "RRULE:FREQ=YEARLY;BYDAY=-1SU;BYMONTH=10", "TZOFFSETFROM:+0630", "TZOFFSETTO:+0530", "TZNAME:VST",
                            "END:STANDARD", "BEGIN:DAYLIGHT", "DTSTART:19700329T020000", "RRULE:FREQ=YEARLY;BYDAY=-1SU;BYMONTH=3", "TZOFFSETFROM:+0530",
                            "TZOFFSETTO:+0630", "TZNAME:VDT", "END:DAYLIGHT", "END:VTIMEZONE", "BEGIN:VEVENT", "UID:tz-1", f"DTSTART;TZID={tzid}:20240115T100000",
                            f"DTEND;TZID={tzid}:20240715T100000", f"RDATE;TZID={tzid}:20240116T100000,20240716T100000", "END:VEVENT", "END:VCALENDAR"]) + "\r\n"

    def tz_facts(comp):
        out = []
        for ev_ in comp.walk("VEVENT"):
            for k in ("DTSTART", "DTEND"):
                d = ev_[k].dt
                out.append([k, d.replace(tzinfo=None).isoformat(), None if d.utcoffset() is None else int(d.utcoffset().total_seconds())])
            out.append(["RDATE", [[x.dt.replace(tzinfo=None).isoformat(), None if x.dt.utcoffset() is None else int(x.dt.utcoffset().total_seconds())]
                                  for x in ev_["RDATE"].dts]])
        return out
    want = [["DTSTART", "2024-01-15T10:00:00", 19800], ["DTEND", "2024-07-15T10:00:00", 23400],
            ["RDATE", [["2024-01-16T10:00:00", 19800], ["2024-07-16T10:00:00", 23400]]]]
    n_tz = 0
    try:
        for prov in ("zoneinfo", "pytz"):
            tzp.use(prov)
            for fold_mode in (0, 1, 3):
                for case_mode in (0, 1, 2):
                    for eol in ("crlf", "lf"):
                        n_tz += 1
                        tzid = f"Verif/Own-{prov}-{n_tz}"
                        how = {"eol": eol, "bom": False, "str": n_tz % 2 == 0, "fold": fold_mode, "case": case_mode, "trail": 0}
                        data = rewrite_text(tzcal(tzid), how, rnd)
                        if data is None:
                            continue
                        ctx.case(("own-tz", prov, repr(how)), True)
                        got = pc.real_parse(data, True)
                        case = {"own_timezone": True, "how": how, "provider": prov}
                        if got[0] != "ok" or len(got[1]) != 1:
                            ctx.fail("P:C09:rewrite-accepted", case, str(got[1])[:200], None)
                            continue
                        try:
                            facts = tz_facts(got[1][0])
                        except Exception as e:   # noqa: BLE001
                            facts = type(e).__name__
                        if facts != want:
                            ctx.fail("P:C09:same-tree", case, facts, want)
    finally:
        tzp.use_default()

    # ------------------------------------------------------------- scale: the same invariance on texts of 5 KiB .. 600 KiB
    # (block-wise readers, buffer limits: a fold or a line break may sit on any boundary)
    def big(n_events, pad):
        out = ["BEGIN:VCALENDAR", "VERSION:2.0", "PRODID:-//verif//scale//EN", "X-PAD:" + "p" * pad]
        for i in range(n_events):
            out += ["BEGIN:VEVENT", f"UID:event-{i}@example.com", f"DTSTART;TZID=Europe/Berlin:2024{1 + i % 12:02d}{1 + i % 28:02d}T{i % 24:02d}0000",
                    "SUMMARY:" + ("summary %d with spaces and words " % i) * 4,
                    "ATTENDEE;CN=\"Person Number %d, Esq.\";ROLE=REQ-PARTICIPANT:mailto:person%d@example.com" % (i, i),
                    "DESCRIPTION:" + "".join(chr(0xE9 + (i + j) % 3) if j % 7 == 0 else "abcdefghij"[j % 10] for j in range(60 + i % 90)),
                    "BEGIN:VALARM", "ACTION:DISPLAY", "TRIGGER:-PT%dM" % (i % 50), "END:VALARM", "END:VEVENT"]
        out.append("END:VCALENDAR")
        return "\r\n".join(out) + "\r\n"

    sizes = [(12, 0), (160, 0), (160, 1), (330, 2)] if ctx.quick else [(12, 0), (40, 1), (160, 0), (160, 1), (161, 7), (330, 2), (700, 3), (1500, 5)]
    try:
        for prov in ("zoneinfo", "pytz") if not ctx.quick else ("zoneinfo",):
            tzp.use(prov)
            for n_events, pad in sizes:
                text = big(n_events, pad)
                base = pc.real_parse(text, True)
                if base[0] != "ok" or len(base[1]) != 1 or len(base[1][0].subcomponents) != n_events:
                    raise Machinery("scale family: the plain rendering is not accepted as written")
                base_ser = base[1][0].to_ical()
                base_tree = pc.full_alpha(base[1][0])
                for fold_mode in (1, 2, 3):
                    for eol in ("crlf", "lf"):
                        for as_str in (False, True):
                            how = {"eol": eol, "bom": (not as_str) and fold_mode == 2, "str": as_str, "fold": fold_mode, "case": 0, "trail": fold_mode % 2}
                            data = rewrite_text(text, how, rnd)
                            case = {"scale": [n_events, pad], "bytes": len(data), "how": how, "provider": prov}
                            ctx.case(("scale", prov, n_events, pad, repr(how)), True)
                            got = pc.real_parse(data, True)
                            if got[0] != "ok" or len(got[1]) != 1:
                                ctx.fail("P:C09:rewrite-accepted", case, str(got[1])[:200], None)
                                continue
                            if pc.full_alpha(got[1][0]) != base_tree:
                                a, b = pc.full_alpha(got[1][0]), base_tree
                                d = next((i for i, (x, y) in enumerate(zip(a["kids"], b["kids"])) if x != y), -1)
                                ctx.fail("P:C09:same-tree", case, {"first_differing_event": d, "errors": [len(k.errors) for k in got[1][0].subcomponents if k.errors][:3]}, None)
                            elif got[1][0].to_ical() != base_ser:
                                ctx.fail("P:C09:same-reserialisation", case, None, None)
    finally:
        tzp.use_default()
    ctx.assumptions += [
        "fixture files containing a backslash or percent sign are excluded from the rewrite comparison (known findings C07-K2 / C08-K1 would be re-reported through a different fold position)",
        "BOM applies to bytes input only; a str is not given a leading U+FEFF",
    ]
    # ------------------------------------------------------------- FRESH: history independence of returned objects (spec/Fresh.tla)
    from vf import fresh
    fresh.step(ctx, "C09")
    return ctx.finish(rule=(
        "MC_Wire: all lists of <=2/3 lines from a 6-line pool x 288 rendering choices; generated calendars (7 shapes, 42-entry property "
        "pool) compared across renderings under both providers; fixture calendars under random rewrites; non-trivial = a rendering "
        "other than the plain one"))


if __name__ == "__main__":
    main_wrapper(run, "C09")
