"""C10 — serialisation is deterministic, pure and insertion-order independent.

MC      spec/MC_Serialise: all insertion histories (add / add_component) up to a length bound;
        Emit(tree, sorted) from spec/Serialise; InvSwap (commuting neighbouring insertions does
        not change the sorted output), InvBalanced (pushdown acceptor), InvSameLines.
REPLAY  every history through the real API: line sequence of to_ical(sorted=True/False) equals
        Emit; two calls give identical bytes; the tree snapshot (incl. every value.params) is
        unchanged; parameter insertion order does not matter.
CONFIG  the same programs in fresh interpreters with PYTHONHASHSEED 0, 1, 2, 4242 and with different
        process histories before them (a generic component / a parsed calendar / other component
        classes serialised first): equal digests -- the bytes are a function of the tree.
RECORD  random deep trees (typed values) -> token sequences.
VALIDATE spec/Trace_Serialise: Emit(tree) = observed tokens, balanced, twice-identical, pure.
"""
import hashlib
import json
import os
import random
import subprocess
import sys
from datetime import date, datetime, timedelta

from vf.core import Ctx, cfg_text, main_wrapper, Machinery, VERIF, REPO
from vf.realcode import unfold_lines
from icalendar import Calendar, Event, Alarm, Component
from icalendar.parser import Parameters
from icalendar.prop import vDatetime, vCalAddress, vText, vDDDTypes
from icalendar.timezone import tzp


def L(s):
    return [ord(c) for c in s]


def S(a):
    return "".join(map(chr, a))


def make_value(name, vid, rnd):
    if name == "SUMMARY":
        return vText(f"summary {vid}")
    if name == "DTSTART":
        if vid == "d1":
            return vDatetime(tzp.localize(datetime(2024, 5, 1, 10, 0), "Europe/Berlin"))   # used directly: purity
        return date(2024, 5, 2)
    if name == "UID":
        return f"uid-{vid}"
    if name == "X-B":
        return "" if vid == "x0" else f"xb {vid}"      # x0: an empty (falsy) value must be kept like any other
    if name == "ATTENDEE":
        a = vCalAddress(f"mailto:{vid}@example.com")
        items = [("CN", f"Name {vid}"), ("ROLE", "CHAIR"), ("X-P", "a,b")]
        rnd.shuffle(items)              # parameter insertion order must not matter
        for k, v in items:
            a.params[k.lower() if rnd.random() < 0.5 else k] = v
        return a
    raise Machinery(name)


MARK = {"SUMMARY": lambda t: t.split("summary ")[1], "UID": lambda t: t.split("uid-")[1],
        "X-B": lambda t: "x0" if t.rstrip().endswith(":") else t.split("xb ")[1], "ATTENDEE": lambda t: t.split("mailto:")[1].split("@")[0],
        "DTSTART": lambda t: "d1" if "T100000" in t else "d2", "X-ID": lambda t: t.split(":")[1]}


def tokens(b, ident):
    out = []
    for ln in unfold_lines(b):
        if ln.startswith("BEGIN:"):
            out.append(["B", ln[6:]])
        elif ln.startswith("END:"):
            out.append(["E", ln[4:]])
        else:
            i = min(x for x in (ln.find(":"), ln.find(";")) if x >= 0)
            name = ln[:i]
            out.append(["P", L(name), ident(name, ln)])
    return out


def snapshot(comp):
    snap = []
    for c in comp.walk():
        items = []
        for k, v in c.items():
            vals = v if isinstance(v, list) else [v]
            items.append((k, [(type(x).__name__, sorted((pk, repr(pv)) for pk, pv in getattr(x, "params", {}).items()),
                               repr(getattr(x, "dt", None)), str(x) if isinstance(x, str) else "",
                               # a mapping-valued value (vRecur): its parts as they are held, scalar or list
                               repr(sorted((mk, repr(mv)) for mk, mv in x.items())) if isinstance(x, dict) else "",
                               repr([str(i) for i in getattr(x, "cats", [])])) for x in vals]))
        snap.append((c.name, items, len(c.subcomponents)))
    return snap


def build_history(hist, rnd):
    e = Event()
    for op, name, vid in hist:
        if op == "add":
            e.add(S(name).lower() if rnd.random() < 0.5 else S(name), make_value(S(name), vid, rnd))
        else:
            a = Alarm()
            a.add("X-ID", vid)
            e.add_component(a)
    return e


def prelude(kind):
    """Process history before the programs run: Emit is a function of the tree, so none of this may matter."""
    if kind == "generic-first":
        c = Component()
        c.name = "X-FIRST"
        c.add("zzz", "1")
        c.add("summary", "2")
        c.add("dtstart", date(2024, 1, 1))
        c.to_ical()
        c.to_ical(sorted=False)
    elif kind == "parse-first":
        Calendar.from_ical(b"BEGIN:VCALENDAR\r\nX-Z:1\r\nBEGIN:X-UNKNOWN\r\nB:2\r\nA:1\r\nEND:X-UNKNOWN\r\nBEGIN:VEVENT\r\n"
                           b"UID:1\r\nSUMMARY:s\r\nEND:VEVENT\r\nEND:VCALENDAR\r\n").to_ical()
    elif kind == "subclass-first":
        from icalendar import Todo, Journal, FreeBusy, Timezone
        from icalendar.prop import vRecur
        for cls in (Todo, Journal, FreeBusy, Alarm):
            x = cls()
            x.add("summary", "s")
            x.add("uid", "u")
            x.add("attendee", "mailto:a@example.com")
            x.to_ical()
        vRecur(count=1, freq="daily", byday=["MO"]).to_ical()
        Parameters({"z": "1", "a": "2"}).to_ical()


def digest_program():
    """Runs in a fresh interpreter (hash seed and process history set by the parent): a fixed list of API programs."""
    prelude(os.environ.get("VERIF_PRELUDE", "none"))
    rnd = random.Random(7)
    out = []
    ops = [("add", L("SUMMARY"), "s1"), ("add", L("ATTENDEE"), "a1"), ("add", L("ATTENDEE"), "a2"),
           ("add", L("DTSTART"), "d1"), ("add", L("X-B"), "x1"), ("add", L("UID"), "u1"), ("sub", [], "c1"), ("sub", [], "c2")]
    for i in range(120):
        hist = [rnd.choice(ops) for _ in range(rnd.randint(1, 7))]
        e = build_history(hist, random.Random(i))
        out.append(hashlib.sha256(e.to_ical()).hexdigest()[:16])
    # calendars with several missing time zones and set-valued intermediate results
    for zones in (["Europe/Berlin", "America/New_York", "Asia/Tokyo"], ["Africa/Cairo", "Europe/London"],
                  ["Pacific/Fiji", "UTC", "Europe/Berlin", "Asia/Kolkata", "America/Sao_Paulo"]):
        cal = Calendar()
        for n, z in enumerate(zones):
            ev = Event()
            ev.add("dtstart", tzp.localize(datetime(2021, 3, 1 + n, 9), z))
            ev.add("categories", ["b", "a", "c"])
            cal.add_component(ev)
        # (a long window for the first set: every observance of the generated VTIMEZONEs then lists many onsets)
        cal.add_missing_timezones(first_date=date(2012, 1, 1) if len(zones) == 3 else date(2020, 1, 1), last_date=date(2022, 1, 1))
        out.append(hashlib.sha256(cal.to_ical()).hexdigest()[:16])
        out.append(",".join(t.tz_name for t in cal.timezones))
    out += mixed_programs()
    print(json.dumps(out))


def mixed_programs():
    """values whose rendering could be routed through a set or a dict keyed by names or types: mixed lists,
    many parameters, many rule parts (cheap, so they are also run under a dozen hash seeds)"""
    from zoneinfo import ZoneInfo
    utc = ZoneInfo("UTC")
    out = []
    per = (datetime(2024, 1, 6, 10, tzinfo=utc), timedelta(hours=1))
    per2 = (datetime(2024, 1, 6, 10), datetime(2024, 1, 6, 12))
    mixes = [[date(2024, 1, 5), per], [per, date(2024, 1, 5)], [date(2024, 1, 5), per2], [date(2024, 1, 5), datetime(2024, 1, 6, 10)],
             [datetime(2024, 1, 6, 10), date(2024, 1, 5), per2], [per, datetime(2024, 1, 6, 10, tzinfo=utc)],
             [tzp.localize(datetime(2024, 1, 6, 10), "Europe/Berlin"), tzp.localize(datetime(2024, 1, 6, 10), "Asia/Tokyo")],
             [datetime(2024, 1, 6, 10, tzinfo=utc), tzp.localize(datetime(2024, 1, 6, 10), "Asia/Tokyo"), date(2024, 1, 1)]]
    for mix in mixes:
        for name in ("rdate", "exdate", "freebusy"):
            e = Event()
            try:
                e.add(name, mix)
                out.append(hashlib.sha256(e.to_ical()).hexdigest()[:16])
            except Exception as x:   # noqa: BLE001
                out.append("EXC:" + type(x).__name__)
    e = Event()
    e.add("attendee", "mailto:a@example.com", parameters={"cn": "A", "role": "CHAIR", "x-b": "1", "member": ["m1", "m2"], "rsvp": "TRUE",
                                                       "partstat": "ACCEPTED", "x-a": "2", "delegated-to": ["d1", "d2"], "language": "en"})
    e.add("rrule", {"freq": "yearly", "until": datetime(2030, 1, 1, tzinfo=utc), "interval": 2, "bymonth": [5, 3], "byday": ["-1SU", "MO"],
                    "byhour": [1], "bysetpos": [-1], "wkst": "SU", "byminute": [0, 30], "byyearday": [100], "byweekno": [20]})
    e.add("categories", ["b", "a", "c", "a"])
    e.add("x-multi", "v", parameters={n: "1" for n in ("zeta", "alpha", "Mid", "x-1", "x-10", "x-2")})
    out.append(hashlib.sha256(e.to_ical()).hexdigest()[:16])
    out.append(hashlib.sha256(e.to_ical(sorted=False)).hexdigest()[:16])
    return out


def run(ctx: Ctx):
    rnd = random.Random(ctx.seed)
    addops = {("add", tuple(L(n)), v) for n, v in (("SUMMARY", "s1"), ("DTSTART", "d1"), ("UID", "u1"), ("X-B", "x1"),
                                                  ("ATTENDEE", "a1"), ("ATTENDEE", "a2"), ("SUMMARY", "s2"), ("DTSTART", "d2"), ("X-B", "x0"))}
    canon = [tuple(L(n)) for n in Event.canonical_order]
    r = ctx.mc("MC_Serialise", cfg_text(spec="Spec", constants={"SubIds": {"c1", "c2"}, "MaxLen": 4 if ctx.quick else 5},
                                        invariants=["InvSwap", "InvBalanced", "InvSameLines", "Vec"]),
               defs={"AddOps": addops, "Canon": canon}, workers=6 if ctx.quick else 14, timeout=3000)
    vecs = r.prints
    if len(vecs) < 3000:
        raise Machinery(f"too few histories {len(vecs)}")
    ctx.sample(vecs[len(vecs) // 2])
    ident = lambda name, ln: MARK[name.upper()](ln)   # noqa: E731
    for v in vecs:
        hist = v["hist"]
        names = [S(o[1]) for o in hist if o[0] == "add"]
        ctx.case(repr(hist), len(set(names)) > 1 or len(names) != len(set(names)))
        e = build_history(hist, rnd)
        before = snapshot(e)
        b1 = e.to_ical()
        mid = snapshot(e)
        b2 = e.to_ical()
        bu = e.to_ical(sorted=False)
        after = snapshot(e)
        case = {"hist": hist}
        if b1 != b2:
            ctx.fail("P:C10:twice-identical", case, None, None)
        if before != mid or mid != after:
            diff = [x for x, y in zip(before, after) if x != y]
            ctx.fail("P:C10:pure", case, repr(diff)[:300], None)
        got = tokens(b1, ident)
        if got != v["sorted"]:
            ctx.fail("P:C10:sorted-order", case, got, v["sorted"])
        gotu = tokens(bu, ident)
        if gotu != v["unsorted"]:
            ctx.fail("P:C10:unsorted-insertion-order", case, gotu, v["unsorted"])

    # ------------------------------------------------------------- configurations: hash seeds
    digests = {}
    # process configurations: hash seed, process history, and the environment a date/time or text routine might consult
    envs = {"tz-kiritimati": {"TZ": "Pacific/Kiritimati"}, "tz-adak-c-locale": {"TZ": "America/Adak", "LC_ALL": "C", "LANG": "C"},
            "utf8-off": {"PYTHONUTF8": "0", "LC_ALL": "POSIX"}}
    for seed, pre in (("0", "none"), ("1", "none"), ("2", "none"), ("4242", "none"),
                      ("0", "generic-first"), ("0", "parse-first"), ("0", "subclass-first"), ("1", "generic-first"),
                      ("0", "env:tz-kiritimati"), ("0", "env:tz-adak-c-locale"), ("0", "env:utf8-off")):
        env = dict(os.environ, PYTHONHASHSEED=seed, VERIF_PRELUDE=pre if not pre.startswith("env:") else "none")
        if pre.startswith("env:"):
            env.update(envs[pre[4:]])
        seed = f"{seed}/{pre}"
        p = subprocess.run([sys.executable, "-c", "from vf.props.c10 import digest_program; digest_program()"],
                           capture_output=True, text=True, env=env, cwd=str(VERIF), timeout=600)
        if p.returncode != 0:
            raise Machinery(f"digest subprocess failed: {p.stderr[-500:]}")
        digests[seed] = json.loads(p.stdout.strip().splitlines()[-1])
    ref = digests["0/none"]
    for seed, d in digests.items():
        ctx.evaluations += len(d)
        bad = [i for i, (a, b) in enumerate(zip(ref, d)) if a != b]
        if bad or len(d) != len(ref):
            ctx.fail("P:C10:hash-seed-independent" if seed.endswith("/none") else "P:C10:function-of-the-tree", {"configuration": seed, "programs": bad[:5]}, [d[i] for i in bad[:3]], [ref[i] for i in bad[:3]])
    ctx.notes.append(f"hash-seed configurations compared: {sorted(digests)} x {len(ref)} programs")
    mixed = {}
    for seed in range(12 if ctx.quick else 40):
        p = subprocess.run([sys.executable, "-c", "import json; from vf.props.c10 import mixed_programs; print(json.dumps(mixed_programs()))"],
                           capture_output=True, text=True, env=dict(os.environ, PYTHONHASHSEED=str(seed)), cwd=str(VERIF), timeout=600)
        if p.returncode != 0:
            raise Machinery(f"mixed-programs subprocess failed: {p.stderr[-500:]}")
        mixed[seed] = json.loads(p.stdout.strip().splitlines()[-1])
        ctx.evaluations += len(mixed[seed])
        bad = [i for i, (a, b) in enumerate(zip(mixed[0], mixed[seed])) if a != b]
        if bad:
            ctx.fail("P:C10:hash-seed-independent", {"configuration": f"{seed}/mixed", "programs": bad[:5]}, [mixed[seed][i] for i in bad[:3]],
                     [mixed[0][i] for i in bad[:3]])
    if all(x.startswith("EXC:") for x in mixed[0][:24]):
        raise Machinery("mixed programs: every mixed list was refused (vacuous)")

    # ------------------------------------------------------------- subcomponents keep their insertion order, also when a helper adds some
    for prov in ("zoneinfo", "pytz"):
        tzp.use(prov)
        try:
            calx = Calendar()
            parts_ = []
            for i, (kind, z) in enumerate((("ev", "Europe/Berlin"), ("tz", "Custom/Own"), ("todo", "America/New_York"), ("ev", "Asia/Tokyo"), ("tz", "Europe/Berlin"))):
                if kind == "tz":
                    from icalendar import Timezone as _Tz
                    c = _Tz.from_tzid(z, first_date=date(2020, 1, 1), last_date=date(2021, 1, 1)) if "/" in z and not z.startswith("Custom") else \
                        Component.from_ical("BEGIN:VTIMEZONE\r\nTZID:Custom/Own\r\nBEGIN:STANDARD\r\nDTSTART:19700101T000000\r\nTZOFFSETFROM:+0200\r\nTZOFFSETTO:+0200\r\nEND:STANDARD\r\nEND:VTIMEZONE\r\n")
                else:
                    from icalendar import Todo as _Todo
                    c = Event() if kind == "ev" else _Todo()
                    c.add("uid", f"u{i}")
                    c.add("dtstart", tzp.localize(datetime(2020, 6, 1, 10), z))
                calx.add_component(c)
                parts_.append(c)
            calx.add_missing_timezones(first_date=date(2020, 1, 1), last_date=date(2021, 1, 1))
            after = calx.subcomponents
            ctx.evaluations += 1
            ctx.case(("order-after-helper", prov), True)
            if len(after) < len(parts_) or any(a is not b for a, b in zip(after, parts_)) or any(x.name != "VTIMEZONE" for x in after[len(parts_):]):
                ctx.fail("P:C10:unsorted-insertion-order", {"what": "add_missing_timezones changed the order of existing subcomponents", "provider": prov},
                         [x.name for x in after], [x.name for x in parts_] + ["VTIMEZONE", "..."])
            b = calx.to_ical()
            seq = [ln for ln in b.split(b"\r\n") if ln.startswith(b"BEGIN:V")][1:]
            want_seq = [b"BEGIN:" + x.name.encode() for x in after]
            if seq != want_seq:
                ctx.fail("P:C10:unsorted-insertion-order", {"what": "subcomponents are not serialised in list order", "provider": prov},
                         [x.decode() for x in seq], [x.decode() for x in want_seq])
        finally:
            tzp.use_default()

    # ------------------------------------------------------------- InvSwap on names that a "smarter" sort might consider equal
    # (zero padding, digit runs, case, accents, punctuation): swapping two insertions never changes the sorted output
    tie = ["X-ROOM-1", "X-ROOM-01", "X-ROOM-001", "X-ITEM-2", "X-ITEM-10", "X-ITEM-010", "X-E", "X-\u00c9", "X-E2", "X_1", "X.1", "X-1", "X--1", "X-A-B", "X-AB"]
    for i, a in enumerate(tie):
        for b in tie[i + 1:]:
            outs = []
            for order in ((a, b), (b, a)):
                e = Event()
                e.add("uid", "1")
                for nm in order:
                    try:
                        e.add(nm, "v-" + nm)
                    except Exception:   # noqa: BLE001
                        pass
                e.add("summary", "s")
                try:
                    outs.append(e.to_ical())
                except Exception as x:   # noqa: BLE001
                    outs.append(type(x).__name__.encode())
            ctx.evaluations += 1
            ctx.case(("tie", a, b), True)
            if outs[0] != outs[1]:
                ctx.fail("P:C10:sorted-order", {"names": [a, b], "what": "sorted output depends on the insertion order of two names"},
                         outs[0].decode("utf-8", "replace")[:200], outs[1].decode("utf-8", "replace")[:200])

    # ------------------------------------------------------------- purity and determinism on PARSED and hand-assembled trees
    # (values that did not pass through add(): parsed without a VALUE parameter, stored by item assignment, one value
    #  object under two properties, one component object attached twice)
    import copy as _copy
    import glob as _glob
    from icalendar import Calendar as _Cal, Component as _Comp
    from icalendar.prop import vDDDTypes as _vD
    from zoneinfo import ZoneInfo as _ZI
    texts = ["BEGIN:VEVENT\r\nDTSTART:20240501T100000Z\r\nBEGIN:VALARM\r\nTRIGGER:20240501T120000Z\r\nACKNOWLEDGED:20240501T120000Z\r\nEND:VALARM\r\nEND:VEVENT\r\n",
             "BEGIN:VTODO\r\nDUE;VALUE=DATE:20240501\r\nRDATE:20240501,20240502T100000\r\nX-D:20240501T100000Z\r\nDURATION:PT1H\r\nEND:VTODO\r\n",
             "BEGIN:VCALENDAR\r\nBEGIN:X-A\r\nB:2\r\nA:1\r\nBEGIN:VEVENT\r\nSUMMARY:s\r\nCATEGORIES:b,a\r\nATTENDEE;ROLE=CHAIR;CN=x:mailto:a\r\nEND:VEVENT\r\nEND:X-A\r\nEND:VCALENDAR\r\n"]
    # list-valued parameters whose values are not in ascending order (a sorting serialiser must not touch them)
    texts.append("BEGIN:VEVENT\r\nATTENDEE;MEMBER=\"mailto:z@x\",\"mailto:a@x\";DELEGATED-TO=\"mailto:m@x\",\"mailto:b@x\";X-L=q,c,k:mailto:p@x\r\nEND:VEVENT\r\n")
    texts += [open(f, "rb").read().decode("utf-8", "replace") for f in sorted(_glob.glob(str(REPO / "src/icalendar/tests/calendars/*.ics")))[:: 4 if ctx.quick else 1]]
    trees = []
    for t in texts:
        try:
            trees += _Cal.from_ical(t, multiple=True) if "BEGIN:VCALENDAR" in t.upper() else [_Comp.from_ical(t)]
        except ValueError:
            continue
    shared_dt = _vD(datetime(2024, 5, 1, 12, tzinfo=_ZI("UTC")))
    al = Alarm()
    al["ACKNOWLEDGED"] = shared_dt
    al["TRIGGER"] = shared_dt                     # item assignment, the same value object twice
    ev1, ev2 = Event(), Event()
    ev1.add("uid", "1")
    ev2.add("uid", "2")
    ev1.add_component(al)
    ev2.add_component(al)                         # one component object reachable twice
    ev2.add_component(al)
    cal = _Cal()
    cal.add_component(ev1)
    cal.add_component(ev2)
    trees.append(cal)
    # rule parts supplied as scalars, tuples and lists (a serialiser may wrap them for its own use, not in the tree)
    evr = Event()
    evr.add("rrule", {"freq": "daily", "count": 10, "byday": ("MO", "TU"), "bymonth": [1, 2], "interval": 1})
    evr.add("exrule", {"FREQ": "weekly", "until": datetime(2025, 1, 1, 12, tzinfo=_ZI("UTC")), "wkst": "SU"})
    evr.add("categories", ["x", "y"])
    trees.append(evr)
    if len(trees) < 10:
        raise Machinery("purity step: too few trees")
    for t in trees:
        ctx.case(("purity", t.name, len(t.subcomponents), id(t) % 1000), True)
        ctx.evaluations += 1
        try:
            ref_bytes = _copy.deepcopy(t).to_ical()      # a copy in which no object is shared
        except Exception:   # noqa: BLE001  (C20-K1: custom zones under pytz)
            ref_bytes = None
        before = snapshot(t)
        try:
            b1 = t.to_ical()
            mid = snapshot(t)
            b2 = t.to_ical()
            bu1 = t.to_ical(sorted=False)
            bu2 = t.to_ical(sorted=False)
        except ValueError:
            continue
        after = snapshot(t)
        case = {"tree": t.name, "first_lines": b1.decode("utf-8", "replace")[:160]}
        if before != mid or mid != after:
            ctx.fail("P:C10:pure", case, repr([x for x, y in zip(before, after) if x != y])[:300], None)
        if b1 != b2 or bu1 != bu2:
            ctx.fail("P:C10:twice-identical", case, None, None)
        if ref_bytes is not None and ref_bytes != b1:
            ctx.fail("P:C10:function-of-the-tree", {**case, "what": "a tree with shared objects serialises differently from its deep copy"},
                     None, None)
        toks = [ln.split(b":", 1) for ln in b1.split(b"\r\n") if ln[:6].upper() == b"BEGIN:" or ln[:4].upper() == b"END:"]
        depth = 0
        for k, v in toks:
            depth += 1 if k.upper() == b"BEGIN" else -1
            if depth < 0:
                break
        if depth != 0:
            ctx.fail("P:C10:balanced", case, [x for x in toks][:12], None)

    # ------------------------------------------------------------- RECORD: random trees
    from vf.props.c20 import random_tree
    ev, meta = [], []
    n = 40 if ctx.quick else 400
    try:
        for i in range(n):
            prov = ("zoneinfo", "pytz")[i % 2]
            tzp.use(prov)
            cal = random_tree(rnd, rnd.randint(2, 5), [None, "UTC", "Europe/Berlin", "America/New_York"])
            if i % 3 == 0:
                cal = Calendar.from_ical(cal.to_ical())
            comps = cal.walk()
            index = {id(c): k + 1 for k, c in enumerate(comps)}
            par, nm, props, canon_ = [], [], [], []

            def visit(c, parent):
                par.append(parent)
                nm.append(c.name)
                pl = []
                for k, v in c.items():
                    vals = v if isinstance(v, list) else [v]
                    pl.append([L(k), [str(c.content_line(k, x)) for x in vals]])
                props.append(pl)
                canon_.append([L(x) for x in (c.canonical_order or ())])
                me = len(par)
                for s in c.subcomponents:
                    visit(s, me)
            before = snapshot(cal)
            visit(cal, 0)
            b1 = cal.to_ical()
            b2 = cal.to_ical()
            bu = cal.to_ical(sorted=False)
            after = snapshot(cal)
            idl = lambda name, ln: ln   # noqa: E731
            ev.append({"t": {"par": par, "nm": nm, "props": props, "canon": canon_},
                       "sorted": tokens(b1, idl), "unsorted": tokens(bu, idl),
                       "twice": b1 == b2, "pure": before == after})
            meta.append({"i": i, "provider": prov})
            ctx.case(("rnd", i), True)
    finally:
        tzp.use_default()
    ctx.sample({"trace_event": {"t": {"par": ev[0]["t"]["par"], "nm": ev[0]["t"]["nm"]}, "sorted": ev[0]["sorted"][:6]}})
    for idx, clause, known in ctx.validate_trace("Trace_Serialise", ev, cfg_text(spec="Spec"), chunk=500, timeout=3000):
        ctx.fail(clause, meta[idx], None, None)
    ctx.assumptions += ["value identity on the wire is recognised by marker texts (replay) or by the value's own content line (random trees)",
                        "four hash seeds are compared, not all"]
    # ------------------------------------------------------------- FRESH: history independence of returned objects (spec/Fresh.tla)
    from vf import fresh
    fresh.step(ctx, "C10")
    # ------------------------------------------------------------- VIEW: views after every edit history (spec/View.tla)
    from vf import view
    view.step(ctx, "C10")
    return ctx.finish(rule=(
        "all insertion histories of length <=4/5 over 8 add operations (incl. repeated names, case variants, parameter insertion "
        "orders) and 2 subcomponents; 120+ programs under 4 hash seeds; random typed trees validated by TLC; non-trivial = "
        "more than one property name or a repeated name"))


if __name__ == "__main__":
    main_wrapper(run, "C10")
