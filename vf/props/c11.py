"""C11 — zoned date-times keep wall time, zone id, offset; UTC properties keep the instant.

MC      spec/MC_ZonedTime: the wire rule (Z for UTC and no TZID; TZID = zone key otherwise; floating
        bare) over a toy domain with arbitrary step offset functions (gaps and folds):
        Read(Write(v)) = v, WireOK, provider offset preserved; UTC-forced properties keep the instant.
RECORD  for zone ids x wall times (every provider transition -1s/0/+1s incl. gap and fold walls,
        interval midpoints, random walls 1900-2100) x {DTSTART single, RDATE list, FREEBUSY period}
        x both providers x tzinfo source (zoneinfo, pytz, dateutil): what stands on the wire and
        what is read back; DTSTAMP / CREATED / LAST-MODIFIED / ACKNOWLEDGED with zoned input.
VALIDATE spec/Trace_ZonedTime: RowClauses / UtcClauses evaluated by TLC on every row.
"""
import random
import re
from datetime import date, datetime, timedelta
from zoneinfo import ZoneInfo, available_timezones

import dateutil.tz
import pytz

from vf.core import Ctx, cfg_text, main_wrapper, Machinery
from vf.realcode import unfold_lines
from vf.props.c13 import transitions, secs
from icalendar import Event, FreeBusy, Alarm, Calendar, Todo
from icalendar.timezone import tzp

UTC = ZoneInfo("UTC")
E0 = datetime(1970, 1, 1)
HARD = ["UTC", "Europe/Berlin", "America/New_York", "US/Eastern", "Etc/GMT+5", "Etc/UTC", "GMT", "Europe/Kyiv", "Europe/Kiev",
        "Australia/Lord_Howe", "Pacific/Apia", "Asia/Kathmandu", "America/St_Johns", "Africa/Casablanca", "Europe/Dublin",
        "America/Argentina/Buenos_Aires", "Antarctica/Troll", "Asia/Tehran", "Pacific/Chatham", "America/Indiana/Knox"]


class Stamp(datetime):
    """a datetime subclass, as pandas.Timestamp, pendulum.DateTime, freezegun's FakeDatetime are"""


def wall_min(d):
    """wall clock reading as [days since 1970, second of day] (TLC integers are 32 bit)"""
    td = d.replace(tzinfo=None) - E0
    return [td.days, td.seconds]


def key_of(d):
    if d.tzinfo is None:
        return "floating"
    return getattr(d.tzinfo, "key", None) or getattr(d.tzinfo, "zone", None) or type(d.tzinfo).__name__


def line_facts(b, name):
    for ln in unfold_lines(b):
        m = re.match(r'^' + name + r'((?:;[A-Za-z0-9-]+=(?:"[^"]*"|[^";:,]*))*):(.*)$', ln, re.I)
        if m:
            ps = {k.upper(): v.strip('"') for k, v in re.findall(r';([A-Za-z0-9-]+)=("[^"]*"|[^";:,]*)', m.group(1))}
            dts = re.findall(r"(\d{8}T\d{6})(Z?)", m.group(2))
            return ps, dts
    return None, None


def text_wall(t):
    return wall_min(datetime.strptime(t, "%Y%m%dT%H%M%S"))


def observe(kind, dt, key, src):
    """write dt (zoned) in a property of the given kind, read it back -> row for the trace"""
    # every other row hands additional parameters to add(): the zone tag of the value is not one of them and must survive
    extra = {"X-VERIF": "1", "RANGE": "THISANDFUTURE"} if (wall_min(dt)[1] + len(key)) % 2 else None
    if kind == "single" and extra is None and ((wall_min(dt)[1] + len(key)) % 4 == 0 or key == "UTC"):
        # the slot has a history: the component was parsed with a value in another zone (or in UTC), which the setter then replaces
        which = (wall_min(dt)[1] // 4) % 3
        name = ("DTSTART", "DTEND", "DUE")[which]
        old = ("DTSTART;TZID=America/New_York:20240310T013000", "DTSTART:20240310T013000Z", "DTSTART;TZID=Asia/Kolkata;X-OLD=1:20240310T013000")[(wall_min(dt)[0] + len(key)) % 3]
        cls = Todo if name == "DUE" else Event
        c = cls.from_ical(f"BEGIN:{cls.name}\r\nUID:1\r\n{old}\r\n{old.replace('DTSTART', name) if name != 'DTSTART' else 'SUMMARY:s'}\r\nEND:{cls.name}\r\n")
        setattr(c, name, dt)
    elif kind == "single":
        c = Event()
        c.add("dtstart" if extra is None else "recurrence-id", dt, parameters=extra)
        name = "DTSTART" if extra is None else "RECURRENCE-ID"
    elif kind == "list":
        c = Event()
        c.add("rdate", [dt, dt + timedelta(days=400)], parameters=extra)
        name = "RDATE"
    else:
        c = FreeBusy()
        c.add("freebusy", (dt, dt + timedelta(days=2) if key != "UTC" else timedelta(hours=1)), parameters=extra)
        name = "FREEBUSY"
    b = c.to_ical()
    ps, dts = line_facts(b, name)
    back = type(c).from_ical(b)
    v = back[name]
    if kind == "single":
        out = v.dt
    elif kind == "list":
        out = v.dts[0].dt
    else:
        out = (v[0] if isinstance(v, list) else v).dt[0]
    off_prov = dt.utcoffset()
    return {"k": "zoned", "kind": kind, "key": key, "src": src, "wall_in": wall_min(dt), "has_z": bool(dts) and dts[0][1] == "Z",
            "tzid": (ps or {}).get("TZID", ""), "wall_text": text_wall(dts[0][0]) if dts else [],
            "wall_out": wall_min(out) if isinstance(out, datetime) else [], "key_out": key_of(out) if isinstance(out, datetime) else "none",
            "off_out": int(out.utcoffset().total_seconds()) if isinstance(out, datetime) and out.tzinfo else -99999,
            "off_prov": int(off_prov.total_seconds()), "check_key": src != "dateutil", "check_off": src != "dateutil"}


def run(ctx: Ctx):
    rnd = random.Random(ctx.seed)
    ctx.mc("MC_ZonedTime", cfg_text(spec="Spec", constants={"MaxTick": 5 if ctx.quick else 7, "Offs": {0, 1, 2}},
                                    invariants=["InvRoundTrip", "InvUtc"]), workers=4, timeout=1200)
    allz = sorted(z for z in available_timezones() if not z.startswith(("posix/", "right/")))
    ids = HARD + (rnd.sample(allz, 20) if ctx.quick else allz)
    ids = list(dict.fromkeys(ids))
    ev, meta = [], []
    w0, w1 = secs(datetime(1900, 1, 2, tzinfo=UTC)), secs(datetime(2100, 1, 1, tzinfo=UTC))
    try:
        for prov in ("zoneinfo", "pytz"):
            tzp.use(prov)
            from vf import preludes
            preludes.slash_zones(ids[:40])      # history: calendars that re-define IANA ids written with a leading slash
            for tzid in ids:
                tz = tzp.timezone(tzid)
                if tz is None or (prov == "pytz" and tzid not in pytz.all_timezones_set):
                    # not a zone of this provider (e.g. "Factory" under pytz; after the slash-zone prelude the id may resolve to
                    # the calendar-defined zone of that name, which is C12's subject)
                    continue
                key = "UTC" if tzid == "UTC" else tzid
                # wall times: around transitions of the provider zone (1970-2037 scanned), midpoints, random 1900-2100
                trs = transitions(tz, secs(datetime(1970, 1, 2, tzinfo=UTC)), secs(datetime(2037, 12, 30, tzinfo=UTC)))
                if ctx.quick:
                    sel = (trs[:2] + rnd.sample(trs, min(len(trs), 4))) if trs else []
                else:
                    sel = trs if len(trs) <= 20 else trs[:4] + trs[-4:] + rnd.sample(trs[4:-4], 12)
                walls = set()
                for t in sel:
                    for dlt in (-1, 0, 1, -1800, 1800):
                        u = (datetime(1970, 1, 1, tzinfo=UTC) + timedelta(seconds=t + dlt)).astimezone(tz)
                        walls.add(u.replace(tzinfo=None))
                        # the wall clock reading just before and after, also inside a gap
                        walls.add(u.replace(tzinfo=None) + timedelta(hours=1))
                        walls.add(u.replace(tzinfo=None) - timedelta(hours=1))
                for _ in range((4 if ctx.quick else 12) * (6 if tzid == "UTC" else 1)):
                    walls.add(datetime(1900, 1, 2) + timedelta(seconds=rnd.randrange(0, 200 * 365 * 86400)))
                for naive in sorted(walls):
                    naive = naive.replace(microsecond=0, fold=0)      # the wire cannot carry a fold: the provider's default answer counts
                    try:
                        dt = tzp.localize(naive, tz)
                    except Exception:   # noqa: BLE001  (pytz refuses nothing by default; be safe)
                        continue
                    if prov == "pytz" and dt.replace(tzinfo=None) != naive:
                        continue
                    kinds = ("single", "list", "period") if rnd.random() < 0.34 or not ctx.quick else (rnd.choice(("single", "list", "period")),)
                    for kind in kinds:
                        srcs = [(prov, dt)]
                        if rnd.random() < (0.15 if ctx.quick else 0.3):
                            # tzinfo objects of the other libraries
                            if prov == "zoneinfo" and tzid in pytz.all_timezones_set:
                                srcs.append(("pytz-object", pytz.timezone(tzid).localize(naive)))
                            if prov == "pytz" and tzid != "UTC":
                                srcs.append(("zoneinfo-object", naive.replace(tzinfo=ZoneInfo(tzid))))
                            du = dateutil.tz.gettz(tzid)
                            if du is not None and tzid != "UTC":
                                srcs.append(("dateutil", naive.replace(tzinfo=du)))
                        for src, d in srcs:
                            case = {"tzid": tzid, "wall": naive.isoformat(), "kind": kind, "provider": prov, "src": src}
                            ctx.case((prov, tzid, naive.isoformat(), kind, src), True)
                            try:
                                row = observe(kind, d, key, "dateutil" if src == "dateutil" else "named")
                            except Exception as e:   # noqa: BLE001
                                ctx.fail("P:C11:write-read-total", {**case, "exc": type(e).__name__}, str(e)[:200], None)
                                continue
                            if src in ("pytz-object", "zoneinfo-object"):
                                # the offset the ACTIVE provider assigns to that wall time
                                row["off_prov"] = int(tzp.localize(naive, tzid).utcoffset().total_seconds())
                                row["check_off"] = int(d.utcoffset().total_seconds()) == row["off_prov"]
                            ev.append(row)
                            meta.append(case)
                            # the END of an explicit period is a zoned value in its own right: same rules, its own offset
                            # (start and end often lie on opposite sides of the transition the wall time was chosen at)
                            if kind == "period" and src == prov and key != "UTC":
                                for span in (timedelta(days=2), timedelta(hours=3)):
                                    try:
                                        end = tzp.localize(naive + span, tz)
                                        if end.replace(tzinfo=None) != naive + span or not end > d:
                                            continue
                                        fb = FreeBusy()
                                        fb.add("freebusy", (d, end))
                                        bb = fb.to_ical()
                                        ps2, dts2 = line_facts(bb, "FREEBUSY")
                                        v2 = FreeBusy.from_ical(bb)["FREEBUSY"]
                                        out = (v2[0] if isinstance(v2, list) else v2).dt[1]
                                        row2 = {"k": "zoned", "kind": "period-end", "key": key, "src": "named", "wall_in": wall_min(end),
                                                "has_z": len(dts2) > 1 and dts2[1][1] == "Z", "tzid": (ps2 or {}).get("TZID", ""),
                                                "wall_text": text_wall(dts2[1][0]) if len(dts2) > 1 else [],
                                                "wall_out": wall_min(out) if isinstance(out, datetime) else [],
                                                "key_out": key_of(out) if isinstance(out, datetime) else "none",
                                                "off_out": int(out.utcoffset().total_seconds()) if isinstance(out, datetime) and out.tzinfo else -99999,
                                                "off_prov": int(end.utcoffset().total_seconds()), "check_key": True, "check_off": True}
                                    except Exception as e:   # noqa: BLE001
                                        ctx.fail("P:C11:write-read-total", {**case, "exc": type(e).__name__, "what": "period end"}, str(e)[:200], None)
                                        continue
                                    ev.append(row2)
                                    meta.append({**case, "kind": "period-end", "span": str(span)})
                # UTC-forced properties: a random wall time and, where the zone has one, a wall time inside a repeated hour in
                # both readings (fold 0/1 on a zoneinfo object), as a plain datetime and as a datetime subclass
                naive = datetime(2024, rnd.randint(1, 12), rnd.randint(1, 28), rnd.randint(0, 23), rnd.randint(0, 59), rnd.randint(0, 59))
                forced = [(naive, tzp.localize(naive, tz))]
                if tzid != "UTC" and tzid in available_timezones():
                    zi = ZoneInfo(tzid)
                    for t in (sel[:2] if sel else []):
                        u = (datetime(1970, 1, 1, tzinfo=UTC) + timedelta(seconds=t + 600)).astimezone(zi)
                        w = u.replace(tzinfo=None, fold=0)
                        for fold in (0, 1):
                            cand = w.replace(tzinfo=zi, fold=fold)
                            forced.append((w, Stamp(*cand.timetuple()[:6], tzinfo=zi, fold=fold) if fold ^ (t % 2) else cand))
                for (naive, dt), name in [(f, n) for f in forced for n in ("DTSTAMP", "CREATED", "LAST-MODIFIED", "ACKNOWLEDGED")]:
                    inst = wall_min(dt.astimezone(UTC))
                    c = Alarm() if name == "ACKNOWLEDGED" else Event()
                    if name == "ACKNOWLEDGED":
                        c.ACKNOWLEDGED = dt
                    elif rnd.random() < 0.5 and name != "CREATED":
                        setattr(c, name.replace("-", "_"), dt)
                    else:
                        c.add(name, dt)
                    b = c.to_ical()
                    ps, dts = line_facts(b, name)
                    out = type(c).from_ical(b)[name].dt
                    ev.append({"k": "utc", "name": name, "instant_in": inst, "has_z": bool(dts) and dts[0][1] == "Z", "tzid": (ps or {}).get("TZID", ""),
                               "instant_text": text_wall(dts[0][0]) if dts else [],
                               "instant_out": wall_min(out.astimezone(UTC)) if out.tzinfo else []})
                    meta.append({"tzid": tzid, "name": name, "provider": prov, "wall": naive.isoformat(), "fold": dt.fold, "type": type(dt).__name__})
                    ctx.case((prov, tzid, name, naive.isoformat(), dt.fold), True)
    finally:
        tzp.use_default()
    if len(ev) < 500:
        raise Machinery(f"too few rows {len(ev)}")
    ctx.sample({"trace_event": ev[0]})
    for idx, clause, known in ctx.validate_trace("Trace_ZonedTime", ev, cfg_text(spec="Spec"), chunk=20000, timeout=3000):
        ctx.fail(clause, meta[idx], ev[idx], None)
    ctx.assumptions += [
        "the active provider is the reference for the offset of a wall time (its default answer inside gaps and folds)",
        "for dateutil tzinfo objects only the wall time is required to survive (the property says so)",
        "wall times are produced by the provider's own conversion of instants around its transitions, plus +-1h (gap/fold walls) and random walls 1900-2100",
    ]
    return ctx.finish(rule=(
        "zone ids (quick: 20 hard + 20 seeded; thorough: every IANA id) x wall times around provider transitions (incl. gap and fold walls), "
        "midpoints and random walls x {single, list, period} x both providers x tzinfo sources; UTC-forced properties; every row is a "
        "distinct (zone, wall, kind, source) case"))


if __name__ == "__main__":
    main_wrapper(run, "C11")
