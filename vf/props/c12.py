"""C12 — VTIMEZONE is interpreted per RFC 5545 onset rules, the same in both providers,
independently of position in the file and of earlier parses.

MC      spec/MC_VTimezone: families of definitions (fixed, yearly nth-weekday pairs with open /
        COUNT / UNTIL ends, RDATE sets, a permanent offset change before a yearly pair); per zone
        TLC computes the onsets (local - TZOFFSETFROM, Gregorian arithmetic in TLA+) and the
        admissible answer at every onset -1/0/+1 minute and 45 days later.
        spec/MC_TzCache: every history of parsed calendars over one custom TZID (definition before
        or after its use, a second calendar defining it differently, provider switches).
REPLAY  each zone rendered to VTIMEZONE text, converted by Timezone.to_tz under zoneinfo and pytz,
        probed at the instants TLC chose: utcoffset, tzname, dst; each history replayed with the
        process-wide cache emptied first.
RECORD  the repository's fixture calendars that define their own VTIMEZONEs.
VALIDATE spec/Trace_VTimezone: OffsetsAt / NamesAt on the recorded definitions and probes.
"""
import glob
import os
import random
import re
from datetime import datetime, timedelta, date
from zoneinfo import ZoneInfo

from vf.core import Ctx, cfg_text, main_wrapper, Machinery, REPO
from icalendar import Calendar, Timezone, Event
from icalendar.timezone import tzp

UTC = ZoneInfo("UTC")
EPOCH = datetime(1970, 1, 1)
WD = ["SU", "MO", "TU", "WE", "TH", "FR", "SA"]


def fmt_off(m):
    sign = "-" if m < 0 else "+"
    m = abs(m)
    return f"{sign}{m // 60:02d}{m % 60:02d}"


def fmt_local(m):
    return (EPOCH + timedelta(minutes=m)).strftime("%Y%m%dT%H%M%S")


def render_zone(z, tzid, with_names=True, with_x=False, rdate_order=0):
    out = ["BEGIN:VTIMEZONE", f"TZID:{tzid}"]
    if with_x:
        # non-standard properties as exported by common producers; they do not change the definition
        out += ["X-LIC-LOCATION:Europe/Verif", "LAST-MODIFIED:20240101T000000Z"]
    for o in z:
        out.append(f"BEGIN:{o['kind']}")
        if with_x:
            out.append("X-VERIF-NOTE:observance")
        out.append(f"DTSTART:{fmt_local(o['start'])}")
        out.append(f"TZOFFSETFROM:{fmt_off(o['from'])}")
        out.append(f"TZOFFSETTO:{fmt_off(o['to'])}")
        if with_names:
            out.append(f"TZNAME:{o['name']}")
        r = o["rec"]
        if r["k"] == "rdate" and r["set"]:
            # the order in which a value list is written carries no meaning: ascending, descending, or one property per value
            vals = sorted(r["set"], reverse=(rdate_order == 1))
            if rdate_order == 2 and len(vals) > 1:
                out += ["RDATE:" + fmt_local(x) for x in reversed(vals)]
            else:
                out.append("RDATE:" + ",".join(fmt_local(x) for x in vals))
        elif r["k"] == "yearly":
            rule = f"RRULE:FREQ=YEARLY;BYMONTH={r['m']};BYDAY={r['n']}{WD[r['w']]}"
            if r["endk"] == "count":
                rule += f";COUNT={r['endv']}"
            elif r["endk"] == "until":
                rule += ";UNTIL=" + (EPOCH + timedelta(minutes=r["endv"])).strftime("%Y%m%dT%H%M%SZ")
            out.append(rule)
        out.append(f"END:{o['kind']}")
    out.append("END:VTIMEZONE")
    return "\r\n".join(out) + "\r\n"


def probe(tz, minute, second=0):
    u = (EPOCH + timedelta(minutes=minute, seconds=second)).replace(tzinfo=UTC)
    try:
        d = u.astimezone(tz)
        off = d.utcoffset()
        dst = d.dst()
        return {"off": int(off.total_seconds() // 60), "name": d.tzname(), "dst": None if dst is None else int(dst.total_seconds() // 60)}
    except Exception as e:   # noqa: BLE001
        return {"off": "EXC", "name": type(e).__name__, "dst": None}


def run(ctx: Ctx):
    rnd = random.Random(ctx.seed)
    if ctx.quick:
        consts = {"Y0s": {2001}, "Y0Old": {1895}, "Ends": {"open", "count", "until"}}       # 1895: rules anchored before 1900
        fixed = {0, 345, -720}
        pairs = {(60, 120), (-60, 0)}      # the second pair has its two offsets on opposite sides of UTC (timedelta.days -1 and 0)
    else:
        consts = {"Y0s": {1996, 2001, 2015}, "Y0Old": {1895, 1601}, "Ends": {"open", "count", "until"}}
        fixed = {0, 345, -720, 840, -210}
        pairs = {(60, 120), (-300, -240), (570, 630), (0, 120), (-60, 0), (-30, 30)}
    r = ctx.mc("MC_VTimezone", cfg_text(spec="Spec", constants={**consts, "Cross": False},
                                        invariants=["InvUnique", "InvNonEmpty", "InvPytzMirror", "Vec"]),
               defs={"OffPairs": pairs, "Fixed": fixed}, workers=6 if ctx.quick else 14, timeout=6000)
    zones = r.prints
    # definitions whose onsets are ordered differently in local time and in UTC: the mirror of
    # get_transitions (sort by local time) + pytz (bisect on the derived UTC list) is refuted by TLC
    rx = ctx.mc("MC_VTimezone", cfg_text(spec="Spec", constants={"Y0s": {2001}, "Y0Old": set(), "Ends": {"open"}, "Cross": True},
                                         invariants=["InvPytzMirror"]),
                defs={"OffPairs": {(60, 120)}, "Fixed": {0}}, expect_ok=False, count=False, workers=1, timeout=600)
    if rx.violated != "InvPytzMirror":
        raise Machinery("the local-time sort of get_transitions should be refuted on cross-ordered onsets")
    rc = ctx.mc("MC_VTimezone", cfg_text(spec="Spec", constants={"Y0s": {2001}, "Y0Old": set(), "Ends": {"open"}, "Cross": True},
                                         invariants=["InvUnique", "InvNonEmpty", "Vec"]),
                defs={"OffPairs": {(60, 120)}, "Fixed": {0}}, workers=4, timeout=600)
    cross = [v for v in rc.prints if [o["name"] for o in v["z"]] == ["A", "B"]]
    if len(cross) < 4:
        raise Machinery("cross-ordered zones missing")
    zones = zones + cross
    if len(zones) < 30:
        raise Machinery(f"too few zones {len(zones)}")
    ctx.sample({"zone": zones[len(zones) // 2]["z"], "n_probes": len(zones[len(zones) // 2]["probes"])})
    nprobe = 0
    try:
        for prov in ("zoneinfo", "pytz"):
            tzp.use(prov)
            # zones with a multi-valued RDATE are replayed under every writing order of that list
            jobs = []
            for zi0, v0 in enumerate(zones):
                multi = any(o["rec"]["k"] == "rdate" and len(o["rec"]["set"]) > 1 for o in v0["z"])
                jobs += [(zi0, v0, ro) for ro in ((0, 1, 2) if multi else (zi0 % 3,))]
            for zi, v, rdate_order in jobs:
                with_x = zi % 3 == 1
                # every fourth zone has an id that needs TEXT escaping on the wire (comma, semicolon, backslash)
                tzid_wire = f"Verif/Zone-{zi}" if zi % 4 != 2 else f"Verif\\, Zone\\; {zi} \\\\ x"
                text = render_zone(v["z"], tzid_wire, with_x=with_x, rdate_order=rdate_order)
                case = {"zone": v["z"], "provider": prov, "with_x": with_x, "rdate_order": rdate_order}
                try:
                    comp = Timezone.from_ical(text)
                    tz = comp.to_tz(tzp, lookup_tzid=False)
                except Exception as e:   # noqa: BLE001
                    ctx.fail("P:C12:definition-accepted", case, type(e).__name__ + ":" + str(e)[:100], None)
                    continue
                ctx.case((prov, zi, repr(v["z"])), len(v["z"]) > 1)
                bad = 0
                for tkey, want in v["probes"].items():
                    t = int(tkey)
                    for sec in (0, 59):
                        got = probe(tz, t, sec)
                        nprobe += 1
                        pc = {**case, "t": t, "sec": sec, "utc": (EPOCH + timedelta(minutes=t)).isoformat()}
                        pc["impl_equal"] = (got["off"] == want["impl"]["off"] and got["name"] == want["impl"]["name"])
                        if got["off"] not in want["off"]:
                            bad += ctx.fail("P:C12:utcoffset", pc, got, want)
                        elif got["name"] not in want["name"]:
                            bad += ctx.fail("P:C12:tzname", pc, got, want)
                        elif want["kind"] == ["STANDARD"] and got["dst"] not in (0, None):
                            bad += ctx.fail("P:C12:dst-zero-for-standard", pc, got, want)
                        if bad > 6:
                            break
                    if bad > 6:
                        break
                # "every date-time that references a custom TZID": the same answers from values PARSED out of a calendar that
                # carries the definition -- a single value, the items of a list, and BOTH ends of an explicit period (the
                # end usually lies in another observance than the start).  Wall times are taken from probes that are far
                # (> 1 day) from every probe with a different answer, so each wall time denotes one instant.
                keys = sorted(int(k) for k in v["probes"])
                stable = []
                for t in keys:
                    w = v["probes"][str(t)]
                    if len(w["off"]) == 1 and all(v["probes"][str(u)]["off"] == w["off"] for u in keys if abs(u - t) <= 1500):
                        stable.append(t)
                is_cross = [o["name"] for o in v["z"]] == ["A", "B"]      # (cross-ordered onsets: C12-K3's family, probed above)
                if len(stable) >= 2 and "\\" not in tzid_wire and not is_cross:
                    pick = stable if len(stable) <= 6 else stable[:2] + stable[len(stable) // 2 - 1:len(stable) // 2 + 1] + stable[-2:]
                    wl = {t: fmt_local(t + v["probes"][str(t)]["off"][0]) for t in pick}
                    periods = ",".join(f"{wl[a]}/{wl[b]}" for a, b in zip(pick, pick[1:]))
                    cal_text = ("BEGIN:VCALENDAR\r\nVERSION:2.0\r\nPRODID:verif\r\n" + text + "BEGIN:VEVENT\r\nUID:1\r\n"
                                f"DTSTART;TZID={tzid_wire}:{wl[pick[0]]}\r\nDTEND;TZID={tzid_wire}:{wl[pick[1]]}\r\n"
                                f"RDATE;VALUE=PERIOD;TZID={tzid_wire}:{periods}\r\nEXDATE;TZID={tzid_wire}:{','.join(wl[t] for t in pick)}\r\n"
                                "END:VEVENT\r\nEND:VCALENDAR\r\n")
                    try:
                        pe = Calendar.from_ical(cal_text).walk("VEVENT")[0]
                        rd = pe["RDATE"]
                        got_vals = [("DTSTART", pick[0], pe["DTSTART"].dt), ("DTEND", pick[1], pe["DTEND"].dt)]
                        got_vals += [("EXDATE", t, x.dt) for t, x in zip(pick, pe["EXDATE"].dts)]
                        for (a, b), x in zip(zip(pick, pick[1:]), rd.dts):
                            got_vals += [("RDATE period start", a, x.dt[0]), ("RDATE period end", b, x.dt[1])]
                    except Exception as e:   # noqa: BLE001
                        ctx.fail("P:C12:definition-accepted", {**case, "route": "parsed calendar"}, type(e).__name__ + ":" + str(e)[:100], None)
                        got_vals = []
                    for where, t, d in got_vals:
                        want = v["probes"][str(t)]
                        nprobe += 1
                        try:
                            got = {"off": int(d.utcoffset().total_seconds() // 60), "name": d.tzname(), "wall": d.strftime("%Y%m%dT%H%M%S")}
                        except Exception as e:   # noqa: BLE001
                            got = {"off": "EXC", "name": type(e).__name__, "wall": ""}
                        pc = {**case, "t": t, "route": "parsed calendar", "where": where, "impl_equal": False}
                        if got["off"] not in want["off"] or got["wall"] != wl[t]:
                            ctx.fail("P:C12:utcoffset", pc, got, want)
                        elif got["name"] not in want["name"]:
                            ctx.fail("P:C12:tzname", pc, got, want)
    finally:
        tzp.use_default()
    ctx.evaluations += nprobe
    ctx.notes.append(f"probes answered by real time zone objects: {nprobe}")

    # ------------------------------------------------------------- history / position (TzCache)
    from vf.props import c12_history
    c12_history.run(ctx, rnd)

    ctx.assumptions += [
        "instants are whole minutes (each probed at second 0 and 59); open-ended rules run to the end of 2038 as the library's fix_rrule_until does",
        "when two observances have the same onset instant every one of them is an admissible answer",
    ]
    return ctx.finish(rule=(
        "zone families (fixed offsets, 4 yearly rule shapes x offsets x start years x {open, COUNT, UNTIL}^2, RDATE sets, permanent change + "
        "yearly pair) probed at every onset -1/0/+1 minute and +45 days under both providers; all parse histories of <=3 calendars over one "
        "custom TZID; non-trivial = more than one observance / a history with a definition after its use or a second definition"))


if __name__ == "__main__":
    main_wrapper(run, "C12")
