"""C12, history clause: date-times referencing a custom TZID get their offsets from the definition
in the same calendar -- wherever it stands in the file, whatever was parsed before (spec/TzCache)."""
from vf.core import cfg_text, Machinery
from icalendar import Calendar
from icalendar.timezone import tzp

TZID = "Verif/History"


def fmt_off(m):
    return f"+{m // 60:02d}{m % 60:02d}"


def render(cal):
    out = ["BEGIN:VCALENDAR", "VERSION:2.0", "PRODID:verif"]
    n = 0
    for it in cal:
        if it == 0:
            n += 1
            out += ["BEGIN:VEVENT", f"UID:{n}", f"DTSTART;TZID={TZID}:20240101T120000", "END:VEVENT"]
        else:
            out += ["BEGIN:VTIMEZONE", f"TZID:{TZID}", "BEGIN:STANDARD", "DTSTART:19700101T000000", f"TZOFFSETFROM:{fmt_off(it)}",
                    f"TZOFFSETTO:{fmt_off(it)}", f"TZNAME:O{it}", "END:STANDARD", "END:VTIMEZONE"]
    out.append("END:VCALENDAR")
    return "\r\n".join(out) + "\r\n"


def observe(cal):
    c = Calendar.from_ical(render(cal))
    res = []
    for e in c.walk("VEVENT"):
        d = e["DTSTART"].dt
        off = d.utcoffset()
        res.append(0 if off is None else int(off.total_seconds() // 60))
    return res


def run(ctx, rnd):
    r = ctx.mc("MC_TzCache", cfg_text(spec="Spec", constants={"Defs": {120, 300}, "MaxItems": 3 if ctx.quick else 4}, invariants=["InvDelta"]),
               workers=1, timeout=600)
    r0 = ctx.mc("MC_TzCache", cfg_text(spec="Spec", constants={"Defs": {120, 300}, "MaxItems": 3}, invariants=["InvHistory"]),
                expect_ok=False, count=False, workers=1, timeout=600)
    if r0.violated != "InvHistory":
        raise Machinery("the pinned cache design should be refuted against the history clause")
    vecs = r.prints
    if len(vecs) < 30:
        raise Machinery(f"too few history vectors {len(vecs)}")
    ctx.sample({"history_vector": vecs[len(vecs) // 2]})
    for prov in ("zoneinfo", "pytz"):
        try:
            for v in vecs:
                tzp.use(prov)                      # empties the cache
                if v["cache"]:
                    # an earlier calendar that left `cache` behind: definition first, or -- same effect on the
                    # cache -- a use that stands before its definition (a failed lookup must leave nothing behind)
                    Calendar.from_ical(render([v["cache"], 0] if rnd.random() < 0.5 else [0, v["cache"], 0]))
                elif rnd.random() < 0.5:
                    try:
                        Calendar.from_ical(render([0]))             # an earlier calendar that only USES the id (lookup fails)
                    except ValueError:
                        pass
                got = observe(v["cal"])
                case = {"cache_before": v["cache"], "cal": v["cal"], "provider": prov, "impl_equal": got == v["impl"], "kf": v["kf"]}
                ctx.case((prov, v["cache"], tuple(v["cal"])), v["cache"] != 0 or v["cal"][0] == 0)
                if got != v["impl"]:
                    ctx.drifted("M:C12:cache-mirror", case, got, v["impl"])
                if any(g != v["ref"] for g in got):
                    ctx.fail("P:C12:own-definition", case, got, v["ref"])
        finally:
            tzp.use_default()
