"""C12, history clause: date-times referencing a custom TZID get their offsets from the definition
in the same calendar -- wherever it stands in the file, whatever was parsed before (spec/TzCache)."""
from vf.core import cfg_text, Machinery
from icalendar import Calendar
from icalendar.timezone import tzp
from vf.realcode import switch_provider

TZID = "Verif/History"


def fmt_off(m):
    return f"+{m // 60:02d}{m % 60:02d}"


def render(cal):
    out = ["BEGIN:VCALENDAR", "VERSION:2.0", "PRODID:verif"]
    n = 0
    for it in cal:
        if it == 0:
            n += 1
            out += ["BEGIN:VEVENT", f"UID:{n}", f"DTSTART;TZID={TZID}:20240101T120000", "END:VEVENT"]
        else:
            out += ["BEGIN:VTIMEZONE", f"TZID:{TZID}", "BEGIN:STANDARD", "DTSTART:19700101T000000", f"TZOFFSETFROM:{fmt_off(it)}",
                    f"TZOFFSETTO:{fmt_off(it)}", f"TZNAME:O{it}", "END:STANDARD", "END:VTIMEZONE"]
    out.append("END:VCALENDAR")
    return "\r\n".join(out) + "\r\n"


def observe(cal):
    c = Calendar.from_ical(render(cal))
    res = []
    for e in c.walk("VEVENT"):
        d = e["DTSTART"].dt
        off = d.utcoffset()
        res.append(0 if off is None else int(off.total_seconds() // 60))
    return res


def run(ctx, rnd):
    r = ctx.mc("MC_TzCache", cfg_text(spec="Spec", constants={"Defs": {120, 300}, "MaxItems": 3 if ctx.quick else 4}, invariants=["InvDelta"]),
               workers=1, timeout=600)
    r0 = ctx.mc("MC_TzCache", cfg_text(spec="Spec", constants={"Defs": {120, 300}, "MaxItems": 3}, invariants=["InvHistory"]),
                expect_ok=False, count=False, workers=1, timeout=600)
    if r0.violated != "InvHistory":
        raise Machinery("the pinned cache design should be refuted against the history clause")
    vecs = r.prints
    if len(vecs) < 30:
        raise Machinery(f"too few history vectors {len(vecs)}")
    ctx.sample({"history_vector": vecs[len(vecs) // 2]})
    for prov in ("zoneinfo", "pytz"):
        try:
            for vi, v in enumerate(vecs):
                switch_provider(prov, vi)          # empties the cache (by any of the documented routes)
                if v["cache"]:
                    # an earlier calendar that left `cache` behind: definition first, or -- same effect on the
                    # cache -- a use that stands before its definition (a failed lookup must leave nothing behind)
                    Calendar.from_ical(render([v["cache"], 0] if rnd.random() < 0.5 else [0, v["cache"], 0]))
                elif rnd.random() < 0.5:
                    try:
                        Calendar.from_ical(render([0]))             # an earlier calendar that only USES the id (lookup fails)
                    except ValueError:
                        pass
                got = observe(v["cal"])
                case = {"cache_before": v["cache"], "cal": v["cal"], "provider": prov, "impl_equal": got == v["impl"], "kf": v["kf"]}
                ctx.case((prov, v["cache"], tuple(v["cal"])), v["cache"] != 0 or v["cal"][0] == 0)
                if got != v["impl"]:
                    ctx.drifted("M:C12:cache-mirror", case, got, v["impl"])
                if any(g != v["ref"] for g in got):
                    ctx.fail("P:C12:own-definition", case, got, v["ref"])
        finally:
            tzp.use_default()
    # ------------------------------------------------------------- custom ids that LOOK like something a provider might resolve itself
    # (POSIX TZ strings, GMT offsets, abbreviations): the calendar's own definition is the one that counts
    def offsets_of(text):
        return [(lambda o: None if o is None else int(o.total_seconds() // 60))(e["DTSTART"].dt.utcoffset())
                for e in Calendar.from_ical(text).walk("VEVENT")]
    for prov in ("zoneinfo", "pytz"):
        try:
            for ni, name in enumerate(("CET-1CEST", "JST-9", "XYZ3", "AAA-2BBB", "UTC+3", "GMT+5", "EST5", "PST8PDT7", "<-03>3", "Custom")):
                switch_provider(prov, ni + 1)
                text = "\r\n".join(["BEGIN:VCALENDAR", "VERSION:2.0", "PRODID:verif", "BEGIN:VTIMEZONE", f"TZID:{name}", "BEGIN:STANDARD", "DTSTART:19700101T000000",
                                    "TZOFFSETFROM:+0545", "TZOFFSETTO:+0545", "TZNAME:OWN", "END:STANDARD", "END:VTIMEZONE", "BEGIN:VEVENT", "UID:1",
                                    f"DTSTART;TZID={name}:20210330T120000", "END:VEVENT", "BEGIN:VEVENT", "UID:2", f"DTSTART;TZID={name}:20211130T120000",
                                    "END:VEVENT", "END:VCALENDAR"]) + "\r\n"
                ctx.case(("posix-like-id", prov, name), True)
                try:
                    got = offsets_of(text)
                except Exception as e:   # noqa: BLE001
                    got = [type(e).__name__]
                if got != [345, 345]:
                    ctx.fail("P:C12:own-definition", {"tzid": name, "provider": prov, "impl_equal": False, "kf": False}, got, [345, 345])
        finally:
            tzp.use_default()

    # ------------------------------------------------------------- capacity: many distinct custom zones in one process
    # (a bounded or evicting cache must not take a definition away from the calendar that contains it)
    # spec/TzCacheCap: several ids; OwnDefinition holds for the unbounded first-wins cache and is refuted for an evicting one
    capc = {"Ids": {1, 2, 3}, "Defs": {60, 120}, "MaxItems": 3}
    ctx.mc("MC_TzCacheCap", cfg_text(spec="Spec", constants={**capc, "Cap": 0}, invariants=["OwnDefinition"]), workers=4, timeout=600)
    rcap = ctx.mc("MC_TzCacheCap", cfg_text(spec="Spec", constants={**capc, "Cap": 2}, invariants=["OwnDefinition"]),
                  expect_ok=False, count=False, workers=1, timeout=600)
    if rcap.violated != "OwnDefinition":
        raise Machinery("an evicting cache should be refuted against OwnDefinition")
    def vtz(tzid, off):
        return ["BEGIN:VTIMEZONE", f"TZID:{tzid}", "BEGIN:STANDARD", "DTSTART:19700101T000000", f"TZOFFSETFROM:{fmt_off(off)}",
                f"TZOFFSETTO:{fmt_off(off)}", f"TZNAME:C{off}", "END:STANDARD", "END:VTIMEZONE"]

    def cal_of(defs, uses):
        out = ["BEGIN:VCALENDAR", "VERSION:2.0", "PRODID:verif"]
        for tzid, off in defs:
            out += vtz(tzid, off)
        for n, tzid in enumerate(uses):
            out += ["BEGIN:VEVENT", f"UID:{n}", f"DTSTART;TZID={tzid}:20240101T120000", "END:VEVENT"]
        return "\r\n".join(out + ["END:VCALENDAR"]) + "\r\n"

    def offsets(text):
        return [(lambda o: None if o is None else int(o.total_seconds() // 60))(e["DTSTART"].dt.utcoffset())
                for e in Calendar.from_ical(text).walk("VEVENT")]

    for prov in ("zoneinfo", "pytz"):
        try:
            tzp.use(prov)
            # a bound K of the cache is unknown to the check, but which zones the process still resolves is observable:
            # a calendar that only USES an id (no definition) gets an aware value iff the id is cached.  The oldest
            # surviving entry is the one an evicting cache would drop next -- exactly the zone the test calendars define.
            for n in ((150, 400) if ctx.quick else (70, 150, 400, 1200)):
                tzp.use(prov)          # start from an empty cache
                offs = {f"Verif/Cap-{n}-{i}": 60 + (i * 15) % 600 for i in range(n)}
                ids = list(offs)
                for tzid, off in offs.items():
                    Calendar.from_ical(cal_of([(tzid, off)], [tzid]))
                for rnd_ in range(6):
                    alive = offsets(cal_of([], ids))
                    o = next((i for i, x in enumerate(alive) if x is not None), None)
                    if o is None:
                        ctx.fail("P:C12:own-definition", {"capacity": n, "provider": prov, "impl_equal": False, "kf": False, "what": "no zone survives"}, alive[:5], None)
                        break
                    oldest = ids[o]
                    nxt = ids[min(o + 1, n - 1)]
                    new1, new2 = f"Verif/Cap-{n}-new{rnd_}a", f"Verif/Cap-{n}-new{rnd_}b"
                    defs = [[(oldest, offs[oldest]), (new1, 45)],
                            [(oldest, offs[oldest]), (nxt, offs[nxt]), (new1, 45), (new2, 75)],
                            [(nxt, offs[nxt]), (oldest, offs[oldest]), (new1, 45)]][rnd_ % 3]
                    uses = [d[0] for d in defs]
                    want = [d[1] for d in defs]
                    got = offsets(cal_of(defs, uses))
                    ctx.case(("capacity", prov, n, rnd_), True)
                    if got != want:
                        ctx.fail("P:C12:own-definition", {"capacity": n, "oldest_surviving": o, "defs": defs, "provider": prov, "impl_equal": False, "kf": False},
                                 got, want)
        finally:
            tzp.use_default()
