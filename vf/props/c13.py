"""C13 — a generated VTIMEZONE reproduces the source zone's offsets over its window.

MC      spec/MC_TzSearch: the coarse-to-fine forward search of Timezone.from_tzinfo on integer
        ticks (step ladder as a constant).  TLC proves it sound and complete for sources whose
        transitions are further apart than the largest step, and refutes completeness otherwise
        (src = {1, 2}: an excursion shorter than the coarsest step is skipped) -- the design-level
        form of finding C13-K2.
RECORD  for zone ids x providers x windows: the generated COMPONENT's observances (alpha of the
        component itself), the source zone's transition instants and probe table (every
        transition -1s/0/+1s, midpoints, a coarse grid), the answers of the object built by
        to_tz(), and whether generating again from that object gives the same component.
VALIDATE spec/Trace_VTimezone: WellFormedGen; the component read by the RFC onset rule (TLC's
        OffsetsAt / NamesAt, independent of the library's own conversion) equals the source at
        every probe; to_tz agrees; regeneration equal.  Mismatches inside the two known classes
        are reported as KNOWN, anything else as FAIL.
"""
import random
from datetime import date, datetime, timedelta
from zoneinfo import ZoneInfo, available_timezones

from vf.core import Ctx, cfg_text, main_wrapper, Machinery, time_limit, HardTimeout
from icalendar import Timezone
from icalendar.timezone import tzp

UTC = ZoneInfo("UTC")
EPOCH = datetime(1970, 1, 1, tzinfo=UTC)
HARD = ["Europe/Berlin", "America/New_York", "Africa/Cairo", "Africa/Casablanca", "Europe/Dublin", "Pacific/Apia", "Africa/Monrovia",
        "Pacific/Fiji", "Europe/Moscow", "Asia/Pyongyang", "America/Indiana/Knox", "Australia/Lord_Howe", "Asia/Kathmandu", "America/St_Johns",
        "Asia/Kolkata", "Pacific/Kiritimati", "Etc/GMT+5", "UTC", "Europe/London", "America/Sao_Paulo", "Asia/Tehran", "Antarctica/Troll"]


def secs(d):
    return int((d - EPOCH).total_seconds())


def local_secs(naive):
    return int((naive - datetime(1970, 1, 1)).total_seconds())


def src_at(tz, t):
    d = (EPOCH + timedelta(seconds=t)).astimezone(tz)
    return int(d.utcoffset().total_seconds()), d.tzname() or str(d.utcoffset())


def transitions(tz, w0, w1):
    """transition instants of the source zone in [w0, w1): coarse scan + bisection (independent of the code under test)"""
    out = []
    step = 6 * 3600
    t = w0
    prev = src_at(tz, t)
    while t + step < w1:
        nxt = src_at(tz, t + step)
        if nxt != prev:
            lo, hi = t, t + step
            while hi - lo > 1:
                mid = (lo + hi) // 2
                if src_at(tz, mid) == prev:
                    lo = mid
                else:
                    hi = mid
            out.append(hi)
            prev = src_at(tz, hi)
            t = hi
            continue
        t += step
    return out


def alpha_component(comp):
    z = []
    for sub in comp.subcomponents:
        local = [local_secs(sub["DTSTART"].dt)]
        rd = sub.get("RDATE")
        if rd is not None:
            for lst in (rd if isinstance(rd, list) else [rd]):
                local += [local_secs(x.dt) for x in lst.dts]
        z.append({"kind": sub.name, "name": str(sub.get("TZNAME", "")), "from": int(sub["TZOFFSETFROM"].td.total_seconds()),
                  "to": int(sub["TZOFFSETTO"].td.total_seconds()), "local": sorted(local)})
    return z


def components_equal(a, b):
    return sorted(map(repr, alpha_component(a))) == sorted(map(repr, alpha_component(b)))


def first_kind_only(a, b):
    """the two components differ only in STANDARD/DAYLIGHT of the observance that stands at the window start
    with TZOFFSETFROM = TZOFFSETTO (no earlier offset is known there)"""
    za, zb = alpha_component(a), alpha_component(b)
    if len(za) != len(zb):
        return False
    key = lambda o: (o["local"], o["name"], o["from"], o["to"])   # noqa: E731
    za, zb = sorted(za, key=key), sorted(zb, key=key)
    first = min(o["local"][0] for o in za)
    diff = [(x, y) for x, y in zip(za, zb) if x != y]
    return bool(diff) and all({k: v for k, v in x.items() if k != "kind"} == {k: v for k, v in y.items() if k != "kind"}
                              and x["local"][0] == first and x["from"] == x["to"] for x, y in diff)


def run(ctx: Ctx):
    rnd = random.Random(ctx.seed)
    # ---- the search on ticks
    ok = ctx.mc("MC_TzSearch", cfg_text(spec="Spec", constants={"Horizon": 20 if ctx.quick else 26, "MaxTr": 3, "MinGap": 9},
                                        invariants=["InvSound", "InvFindsAll"]), workers=4, timeout=1200)
    bad = ctx.mc("MC_TzSearch", cfg_text(spec="Spec", constants={"Horizon": 14, "MaxTr": 3, "MinGap": 1}, invariants=["InvFindsAll"]),
                 expect_ok=False, count=False, workers=1, timeout=600)
    if bad.violated != "InvFindsAll":
        raise Machinery("the ladder search should be refuted for excursions shorter than the coarsest step")
    sound = ctx.mc("MC_TzSearch", cfg_text(spec="Spec", constants={"Horizon": 14, "MaxTr": 3, "MinGap": 1}, invariants=["InvSound"]),
                   workers=2, timeout=600)
    ctx.notes.append("MC_TzSearch: complete when transitions are >= 9 ticks apart (ladder 8,4,2,1); refuted for closer ones (C13-K2)")

    allz = sorted(available_timezones())
    if ctx.quick:
        ids = HARD[:14] + rnd.sample([z for z in allz if "/" in z and not z.startswith(("posix", "right"))], 6)
        windows = [(date(1970, 1, 1), date(2038, 1, 1))]
    else:
        ids = [z for z in allz if not z.startswith(("posix/", "right/"))]
        windows = [(date(1970, 1, 1), date(2038, 1, 1)), (date(2005, 1, 1), date(2015, 6, 1))]
    ev, meta = [], []
    try:
        for prov in ("zoneinfo", "pytz"):
            tzp.use(prov)
            # windows that END the day after a transition of a zone whose first (LMT) entry lies on the other side of the date
            # line, or START on the day of one: the window bounds are local midnights of the zone, probed to within an hour
            edge = [("America/Anchorage", date(2017, 1, 1), date(2019, 3, 11)), ("America/Anchorage", date(2019, 11, 3), date(2021, 1, 1)),
                    ("Pacific/Pago_Pago", date(1967, 1, 1), date(1967, 4, 24)), ("Asia/Manila", date(1977, 1, 1), date(1978, 3, 23)),
                    ("Pacific/Kiritimati", date(1993, 1, 1), date(1995, 1, 2)), ("Europe/Berlin", date(2019, 1, 1), date(2019, 4, 1)),
                    ("America/New_York", date(2019, 3, 10), date(2019, 11, 4)), ("Pacific/Guam", date(1975, 1, 1), date(1977, 4, 25))]
            # short windows over years in which a zone changed its offset four times (DST suspended during Ramadan, rule changes)
            busy = [("Africa/Cairo", date(2014, 4, 1), date(2014, 12, 31)), ("Africa/Casablanca", date(2017, 1, 1), date(2017, 12, 31)),
                    ("Africa/El_Aaiun", date(2017, 2, 1), date(2017, 12, 31)), ("America/Montevideo", date(1974, 1, 1), date(1974, 12, 31)),
                    ("Africa/Casablanca", date(2012, 1, 1), date(2018, 12, 31)), ("Europe/Berlin", date(2014, 1, 1), date(2014, 12, 31)),
                    ("Africa/Cairo", date(2010, 6, 1), date(2011, 1, 1)), ("Asia/Gaza", date(2011, 1, 1), date(2012, 1, 1))]
            jobs = [(tzid, f, l, False) for tzid in ids for (f, l) in (windows if tzid in HARD or not ctx.quick else windows[:1])]
            jobs += [(tzid, f, l, False) for tzid, f, l in busy]
            # windows over years in which a zone kept its pair of offsets and changed its abbreviations (IST/IDT -> EET/EEST,
            # YST/YDT -> AKST/AKDT, ...): observances are told apart by name as well as by offsets
            renamed = [("Asia/Gaza", date(1994, 6, 1), date(1998, 6, 1)), ("Asia/Hebron", date(1995, 1, 1), date(1997, 12, 31)),
                       ("America/Yakutat", date(1982, 6, 1), date(1986, 6, 1)), ("America/Juneau", date(1982, 6, 1), date(1985, 6, 1)),
                       ("Europe/Volgograd", date(1988, 1, 1), date(1993, 12, 31)), ("Europe/Kirov", date(1988, 1, 1), date(1993, 12, 31))]
            jobs += [(tzid, f, l, False) for tzid, f, l in renamed]
            jobs += [(tzid, f, l, True) for tzid, f, l in edge]
            for tzid, f, l, tight in jobs:
                for _once in (0,):
                    src = tzp.timezone(tzid)
                    if src is None:
                        continue
                    case = {"tzid": tzid, "provider": prov, "window": [str(f), str(l)]}
                    try:
                        with time_limit(30):
                            comp = Timezone.from_tzid(tzid, tzp, f, l)
                    except HardTimeout:
                        ctx.fail("P:C13:generation-total", {**case, "exc": "no result within 30 s"}, "timeout", None)
                        continue
                    except Exception as e:   # noqa: BLE001
                        ctx.fail("P:C13:generation-total", {**case, "exc": type(e).__name__}, str(e)[:200], None)
                        continue
                    ctx.case((prov, tzid, str(f), str(l)), True)
                    w0, w1 = secs(datetime(f.year, f.month, f.day, tzinfo=UTC)), secs(datetime(l.year, l.month, l.day, tzinfo=UTC))
                    if tight:
                        # the window is [local midnight of f, local midnight of l) in the source zone itself
                        w0 = secs(tzp.localize(datetime(f.year, f.month, f.day), tzid).astimezone(UTC)) - 86400 + 3600
                        w1 = secs(tzp.localize(datetime(l.year, l.month, l.day), tzid).astimezone(UTC)) + 86400 - 3600
                    trs = transitions(src, w0 + 86400, w1 - 86400)
                    pts = set()
                    for t in trs:
                        pts.update((t - 1, t, t + 1))
                    edges = [w0 + 86400] + trs + [w1 - 86400]
                    for a, b in zip(edges, edges[1:]):
                        pts.add((a + b) // 2)
                    for k in range(24 if ctx.quick else 60):
                        pts.add(rnd.randrange(w0 + 86400, w1 - 86400))
                    try:
                        back = comp.to_tz(tzp, lookup_tzid=False)
                    except Exception as e:   # noqa: BLE001
                        ctx.fail("P:C13:to_tz-total", {**case, "exc": type(e).__name__}, str(e)[:200], None)
                        continue
                    probes = []
                    raised = None
                    for t in sorted(pts):
                        off, name = src_at(src, t)
                        try:
                            boff, bname = src_at(back, t)
                        except Exception as e:   # noqa: BLE001
                            raised = type(e).__name__
                            boff, bname = off, name
                        probes.append({"t": t, "off": off, "name": name, "tzoff": boff, "tzname": bname})
                    if raised:
                        ctx.fail("P:C13:to_tz-total", {**case, "exc": raised}, raised, None)
                    # intervals in which only the abbreviation of the source changed
                    nameonly = []
                    for i, t in enumerate(trs):
                        if src_at(src, t)[0] == src_at(src, t - 1)[0]:
                            nxt = next((u for u in trs[i + 1:] if src_at(src, u)[0] != src_at(src, u - 1)[0]), w1)
                            nameonly.append([t, nxt])
                    firstkind = False
                    try:
                        again = Timezone.from_tzinfo(back, tzid, f, l)
                        regen = components_equal(again, comp)
                        firstkind = (not regen) and first_kind_only(comp, again)
                    except Exception as e:   # noqa: BLE001
                        if not raised:
                            ctx.fail("P:C13:to_tz-total", {**case, "exc": type(e).__name__}, "regeneration: " + str(e)[:120], None)
                        regen = True        # reported above as a failure of the converted zone object itself
                    ev.append({"tzid": tzid, "z": alpha_component(comp), "w0": w0, "w1": w1, "trs": trs, "nameonly": nameonly, "probes": probes,
                               "regen": bool(regen), "pytz": prov == "pytz", "firstkind": bool(firstkind)})
                    meta.append({**case, "firstkind": bool(firstkind)})
    finally:
        tzp.use_default()
    if len(ev) < 20:
        raise Machinery("too few zones recorded")
    ctx.sample({"trace_event": {"tzid": ev[0]["tzid"], "z": ev[0]["z"][:2], "probes": ev[0]["probes"][:3], "n_probes": len(ev[0]["probes"])}})
    ctx.evaluations += sum(len(e["probes"]) for e in ev)
    fails = ctx.validate_trace("Trace_VTimezone", ev, cfg_text(spec="Spec", constants={"Coarse": 64 * 86400}),
                               chunk=40 if ctx.quick else 60, timeout=3000)
    for idx, clause, known in fails:
        ctx.fail(clause, {**meta[idx], "known_class": known}, {"n_obs": len(ev[idx]["z"])}, None)
    ctx.assumptions += [
        "the source zone (zoneinfo / pytz) is the reference for offsets and abbreviations; its transitions are found by a 6-hour scan + bisection",
        "a zone whose only mismatching probes lie in a known class (displaced onset windows, periods shorter than 64 days) is reported as KNOWN",
    ]
    # ------------------------------------------------------------- FRESH: history independence of returned objects (spec/Fresh.tla)
    from vf import fresh
    fresh.step(ctx, "C13")
    return ctx.finish(rule=(
        "zone ids (quick: 12 hard zones + 8 seeded; thorough: every IANA id of the provider) x both providers x windows (1970-2038 and "
        "2005-2015): every source transition -1s/0/+1s, interval midpoints and random instants, judged by TLC against the generated "
        "component read by the RFC onset rule; every zone-window is a distinct non-trivial case"))


if __name__ == "__main__":
    main_wrapper(run, "C13")
