"""C14 — alarm times = anchor + TRIGGER + k*DURATION, k = 0..REPEAT.

MC      spec/MC_Alarms14: component shapes (no/date/floating/UTC/zoned start x none/DTEND|DUE/
        DURATION) x alarm shapes (none, +-relative to START/END/absent, absolute; REPEAT 0..2;
        DURATION none/10m/1d) and pairs of alarms.  Per alarm TLC computes the set of admissible
        time sequences (zoned sums: wall-clock or absolute) and proves the mirror is inside it.
REPLAY  each case built through the API and parsed from text, VEVENT and VTODO, both providers;
        component.alarms.times grouped by alarm and compared with the admissible set.
RECORD  random components with arbitrary minute offsets.
VALIDATE spec/Trace_Alarms14: membership in AlarmTimes evaluated by TLC.
"""
import random
from datetime import date, datetime, timedelta
from zoneinfo import ZoneInfo

from vf.core import Ctx, cfg_text, main_wrapper, Machinery
from icalendar import Event, Todo, Alarm, Alarms
from icalendar.timezone import tzp

UTC = ZoneInfo("UTC")
BASE = datetime(2024, 3, 30)
DOC_ERRORS = {"IncompleteComponent", "ComponentStartMissing", "ComponentEndMissing", "IncompleteAlarmInformation"}


def gamma(v):
    k, m = v["kind"], v["m"]
    if k == "date":
        return (BASE + timedelta(minutes=m)).date()
    dt = BASE + timedelta(minutes=m)
    if k == "floating":
        return dt
    if k == "utc":
        return dt.replace(tzinfo=UTC)
    if k == "zoned":
        return tzp.localize(dt, "Europe/Berlin")
    raise Machinery(f"gamma {v}")


def alpha(x):
    if isinstance(x, datetime):
        m = int((x.replace(tzinfo=None) - BASE).total_seconds() // 60)
        if x.tzinfo is None:
            return {"kind": "floating", "m": m}
        key = getattr(x.tzinfo, "key", None) or getattr(x.tzinfo, "zone", None)
        if key == "UTC":
            return {"kind": "utc", "m": m}
        if key == "Europe/Berlin":
            return {"kind": "zoned", "m": m}
        return {"kind": f"tz:{key}", "m": m}
    if isinstance(x, date):
        return {"kind": "date", "m": (x - BASE.date()).days * 1440}
    return {"kind": "odd", "m": 0}


def build(cls, c, alarms):
    comp = cls()
    if c["start"]["kind"] != "none":
        comp.start = gamma(c["start"])
    e = c["espec"]
    if e["k"] == "end":
        comp.end = gamma(e["v"])
    elif e["k"] == "dur":
        comp.DURATION = timedelta(minutes=e["d"])
    objs = []
    for a in alarms:
        al = Alarm()
        t = a["trig"]
        if t["k"] == "rel":
            al.TRIGGER = timedelta(minutes=t["d"])
            if t["related"] != "absent":
                al.TRIGGER_RELATED = t["related"]
        elif t["k"] == "abs":
            al.TRIGGER = gamma({"kind": "utc", "m": t["m"]})
            if (t["m"] // 10) % 2 == 0:
                # an absolute trigger is that instant "regardless of the component's times": a (meaningless) RELATED
                # parameter next to it changes nothing
                al.TRIGGER_RELATED = "END" if (t["m"] // 20) % 2 == 0 else "START"
        if a["repeat"] > 0 or a["dur"] != -1:
            al.REPEAT = a["repeat"]
        if a["dur"] != -1:
            al.DURATION = timedelta(minutes=a["dur"])
        comp.add_component(al)
        objs.append(al)
    return comp, objs


def observe(comp):
    """-> ("err", name) or list per alarm (in subcomponent order) of time sequences"""
    try:
        times = comp.alarms.times
    except Exception as e:   # noqa: BLE001
        return ["err", type(e).__name__]
    subs = [s for s in comp.subcomponents if s.name == "VALARM"]
    per = [[] for _ in subs]
    for at in times:
        idx = [i for i, s in enumerate(subs) if s is at.alarm]
        if len(idx) != 1:
            return ["err", "alarm-identity"]
        per[idx[0]].append(alpha(at.trigger))
    return ["ok", per]


def judge(ctx, v, ob, case, ev=None):
    x = v["x"]
    per = v.get("per")
    any_missing = per is not None and any(p["missing"] for p in per)
    if ob[0] == "err":
        if ob[1] in DOC_ERRORS and (x["c"]["start"]["kind"] == "none" or any_missing):
            return      # documented incomplete-information error where information is missing
        ctx.fail("P:C14:only-documented-errors", case, ob, None)
        return
    if per is None:
        ev.append({"x": x, "times": ob[1], "case": case})
        return
    if any_missing:
        ctx.fail("P:C14:missing-anchor-reported", case, ob, None)
        return
    for i, p in enumerate(per):
        got = ob[1][i]
        if got == p["impl"]:
            continue        # InvImpl: the mirror's answer is admissible
        if got not in p["ref"]:
            ctx.fail("P:C14:alarm-times", {**case, "alarm": i}, got, p["ref"][:4])


def respell(wire, rnd):
    """the same component with every duration of a TRIGGER / DURATION line in another RFC 5545 spelling of the same value:
    an explicit plus sign, weeks for whole weeks, hours for days, P0D / -PT0S for zero"""
    import re as _re

    def one(m):
        head, sign, body = m.group(1), m.group(2), m.group(3)
        md = _re.fullmatch(rb"(\d+)D", body)
        if md and int(md.group(1)) % 7 == 0 and int(md.group(1)) and rnd.random() < 0.8:
            body = b"%dW" % (int(md.group(1)) // 7)
        elif md and rnd.random() < 0.3:
            body = b"T%dH" % (int(md.group(1)) * 24)
        elif body == b"T0S" and rnd.random() < 0.5:
            body, sign = rnd.choice([b"0D", b"T0H0M0S", b"0W"]), rnd.choice([b"", b"-", b"+"])
        if sign == b"" and rnd.random() < 0.5:
            sign = b"+"
        return head + sign + b"P" + body
    return _re.sub(rb"(?m)^((?:TRIGGER|DURATION)(?:;RELATED=[A-Za-z]+)?:)([+-]?)P([0-9A-Z]+)(?=\r?$)", one, wire)


def run(ctx: Ctx):
    rnd = random.Random(ctx.seed)
    r = ctx.mc("MC_Alarms14", cfg_text(spec="Spec", constants={"ZoneOff": 1, "RepeatMax": 2, "RDurs": {10, 1440}},
                                       invariants=["InvImpl", "InvCount", "Vec"]),
               defs={"Deltas": {-1440, -90, 0, 30, 1440}}, workers=4, timeout=1200)
    vecs = r.prints
    if len(vecs) < 2000:
        raise Machinery(f"too few vectors {len(vecs)}")
    amb = sum(1 for v in vecs for p in v["per"] if len(p["ref"]) > 1)
    if amb == 0:
        raise Machinery("vacuous: no case where wall-clock and absolute arithmetic differ")
    ctx.notes.append(f"{amb} alarm cases where wall-clock and absolute zoned arithmetic differ (both admissible)")
    ctx.sample(vecs[len(vecs) // 3])
    try:
        for prov in ("zoneinfo", "pytz"):
            tzp.use(prov)
            sel = vecs if (prov == "zoneinfo" or not ctx.quick) else vecs[::3]
            for v in sel:
                x = v["x"]
                nt = any(a["trig"]["k"] != "none" for a in x["alarms"])
                ctx.case((prov, repr(x)), nt)
                for cls in (Event, Todo):
                    comp, _ = build(cls, x["c"], x["alarms"])
                    for route in ("api", "text"):
                        if route == "text":
                            # enumerated parameter values are case-insensitive: RELATED=end is RELATED=END
                            import re as _re
                            wire = _re.sub(rb"RELATED=(START|END)", lambda m: b"RELATED=" + bytes(
                                (ch | 0x20) if rnd.random() < 0.5 else ch for ch in m.group(1)), comp.to_ical())
                            # ... and a duration has several spellings (explicit plus sign, weeks, hours for days)
                            comp = cls.from_ical(respell(wire, rnd))
                        ob = observe(comp)
                        ctx.evaluations += 1
                        judge(ctx, v, ob, {"x": x, "cls": cls.__name__, "route": route, "provider": prov})
                    # manual Alarms API with reads between the calls: times must reflect every alarm added so far
                    if len(x["alarms"]) == 2 and x["c"]["start"]["kind"] != "none":
                        comp, objs = build(cls, x["c"], x["alarms"])
                        al = Alarms()
                        al.set_start(comp.start)
                        al.set_end(comp.end)
                        try:
                            al.add_alarm(objs[0])
                            al.times                     # a read between the two additions
                            al.add_alarm(objs[1])
                            got = al.times
                            per = [[alpha(t.trigger) for t in got if t.alarm is o] for o in objs]
                            ob = ["ok", per]
                        except Exception as e:   # noqa: BLE001
                            ob = ["err", type(e).__name__]
                        ctx.evaluations += 1
                        judge(ctx, v, ob, {"x": x, "cls": cls.__name__, "route": "manual-interleaved", "provider": prov})
    finally:
        tzp.use_default()

    # ------------------------------------------------------------- RECORD random shapes
    ev = []
    n = 200 if ctx.quick else 3000
    try:
        for i in range(n):
            prov = ("zoneinfo", "pytz")[i % 2]
            tzp.use(prov)
            kind = rnd.choice(["none", "date", "floating", "utc", "zoned"])
            sm = rnd.randrange(0, 1440 * 3, 1440) if kind == "date" else rnd.choice([rnd.randint(0, 1400), rnd.randint(1700, 4000)])
            start = {"kind": kind, "m": sm if kind != "none" else 0}
            ek = rnd.choice(["none", "end", "dur"])
            if kind == "none" and ek == "dur":
                ek = "none"
            if ek == "end":
                if kind == "none":
                    ev_ = {"kind": "utc", "m": 900}
                elif kind == "date":
                    ev_ = {"kind": "date", "m": sm + 1440 * rnd.randint(1, 3)}
                else:
                    ev_ = {"kind": kind, "m": sm + rnd.choice([30, 90, 1440, 2000])}
                    if 1560 <= ev_["m"] < 1620:
                        ev_["m"] += 60          # an anchor is never a wall time inside the skipped hour (assumption below)
                espec = {"k": "end", "v": ev_, "d": 0}
            elif ek == "dur":
                espec = {"k": "dur", "v": {"kind": "none", "m": 0}, "d": 1440 * rnd.randint(1, 2) if kind == "date" else rnd.choice([15, 60, 1440, 1500])}
            else:
                espec = {"k": "none", "v": {"kind": "none", "m": 0}, "d": 0}
            alarms = []
            for _ in range(rnd.randint(0, 3)):
                tk = rnd.choice(["none", "rel", "rel", "rel", "abs"])
                trig = {"k": tk, "d": rnd.choice([-2880, -1440, -135, -15, 0, 20, 1440, 1500, -10080, 10080, -20160]) if tk == "rel" else 0,
                        "related": rnd.choice(["START", "END", "absent"]) if tk == "rel" else "",
                        "m": rnd.randint(0, 3000) if tk == "abs" else 0}
                alarms.append({"trig": trig, "repeat": rnd.randint(0, 3), "dur": rnd.choice([-1, 5, 60, 1440, 10080])})
            x = {"c": {"start": start, "espec": espec}, "alarms": alarms}
            # keep results out of the nonexistent wall times 02:00-03:00 on 2024-03-31 (1560..1620)
            cls = (Event, Todo)[i % 2]
            comp, _ = build(cls, x["c"], alarms)
            if rnd.random() < 0.6:
                comp = cls.from_ical(respell(comp.to_ical(), rnd) if rnd.random() < 0.7 else comp.to_ical())
            ob = observe(comp)
            ctx.case(("rnd", repr(x)), True)
            judge(ctx, {"x": x}, ob, {"x": x, "cls": cls.__name__, "provider": prov}, ev=ev)
        # coincident alarms: a relative alarm of a zoned / UTC component and an absolute alarm that first fire at the SAME
        # instant, same REPEAT and DURATION, the repeats crossing the DST change -- sums computed for one alarm must not be
        # reused for the other (equal instants in different zones are equal as dict keys)
        for i, (kind, sm) in enumerate([("zoned", 600), ("zoned", 1380), ("zoned", 720), ("utc", 600), ("zoned", 0)]):
            for d in (-90, 0, 30, -1440):
                for rep, dur in ((2, 1440), (1, 600), (3, 60)):
                    for order in (0, 1):
                        prov = ("zoneinfo", "pytz")[(i + order) % 2]
                        tzp.use(prov)
                        utc_m = sm + d - (60 if kind == "zoned" else 0)
                        if utc_m < 0:
                            continue
                        rel = {"trig": {"k": "rel", "d": d, "related": "START", "m": 0}, "repeat": rep, "dur": dur}
                        ab = {"trig": {"k": "abs", "d": 0, "related": "", "m": utc_m}, "repeat": rep, "dur": dur}
                        x = {"c": {"start": {"kind": kind, "m": sm}, "espec": {"k": "none", "v": {"kind": "none", "m": 0}, "d": 0}},
                             "alarms": [rel, ab] if order == 0 else [ab, rel]}
                        for cls in (Event, Todo):
                            comp, _ = build(cls, x["c"], x["alarms"])
                            if order:
                                comp = cls.from_ical(comp.to_ical())
                            ob = observe(comp)
                            ctx.case(("coincident", repr(x), cls.__name__), True)
                            judge(ctx, {"x": x}, ob, {"x": x, "cls": cls.__name__, "provider": prov, "coincident": True}, ev=ev)
    finally:
        tzp.use_default()
    events = [{"x": e["x"], "times": e["times"]} for e in ev]
    if events:
        ctx.sample({"trace_event": events[0]})
    for idx, clause, known in ctx.validate_trace("Trace_Alarms14", events, cfg_text(spec="Spec", constants={"ZoneOff": 1}),
                                                 chunk=20000, timeout=1200):
        ctx.fail(clause, ev[idx]["case"], ev[idx]["times"], None)
    ctx.assumptions += [
        "zoned anchor + duration may be wall-clock or absolute arithmetic (the providers differ, the property does not choose)",
        "with a missing DTSTART any of the documented incomplete-information errors is accepted even if all alarms are absolute",
        "times are minutes from 2024-03-30T00:00; the zoned kind is Europe/Berlin across its 2024-03-31 DST start; values inside the nonexistent hour are not generated",
    ]
    # ------------------------------------------------------------- FRESH: history independence of returned objects (spec/Fresh.tla)
    from vf import fresh
    fresh.step(ctx, "C14")
    return ctx.finish(rule=(
        "15 component shapes x 153 single-alarm shapes + pairs, Event and Todo, API-built and parsed, both providers; random "
        "shapes validated by TLC; non-trivial = at least one alarm has a TRIGGER"))


if __name__ == "__main__":
    main_wrapper(run, "C14")
