"""C15 — an alarm is active iff not acknowledged at/after its (snoozed) trigger.

MC      spec/MC_Alarms15: the whole decision table (trigger tick x kind x alarm ACK x
        component ack x snooze x local tz), RefActive/RefTrigger per row; action property
        NeverActivates over all "acknowledged later" pairs; the pre-fix rule is refuted.
REPLAY  every row as a real Event/Todo built through the API, parsed from text, and through
        the manual Alarms API; is_active(), .trigger, .acknowledged, Alarms.active compared.
RECORD  random rows with arbitrary minute offsets under both providers.
VALIDATE spec/Trace_Alarms15 evaluates RefActive/RefTrigger on the recorded rows.
"""
import random
from datetime import date, datetime, timedelta
from zoneinfo import ZoneInfo

from vf.core import Ctx, cfg_text, main_wrapper, Machinery
from icalendar import Event, Todo, Alarm, Alarms, Calendar
from icalendar.timezone import tzp

UTC = ZoneInfo("UTC")
B = datetime(2024, 1, 9, 22, 0)            # tick 0 (UTC); wall tick t in Berlin is instant t - 1
D0 = date(2024, 1, 10)                     # midnight Berlin = 2024-01-09T23:00Z = instant 1
UNIT = timedelta(hours=1)


def inst(t, unit=UNIT):
    return (B + t * unit).replace(tzinfo=UTC)


def trig_value(kind, t, unit=UNIT):
    if kind == "utc":
        return inst(t, unit)
    if kind == "zoned":
        return tzp.localize(B + t * unit, "Europe/Berlin")
    if kind == "floating":
        return B + t * unit
    return D0


def alpha_trigger(x, unit=UNIT):
    if isinstance(x, datetime):
        if x.tzinfo is None:
            return ["floating", (x - B) // unit]
        d = x.astimezone(UTC).replace(tzinfo=None) - B
        return ["instant", d // unit]
    if isinstance(x, date):
        return ["date", 0]
    return ["odd", repr(x)]


def expected_triggers(v, unit_is_hour=True):
    r = v["r"]
    tag = v["trig"][0]
    if tag == "err":
        return [["err", "LocalTimezoneMissing"]]
    if tag == "snooze":
        return [["instant", r["snooze"]]]
    k = r["kind"]
    off = 1 if unit_is_hour else 60
    if k == "utc":
        return [["instant", r["t"]]]
    if k == "zoned":
        return [["instant", r["t"] - off]]
    if k == "floating":
        return [["floating", r["t"]]] + ([["instant", r["t"] - off]] if r["local"] else [])
    return [["date", 0]] + ([["instant", v["inst"]]] if r["local"] else [])


def observe(alarms, unit=UNIT):
    out = {}
    try:
        times = alarms.times
    except Exception as e:   # noqa: BLE001
        return {"times": ["err", type(e).__name__]}
    out["n"] = len(times)
    if len(times) != 1:
        return out
    at = times[0]
    try:
        out["active"] = "true" if at.is_active() else "false"
    except Exception as e:   # noqa: BLE001
        out["active"] = type(e).__name__
    try:
        out["trigger"] = alpha_trigger(at.trigger, unit)
    except Exception as e:   # noqa: BLE001
        out["trigger"] = ["err", type(e).__name__]
    try:
        a = at.acknowledged
        out["ack"] = -1 if a is None else alpha_trigger(a, unit)[1]
    except Exception as e:   # noqa: BLE001
        out["ack"] = type(e).__name__
    try:
        act = alarms.active
        out["activelist"] = "true" if len(act) == 1 and act[0].alarm is at.alarm else ("false" if not act else "odd")
    except Exception as e:   # noqa: BLE001
        out["activelist"] = type(e).__name__
    return out


def build_api(cls, r, rnd, unit=UNIT):
    c = cls()
    c.start = trig_value(r["kind"], r["t"], unit)
    a = Alarm()
    a.TRIGGER = timedelta(0)
    if r["ackA"] != -1:
        a.ACKNOWLEDGED = inst(r["ackA"], unit)
    c.add_component(a)
    thunderbird = r["snooze"] != -1 or rnd.random() < 0.5
    if thunderbird:
        if r["snooze"] != -1:
            c.X_MOZ_SNOOZE_TIME = inst(r["snooze"], unit)
        if r["ackC"] != -1:
            c.X_MOZ_LASTACK = inst(r["ackC"], unit)
        if r["ackC"] != -1 or rnd.random() < 0.7:
            c.DTSTAMP = inst(99, unit)          # must be ignored for Thunderbird components, with or without X-MOZ-LASTACK
        if not c.is_thunderbird():
            c.add("X-MOZ-GENERATION", "1")
    elif r["ackC"] != -1:
        c.DTSTAMP = inst(r["ackC"], unit)
    return c


def run_row(ctx, v, rnd, ev=None, unit=UNIT, tag="row"):
    r = v["r"]
    for cls in (Event, Todo):
        for route in ("api", "text", "manual"):
            comp = build_api(cls, r, rnd, unit)
            if route == "text":
                comp = cls.from_ical(comp.to_ical())
            if route == "manual":
                al = Alarms()
                al.add_alarm(comp.subcomponents[0])
                al.set_start(comp.start)
                # the documented argument is "the time in UTC": an aware value or a naive one read as UTC, whatever the
                # time zone of the machine (checks run with TZ set to a zone far from UTC, see ./check)
                def arg(t):
                    v = inst(t, unit)
                    return v.replace(tzinfo=None) if rnd.random() < 0.4 else v
                al.acknowledge_until(arg(r["ackC"]) if r["ackC"] != -1 else None)
                al.snooze_until(arg(r["snooze"]) if r["snooze"] != -1 else None)
            else:
                al = Alarms(comp)
            if r["local"]:
                # the local time zone may be given by name or as a tzinfo object of either family, whatever the provider
                import pytz as _pytz
                from zoneinfo import ZoneInfo as _ZI
                al.set_local_timezone(rnd.choice(["Europe/Berlin", _ZI("Europe/Berlin"), _pytz.timezone("Europe/Berlin")]))
            ob = observe(al, unit)
            ctx.evaluations += 1
            case = {"r": r, "cls": cls.__name__, "route": route, "provider": tzp.name}
            if ev is not None:
                ev.append({"r": r, "ob": ob, "case": case})
                continue
            if ob.get("n") != 1:
                ctx.fail("P:C15:times", case, ob, 1)
                continue
            if ob["active"] != v["active"]:
                ctx.fail("P:C15:is-active", case, ob["active"], v["active"])
            if ob["trigger"] not in expected_triggers(v):
                ctx.fail("P:C15:reported-trigger", case, ob["trigger"], expected_triggers(v))
            if ob["ack"] != v["ack"]:
                ctx.fail("P:C15:acknowledged-until", case, ob["ack"], v["ack"])
            if ob["activelist"] != v["active"]:
                ctx.fail("P:C15:active-sublist", case, ob["activelist"], v["active"])


def observe_each(al, unit):
    """one observation per alarm time (same shape as observe()), the membership in Alarms.active decided per position"""
    times = al.times
    try:
        act = al.active
    except Exception as e:   # noqa: BLE001
        act = type(e).__name__
    out, p = [], 0
    for at in times:
        ob = {"n": 1}
        try:
            ob["active"] = "true" if at.is_active() else "false"
        except Exception as e:   # noqa: BLE001
            ob["active"] = type(e).__name__
        try:
            ob["trigger"] = alpha_trigger(at.trigger, unit)
        except Exception as e:   # noqa: BLE001
            ob["trigger"] = ["err", type(e).__name__]
        a = at.acknowledged
        ob["ack"] = -1 if a is None else alpha_trigger(a, unit)[1]
        if isinstance(act, str):
            ob["activelist"] = act
        elif p < len(act) and act[p].alarm is at.alarm and act[p].trigger == at.trigger:
            ob["activelist"] = "true"
            p += 1
        else:
            ob["activelist"] = "false"
        out.append(ob)
    if not isinstance(act, str) and p != len(act):
        for ob in out:
            ob["activelist"] = "odd"       # Alarms.active is not a sub-list of Alarms.times
    return out


def series_and_transitions(ctx, ev, rnd):
    """rows for alarm times that are members of a SERIES (REPEAT with a positive or negative DURATION, the acknowledgement
    falling inside the series) and for triggers inside the repeated / next to the skipped hour of a zone; one row per time,
    the instant of each time taken from the component's own start (kind utc in the row: the model decides on instants)"""
    unit = timedelta(minutes=1)
    n = 40 if ctx.quick else 400
    for i in range(n):
        tzp.use(("zoneinfo", "pytz")[i % 2])
        cls = (Event, Todo)[(i // 2) % 2]
        s = rnd.randint(300, 900)
        d, rep, q = rnd.choice([-10, 0, 15, -60]), rnd.randint(1, 3), rnd.choice([-20, 20, -60, 5])
        exp = [s + d + k * q for k in range(rep + 1)]
        lo, hi = min(exp) - 5, max(exp) + 5
        def opt():
            return -1 if rnd.random() < 0.3 else rnd.choice([rnd.randint(lo, hi), rnd.choice(exp), rnd.choice(exp) + 1, rnd.choice(exp) - 1])
        ackA, ackC, snooze = opt(), opt(), (opt() if rnd.random() < 0.4 else -1)
        c = cls()
        c.start = inst(s, unit)
        a = Alarm()
        a.TRIGGER = timedelta(minutes=d)
        a.REPEAT = rep
        a.DURATION = timedelta(minutes=q)
        if ackA != -1:
            a.ACKNOWLEDGED = inst(ackA, unit)
        c.add_component(a)
        if snooze != -1 or ackC != -1:
            c.add("X-MOZ-GENERATION", "1")
            if snooze != -1:
                c.X_MOZ_SNOOZE_TIME = inst(snooze, unit)
            if ackC != -1:
                c.X_MOZ_LASTACK = inst(ackC, unit)
        route = ("api", "text", "twice")[i % 3]
        if route == "text":
            c = cls.from_ical(c.to_ical())
        al = Alarms(c)
        if route == "twice":
            # the same VALARM object registered a second time: its times are listed twice, each judged on its own
            al.add_alarm(c.subcomponents[0])
            exp = exp + exp
        obs = observe_each(al, unit)
        ctx.evaluations += 1
        ctx.case(("series", i, route), True)
        case = {"series": {"start": s, "trigger": d, "repeat": rep, "duration": q, "ackA": ackA, "ackC": ackC, "snooze": snooze},
                "cls": cls.__name__, "route": route, "provider": tzp.name}
        if len(obs) != len(exp):
            ctx.fail("P:C15:times", case, len(obs), len(exp))
            continue
        for t, ob in zip(exp, obs):
            ev.append({"r": {"kind": "utc", "t": t, "ackA": ackA, "ackC": ackC, "snooze": snooze, "local": False}, "ob": ob, "case": {**case, "time": t}})
    # the repeated hour (2024-11-03) and the hour after the skipped one (2024-03-10) in America/New_York
    for i in range(4 * n):
        tzp.use(("zoneinfo", "pytz")[(i // 2) % 2])
        cls = (Event, Todo)[(i // 4) % 2]
        # three of four rows in the two hours 01:00-02:00 EDT / 01:00-02:00 EST (05:00Z-07:00Z), the rest around the skipped hour
        base = datetime(2024, 11, 3, 5, 0, tzinfo=UTC) if i % 4 else datetime(2024, 3, 10, 6, 0, tzinfo=UTC)
        st = (base + timedelta(minutes=rnd.randint(0, 119))).astimezone(tzp.timezone("America/New_York"))
        c = cls()
        c.start = st
        a = Alarm()
        a.TRIGGER = timedelta(0)
        c.add_component(a)
        c.add("X-MOZ-GENERATION", "1")
        route = ("api", "text")[i % 2]
        if route == "text":
            c = cls.from_ical(c.to_ical())       # (the wire carries no fold: the component's own start is the reference)
        t = alpha_trigger(c.start, unit)[1]
        snooze = t + rnd.choice([-50, -40, -30, -20, -10, 10, 20, 30, 40, 50, 70, 100])
        ackC = rnd.choice([-1, t - 5, t + 15, snooze + 5, snooze - 5])
        c.X_MOZ_SNOOZE_TIME = inst(snooze, unit)
        if ackC != -1:
            c.X_MOZ_LASTACK = inst(ackC, unit)
        al = Alarms(c)
        obs = observe_each(al, unit)
        ctx.evaluations += 1
        ctx.case(("transition", i, route), True)
        case = {"transition": {"start": repr(c.start), "snooze": snooze - t, "ack": ackC - t if ackC != -1 else None}, "cls": cls.__name__, "route": route, "provider": tzp.name}
        if len(obs) != 1:
            ctx.fail("P:C15:times", case, len(obs), 1)
            continue
        ev.append({"r": {"kind": "utc", "t": t, "ackA": -1, "ackC": ackC, "snooze": snooze, "local": False}, "ob": obs[0], "case": case})


def run(ctx: Ctx):
    rnd = random.Random(ctx.seed)
    r0 = ctx.mc("MC_Alarms15", cfg_text(spec="Spec", constants={"Ticks": {0, 1, 2}, "Old": True, "ZoneOff": 1},
                                        invariants=["InvImpl"]), expect_ok=False, count=False, workers=1, timeout=300)
    if r0.violated != "InvImpl":
        raise Machinery("pre-fix rule should be refuted")
    r = ctx.mc("MC_Alarms15", cfg_text(spec="Spec", constants={"Ticks": {0, 1, 2, 3}, "Old": False, "ZoneOff": 1},
                                       invariants=["InvImpl", "InvErr", "Vec"], properties=["NeverActivates"]),
               workers=4, timeout=1200)
    rows = r.prints
    if len(rows) != 3250:
        raise Machinery(f"decision table has {len(rows)} rows")
    outcomes = {}
    for v in rows:
        outcomes[v["active"]] = outcomes.get(v["active"], 0) + 1
    if set(outcomes) != {"true", "false", "LocalTimezoneMissing"}:
        raise Machinery(f"vacuous decision table {outcomes}")
    ctx.notes.append(f"Ref outcomes over the table: {outcomes}")
    ctx.sample(rows[1234])
    providers = ["zoneinfo", "pytz"]
    try:
        for prov in providers:
            tzp.use(prov)
            sel = rows if (not ctx.quick or prov == "zoneinfo") else rows[::5]
            for v in sel:
                rr = v["r"]
                ctx.case((prov, repr(rr)), rr["ackA"] != -1 or rr["ackC"] != -1 or rr["snooze"] != -1)
                run_row(ctx, v, rnd)
    finally:
        tzp.use_default()

    # ------------------------------------------------------------- RECORD: minute resolution, random rows
    ev = []
    n = 300 if ctx.quick else 3000
    try:
        for i in range(n):
            tzp.use(providers[i % 2])
            kind = rnd.choice(["utc", "zoned", "floating", "date"])
            def opt():
                return -1 if rnd.random() < 0.3 else rnd.randint(0, 240)
            rr = {"kind": kind, "t": 60 if kind == "date" else rnd.randint(0, 240), "ackA": opt(), "ackC": opt(),
                  "snooze": opt(), "local": rnd.random() < 0.5}
            run_row(ctx, {"r": rr}, rnd, ev=ev, unit=timedelta(minutes=1))
            ctx.case(("rnd", repr(rr)), True)
        series_and_transitions(ctx, ev, rnd)
    finally:
        tzp.use_default()
    events = [{"r": e["r"], "ob": {k: (x if not isinstance(x, list) else x) for k, x in e["ob"].items()}} for e in ev]
    ctx.sample({"trace_event": events[0]})
    for idx, clause, known in ctx.validate_trace("Trace_Alarms15", events, cfg_text(spec="Spec", constants={"ZoneOff": 60}), chunk=20000, timeout=1200):
        ctx.fail(clause, ev[idx]["case"], ev[idx]["ob"], None)
    ctx.assumptions += [
        "instants are whole hours (table) or minutes (random rows) in January 2024; the local zone and the zoned kind are Europe/Berlin (+1h)",
        "when the local time zone is set, the reported trigger of a floating or date-valued alarm may be the raw value or its localised instant",
    ]
    # ------------------------------------------------------------- FRESH: history independence of returned objects (spec/Fresh.tla)
    from vf import fresh
    fresh.step(ctx, "C15")
    return ctx.finish(rule=(
        "all 3250 rows of the decision table (4 trigger kinds x ticks 0..3 x three optional instants in {absent,0..3} x local tz) "
        "x Event/Todo x {API-built, parsed, manual Alarms API} x both providers; random minute-resolution rows validated by TLC; "
        "non-trivial = at least one of the three optional instants is present"))


if __name__ == "__main__":
    main_wrapper(run, "C15")
