"""C16 — start/end/duration of events and todos obey RFC rules after any edit history.

MC      spec/MC_StartEnd: full reachable graph of the three slots from every slot
        combination under all setters/deleters/adds; InvExclusive (setter-only histories),
        InvObs (Impl observables within RefAllowed + identities); the pre-fix DURATION
        getter must be refuted (vacuity guard).
REPLAY  every transition on a real Event and Todo (from-state rebuilt), every state
        rendered to text and parsed, random graph walks on one live object.
RECORD  random mutator sequences with arbitrary times.
VALIDATE spec/Trace_StartEnd: RefStep, RefAllowed, identities, exclusivity per call.
"""
import json
import random
from datetime import date, datetime, timedelta, timezone
from zoneinfo import ZoneInfo

from vf.core import Ctx, cfg_text, main_wrapper, Machinery, Raw, run_apalache
from icalendar import Event, Todo
from icalendar.prop import vDDDTypes, vText, vDuration

BASE = datetime(2024, 1, 15)
BERLIN = ZoneInfo("Europe/Berlin")      # +1h throughout January: the model's fixed zone
UTC = ZoneInfo("UTC")


def rec(kind, t=0):
    return {"kind": kind, "t": t}


ABSENT, MULTI, GARBAGE, WRONG, PYNONE = rec("absent"), rec("multi"), rec("garbage"), rec("wrongtype"), rec("None")


def gamma(v):
    k, t = v["kind"], v["t"]
    if k == "date":
        assert t % 24 == 0
        return (BASE + timedelta(hours=t)).date()
    if k == "naive":
        return BASE + timedelta(hours=t)
    if k == "utc":
        return (BASE + timedelta(hours=t)).replace(tzinfo=UTC)
    if k == "zoned":
        return (BASE + timedelta(hours=t)).replace(tzinfo=BERLIN)
    if k == "dur":
        return timedelta(hours=t)
    if k == "None":
        return None
    raise Machinery(f"gamma {v}")


def hours(td):
    s = td.days * 86400 + td.seconds
    if s % 3600:
        return ("frac", s)
    return s // 3600


def alpha_val(x):
    if isinstance(x, datetime):
        h = hours(x.replace(tzinfo=None) - BASE)
        if x.tzinfo is None:
            return rec("naive", h)
        key = getattr(x.tzinfo, "key", None) or getattr(x.tzinfo, "zone", None)
        if key == "UTC":
            return rec("utc", h)
        if key == "Europe/Berlin":
            return rec("zoned", h)
        return rec("othertz", h)
    if isinstance(x, date):
        return rec("date", hours(datetime(x.year, x.month, x.day) - BASE))
    return None


def alpha_slot(comp, name, isdur):
    x = comp.get(name)
    if x is None:
        return ABSENT
    if isinstance(x, list):
        return MULTI
    inner = getattr(x, "dt", None) if isinstance(x, vDDDTypes) else (x.td if isinstance(x, vDuration) else None)
    if isdur:
        if isinstance(inner, timedelta):
            return rec("dur", hours(inner))
        if isinstance(inner, (date, datetime)):
            return WRONG
        return GARBAGE
    v = alpha_val(inner)
    return v if v else GARBAGE


def endname(comp):
    return "DTEND" if comp.name == "VEVENT" else "DUE"


def slots(comp):
    return {"dtstart": alpha_slot(comp, "DTSTART", False), "endp": alpha_slot(comp, endname(comp), False),
            "dur": alpha_slot(comp, "DURATION", True)}


def obs1(fn):
    try:
        x = fn()
    except Exception as e:          # noqa: BLE001 - the class name is the observation
        n = type(e).__name__
        return ["err", n, 0]
    if x is None:
        return ["none", "", 0]
    if isinstance(x, timedelta):
        return ["d", "", hours(x)]
    v = alpha_val(x)
    if v:
        return ["v", v["kind"], v["t"]]
    return ["odd", repr(x), 0]


def observe(comp):
    en = endname(comp)
    return {"DTSTART": obs1(lambda: comp.DTSTART), "END": obs1(lambda: getattr(comp, en)),
            "DURATION": obs1(lambda: comp.DURATION), "start": obs1(lambda: comp.start),
            "end": obs1(lambda: comp.end), "duration": obs1(lambda: comp.duration)}


def put_slot(comp, name, v, isdur):
    k = v["kind"]
    if k == "absent":
        return
    if k == "multi":
        a, b = (timedelta(hours=1), timedelta(hours=2)) if isdur else (BASE, BASE + timedelta(hours=1))
        comp[name] = [vDDDTypes(a), vDDDTypes(b)]
    elif k == "garbage":
        comp[name] = vText("junk")
    elif k == "wrongtype":
        comp[name] = vDDDTypes(BASE + timedelta(hours=24))
    else:
        comp[name] = vDDDTypes(gamma(v))


def build(cls, s):
    c = cls()
    put_slot(c, "DTSTART", s["dtstart"], False)
    put_slot(c, endname(c), s["endp"], False)
    put_slot(c, "DURATION", s["dur"], True)
    return c


def render(cls, s):
    """Text of a component whose parse yields the slots s."""
    def val(v):
        k = v["kind"]
        if k == "date":
            return ";VALUE=DATE:" + gamma(v).strftime("%Y%m%d")
        if k == "naive":
            return ":" + gamma(v).strftime("%Y%m%dT%H%M%S")
        if k == "utc":
            return ":" + gamma(v).strftime("%Y%m%dT%H%M%SZ")
        if k == "zoned":
            return ";TZID=Europe/Berlin:" + gamma(v).strftime("%Y%m%dT%H%M%S")
        if k == "dur":
            return ":" + vDuration(gamma(v)).to_ical().decode()
        if k == "garbage":
            return ":120000"          # a TIME value: parses, but is neither date nor date-time nor duration
        if k == "wrongtype":
            return ":" + (BASE + timedelta(hours=24)).strftime("%Y%m%dT%H%M%S")
    name = "VEVENT" if cls is Event else "VTODO"
    lines = [f"BEGIN:{name}"]
    for slot, pname in (("dtstart", "DTSTART"), ("endp", "DTEND" if cls is Event else "DUE"), ("dur", "DURATION")):
        v = s[slot]
        if v["kind"] == "absent":
            continue
        if v["kind"] == "multi":
            a = "PT1H" if slot == "dur" else "20240115T000000"
            b = "PT2H" if slot == "dur" else "20240115T010000"
            lines += [f"{pname}:{a}", f"{pname}:{b}"]
        else:
            lines.append(pname + val(v))
    lines.append(f"END:{name}")
    return "\r\n".join(lines) + "\r\n"


def apply(comp, o):
    op, v = o["op"], o["v"]
    en = endname(comp)
    if op == "set_start":
        comp.start = gamma(v)
    elif op == "set_DTSTART":
        comp.DTSTART = gamma(v)
    elif op == "set_end":
        comp.end = gamma(v)
    elif op == "set_END":
        setattr(comp, en, gamma(v))
    elif op == "set_DURATION":
        comp.DURATION = gamma(v)
    elif op == "del_DTSTART":
        del comp.DTSTART
    elif op == "del_END":
        delattr(comp, en)
    elif op == "del_DURATION":
        del comp.DURATION
    elif op.startswith("add_"):
        name = {"add_DTSTART": "dtstart", "add_END": en.lower(), "add_DURATION": "duration"}[op]
        if v["kind"] == "garbage":
            comp.add(name, vText("junk"), encode=0)
        elif v["kind"] == "wrongtype":
            comp.add(name, vDDDTypes(BASE + timedelta(hours=24)), encode=0)
        else:
            comp.add(name, gamma(v))
    else:
        raise Machinery(f"op {op}")


def tla_rec(v):
    return Raw(f'[kind |-> "{v["kind"]}", t |-> {v["t"]}]')


def run(ctx: Ctx):
    rnd = random.Random(ctx.seed)
    if ctx.quick:
        vals = [rec("date", 0), rec("naive", 10), rec("utc", 10), rec("zoned", 36)]
        durs = {24, 1, 0, 25}
    else:
        vals = [rec("date", 0), rec("date", 24), rec("naive", 10), rec("naive", 34), rec("utc", 10),
                rec("utc", 35), rec("zoned", 11), rec("zoned", 36)]
        durs = {24, 1, 0, 25, 48}
    defs = {"Vals": Raw("{" + ", ".join(tla_rec(v) for v in vals) + "}")}
    # vacuity guard: the getter as pinned before the fix is refuted
    r0 = ctx.mc("MC_StartEnd", cfg_text(spec="Spec", constants={"Durs": {1}, "Old": True}, invariants=["InvObs"]),
                defs={"Vals": Raw("{" + tla_rec(vals[1]) + "}")}, expect_ok=False, count=False, workers=1, timeout=300)
    if r0.violated != "InvObs":
        raise Machinery("pre-fix DURATION getter should be refuted")
    r = ctx.mc("MC_StartEnd", cfg_text(spec="Spec", constants={"Durs": durs, "Old": False},
                                       invariants=["InvExclusive", "InvObs", "VecState"]),
               defs=defs, workers=4 if ctx.quick else 10, timeout=3000)
    # unbounded form of the exclusivity clause: an inductive invariant discharged by Apalache
    # (arbitrary integer times, any history length); the defective end setter must be refuted
    v0, t0 = run_apalache("APA_StartEnd", ctx.work, ["--init=Init", "--inv=IndInv", "--length=0"])
    v1, t1 = run_apalache("APA_StartEnd", ctx.work, ["--init=IndInit", "--inv=IndInv", "--length=1"])
    vb, tb = run_apalache("APA_StartEnd", ctx.work, ["--init=IndInit", "--next=NextBad", "--inv=IndInv", "--length=1"])
    if v0 != "ok" or v1 != "ok":
        raise Machinery("Apalache did not discharge the inductive invariant of APA_StartEnd\n" + t0[-400:] + t1[-400:])
    if vb != "violation":
        raise Machinery("Apalache should refute the inductive step for the defective end setter (vacuity guard): " + vb + tb[-300:])
    ctx.notes.append("Apalache: Init => IndInv and IndInv /\\ Next => IndInv' discharged (unbounded times and histories); NextBad refuted")
    trans = [v for v in r.prints if "o" in v]
    states = [v for v in r.prints if "state" in v]
    if len(trans) < 3000 or len(states) < 100:
        raise Machinery(f"too few vectors {len(trans)} {len(states)}")
    ctx.sample(trans[len(trans) // 2])
    ev, meta = [], []

    def judge(clsname, pre, o, post_model, obs_model, comp, tag):
        got = slots(comp)
        if got != post_model:
            ctx.fail(f"P:C16:step-{o['op']}", {"cls": clsname, "pre": pre, "o": o, "via": tag}, got, post_model)
            return
        ob = observe(comp)
        if ob != obs_model:
            # differs from the mirror: let TLC decide against RefAllowed
            ctx.drifted("M:C16:obs-mirror", {"cls": clsname, "state": got}, ob, obs_model)
            ev.append({"o": {"op": "reset", "v": ABSENT}, "post": pre, "obs": obs_model})
            meta.append(None)
            ev.append({"o": o, "post": got, "obs": ob})
            meta.append({"cls": clsname, "pre": pre, "o": o, "via": tag})

    for cls in (Event, Todo):
        for v in trans:
            ctx.case((cls.__name__, repr(v["pre"]), repr(v["o"])),
                     v["o"]["op"] in ("set_end", "set_END", "set_DURATION") or v["pre"]["dur"]["kind"] != "absent")
            comp = build(cls, v["pre"])
            if slots(comp) != v["pre"]:
                raise Machinery(f"gamma/alpha self-check failed {v['pre']}")
            try:
                apply(comp, v["o"])
            except Exception as e:   # noqa: BLE001
                ctx.fail(f"P:C16:step-{v['o']['op']}", {"cls": cls.__name__, "pre": v["pre"], "o": v["o"]},
                         type(e).__name__, v["post"])
                continue
            judge(cls.__name__, v["pre"], v["o"], v["post"], v["obs"], comp, "transition")
        # parse binding: every slot combination rendered to text
        for v in states:
            st = v["state"]
            ctx.case((cls.__name__, "parse", repr(st)), True)
            try:
                comp = cls.from_ical(render(cls, st))
            except Exception as e:   # noqa: BLE001
                ctx.fail("P:C16:parse-state", {"cls": cls.__name__, "state": st}, type(e).__name__, None)
                continue
            judge(cls.__name__, st, {"op": "parse", "v": st}, st, v["obs"], comp, "parse")
        # walks on one live object along the model graph
        graph = {}
        for v in trans:
            graph.setdefault(repr(v["pre"]), []).append(v)
        for w in range(40 if ctx.quick else 400):
            comp = cls()
            cur = {"dtstart": ABSENT, "endp": ABSENT, "dur": ABSENT}
            path = []
            for _ in range(25):
                v = rnd.choice(graph[repr(cur)])
                path.append(v["o"])
                apply(comp, v["o"])
                ctx.evaluations += 1
                got = slots(comp)
                if got != v["post"] or observe(comp) != v["obs"]:
                    ctx.fail(f"P:C16:walk-{v['o']['op']}", {"cls": cls.__name__, "path": path[-5:]},
                             [got, observe(comp)], [v["post"], v["obs"]])
                    break
                cur = v["post"]

    # ------------------------------------------------------------- the same transitions across a DST change
    # gamma maps hour 0 to 2024-03-29T00:00, so that Europe/Berlin switches to +2h at hour 50: zoned values keep the model's
    # wall-clock arithmetic (end = start + DURATION and end - start = duration are statements about wall time in one zone);
    # transitions that relate zoned to UTC values are left to the fixed-offset pass above
    global BASE
    base0 = BASE

    def no_utc(x):
        return '"utc"' not in json.dumps(x)
    try:
        BASE = datetime(2024, 3, 29)
        ndst = 0
        for cls in (Event, Todo):
            for v in trans:
                if not (no_utc(v["pre"]) and no_utc(v["o"]) and no_utc(v["post"]) and no_utc(v["obs"])) or '"zoned"' not in json.dumps([v["pre"], v["o"]]):
                    continue
                ndst += 1
                ctx.case((cls.__name__, "dst", repr(v["pre"]), repr(v["o"])), True)
                comp = build(cls, v["pre"])
                if slots(comp) != v["pre"]:
                    raise Machinery(f"gamma/alpha self-check failed (DST base) {v['pre']}")
                try:
                    apply(comp, v["o"])
                except Exception as e:   # noqa: BLE001
                    ctx.fail(f"P:C16:step-{v['o']['op']}", {"cls": cls.__name__, "pre": v["pre"], "o": v["o"], "base": "dst"}, type(e).__name__, v["post"])
                    continue
                judge(cls.__name__, v["pre"], v["o"], v["post"], v["obs"], comp, "transition-dst")
        if ndst < 100:
            raise Machinery(f"DST pass: too few zoned transitions ({ndst})")
    finally:
        BASE = base0

    # ------------------------------------------------------------- a start in a repeated hour (fold=1), nothing else set
    # "a component with only a start ends ... at the start itself if it is a date-time": the same instant, not the
    # earlier occurrence of the same wall time (date-time arithmetic resets fold to 0)
    import dateutil.tz as _dtz
    for tzobj in (ZoneInfo("Europe/Berlin"), ZoneInfo("America/New_York"), _dtz.gettz("Europe/Berlin")):
        for wall in (datetime(2024, 10, 27, 2, 30), datetime(2024, 11, 3, 1, 30), datetime(2024, 10, 27, 2, 0)):
            for fold in (0, 1):
                dt = wall.replace(tzinfo=tzobj, fold=fold)
                for cls in (Event, Todo):
                    c = cls()
                    c.start = dt
                    ctx.evaluations += 1
                    ctx.case(("fold", repr(tzobj), wall.isoformat(), fold, cls.__name__), True)
                    try:
                        end, dur = c.end, c.duration
                        ok = end.replace(tzinfo=None) == wall and end.utcoffset() == dt.utcoffset() and dur == timedelta(0) and \
                            c.start.utcoffset() == dt.utcoffset()
                        obs = [repr(end), repr(end.utcoffset()), repr(dur)]
                    except Exception as e:   # noqa: BLE001
                        ok, obs = False, type(e).__name__
                    if not ok:
                        ctx.fail("P:C16:identities", {"cls": cls.__name__, "start_only": repr(dt), "fold": fold}, obs, [repr(dt), repr(dt.utcoffset())])

    # ------------------------------------------------------------- start + DURATION inside a skipped hour
    # "end == start + DURATION and end - start == duration whenever DURATION is set": the sum is the wall-clock sum in the
    # zone of the start, also when that wall time does not exist (no detour through UTC moves it)
    for tzobj, wall, durs in ((ZoneInfo("Europe/Berlin"), datetime(2021, 3, 28, 1, 30), (1, 0.75, 25, 3)), (ZoneInfo("America/New_York"), datetime(2024, 3, 10, 1, 15), (1, 1.5, 24)),
                              (ZoneInfo("Australia/Lord_Howe"), datetime(2024, 10, 6, 1, 45), (0.25, 0.5)), (_dtz.gettz("Europe/Berlin"), datetime(2024, 3, 31, 1, 0), (1.5,)),
                              (ZoneInfo("Europe/Berlin"), datetime(2024, 3, 30, 2, 30), (24,)), (ZoneInfo("Europe/Berlin"), datetime(2024, 10, 27, 1, 30), (1, 2))):
        for h in durs:
            for cls in (Event, Todo):
                for route in ("api", "text", "add"):
                    st, du = wall.replace(tzinfo=tzobj), timedelta(hours=h)
                    c = cls()
                    if route == "add":
                        c.add("dtstart", st)
                        c.add("duration", du)
                    else:
                        c.start = st
                        c.DURATION = du
                    if route == "text":
                        if not isinstance(tzobj, ZoneInfo):
                            continue
                        c = cls.from_ical(c.to_ical())
                    ctx.evaluations += 1
                    ctx.case(("gap", repr(tzobj), wall.isoformat(), h, cls.__name__, route), True)
                    try:
                        end, dur = c.end, c.duration
                        ok = end.replace(tzinfo=None) == wall + du and end.tzinfo is not None and dur == du and end == c.start + c.DURATION and end - c.start == dur
                        obs = [repr(end), repr(dur)]
                    except Exception as e:   # noqa: BLE001
                        ok, obs = False, type(e).__name__
                    if not ok:
                        ctx.fail("P:C16:identities", {"cls": cls.__name__, "start": repr(st), "DURATION": repr(du), "route": route}, obs, [repr(wall + du), repr(du)])

    # ------------------------------------------------------------- the end property of the OTHER kind is not this kind's end
    # a VTODO that carries DTEND (a VEVENT that carries DUE) -- parsed, added, or copied by Todo(event) / Event(todo) -- has
    # "only a start" (or start + DURATION)
    for cls, foreign in ((Todo, "DTEND"), (Event, "DUE")):
        for sv, fv in ((datetime(2024, 10, 11, 10, 20), datetime(2024, 10, 11, 12, 0)), (date(2024, 10, 11), date(2024, 10, 14)),
                       (datetime(2024, 10, 11, 10, 20, tzinfo=UTC), datetime(2024, 10, 11, 9, 0, tzinfo=UTC))):
            for with_dur in (False, True):
                for route in ("text", "add", "copy"):
                    du = timedelta(days=2) if with_dur else None
                    if route == "copy":
                        other = (Event if cls is Todo else Todo)()
                        other.start = sv
                        other.end = fv
                        c = cls(other)
                    else:
                        c = cls()
                        c.add("dtstart", sv)
                        c.add(foreign, fv)
                    if du is not None:
                        c.add("duration", du)
                    if route == "text":
                        c = cls.from_ical(c.to_ical())
                    ctx.evaluations += 1
                    ctx.case(("foreign-end", cls.__name__, repr(sv), with_dur, route), True)
                    want_end = sv + du if du is not None else (sv + timedelta(days=1) if type(sv) is date else sv)
                    want_dur = du if du is not None else (timedelta(days=1) if type(sv) is date else timedelta(0))
                    try:
                        obs = [repr(c.start), repr(c.end), repr(c.duration)]
                        ok = c.start == sv and c.end == want_end and c.duration == want_dur
                    except Exception as e:   # noqa: BLE001
                        ok, obs = False, type(e).__name__
                    if not ok:
                        ctx.fail("P:C16:observables", {"cls": cls.__name__, "foreign": foreign, "start": repr(sv), "DURATION": repr(du), "route": route},
                                 obs, [repr(sv), repr(want_end), repr(want_dur)])

    # ------------------------------------------------------------- subclasses of date / datetime / timedelta; sub-second durations
    class _D(date):
        pass

    class _DT(datetime):
        pass

    class _TD(timedelta):
        pass
    for cls in (Event, Todo):
        for start, dur, want_end, want_dur in (
                (_D(2024, 1, 2), None, date(2024, 1, 3), timedelta(days=1)),
                (_DT(2024, 1, 2, 10, 0), None, datetime(2024, 1, 2, 10, 0), timedelta(0)),
                (date(2024, 1, 2), _TD(days=2), date(2024, 1, 4), timedelta(days=2)),
                (_D(2024, 1, 2), timedelta(days=1), date(2024, 1, 3), timedelta(days=1)),
                (date(2024, 1, 2), timedelta(days=1, milliseconds=250), date(2024, 1, 3), timedelta(days=1)),
                (datetime(2024, 1, 2, 10, 0), timedelta(hours=1, microseconds=5), datetime(2024, 1, 2, 11, 0, 0, 5), timedelta(hours=1, microseconds=5))):
            c = cls()
            ctx.evaluations += 1
            ctx.case(("subtypes", cls.__name__, repr(start), repr(dur)), True)
            try:
                c.start = start
                if dur is not None:
                    c.DURATION = dur
                end, d = c.end, c.duration
                ok = end == want_end and d == want_dur and d == end - c.start and isinstance(end, datetime) == isinstance(want_end, datetime)
                obs = [repr(end), repr(d)]
            except Exception as e:   # noqa: BLE001
                ok, obs = False, type(e).__name__ + ": " + str(e)[:80]
            if not ok:
                ctx.fail("P:C16:identities", {"cls": cls.__name__, "start": repr(start), "DURATION": repr(dur)}, obs, [repr(want_end), repr(want_dur)])

    # ------------------------------------------------------------- RECORD: arbitrary times
    nseq = 60 if ctx.quick else 600
    kinds = ["date", "naive", "utc", "zoned"]
    for i in range(nseq):
        cls = (Event, Todo)[i % 2]
        if i % 3 == 2:
            BASE, kinds = datetime(2024, 3, 29), ["date", "naive", "zoned"]     # every third sequence crosses the DST change
        else:
            BASE, kinds = base0, ["date", "naive", "utc", "zoned"]
        comp = cls()
        ev.append({"o": {"op": "reset", "v": ABSENT}, "post": {"dtstart": ABSENT, "endp": ABSENT, "dur": ABSENT},
                   "obs": observe(comp)})
        meta.append(None)
        for j in range(30):
            op = rnd.choice(["set_start", "set_DTSTART", "set_end", "set_END", "set_DURATION", "set_DURATION",
                             "del_DTSTART", "del_END", "del_DURATION", "add_DTSTART", "add_END", "add_DURATION"])
            if op.startswith("add_") and rnd.random() < 0.6:
                op = "set_end"
            if "DURATION" in op:
                v = rec("dur", rnd.choice([0, 1, 2, 24, 25, 48, 168])) if rnd.random() < 0.85 or op.startswith("add") else PYNONE
            elif op.startswith("del"):
                v = ABSENT
            else:
                k = rnd.choice(kinds)
                t = rnd.randint(0, 200)
                if k == "date":
                    t -= t % 24
                v = rec(k, t) if rnd.random() < 0.9 or op.startswith("add") else PYNONE
            o = {"op": op, "v": v}
            pre = slots(comp)
            try:
                apply(comp, o)
            except Exception as e:   # noqa: BLE001
                ctx.fail(f"P:C16:step-{op}", {"cls": cls.__name__, "pre": pre, "o": o}, type(e).__name__, None)
                break
            ev.append({"o": o, "post": slots(comp), "obs": observe(comp)})
            meta.append({"cls": cls.__name__, "pre": pre, "o": o})
            ctx.case((cls.__name__, "rnd", i, j), True)
    BASE = base0
    ctx.sample({"trace_event": ev[-1]})
    for idx, clause, known in ctx.validate_trace("Trace_StartEnd", ev, cfg_text(spec="Spec"), chunk=10000, timeout=3000,
                                                 boundary=lambda e: e["o"]["op"] == "reset"):
        ctx.fail(clause, meta[idx], [ev[idx]["post"], ev[idx]["obs"]], None)
    ctx.assumptions += [
        "times are whole hours from 2024-01-15; the zoned kind is Europe/Berlin in January (fixed +1h)",
        "a naive/aware mixture of start and end is outside the statement's list of forbidden states: any outcome of `duration` is accepted there (DESIGN.md section 3)",
        "in forbidden or incomplete states each observable may answer with either documented error or its natural value",
    ]
    return ctx.finish(rule=(
        "every transition of the three-slot state machine (values: date/naive/UTC/zoned, durations 24h/1h/0[/25h/48h], "
        "absent/multi/garbage/wrong-type) under 12 mutators on Event and Todo, every slot combination through the parser, "
        "graph walks, random sequences with arbitrary times; non-trivial = touches the exclusive pair or a DURATION"))


if __name__ == "__main__":
    main_wrapper(run, "C16")
