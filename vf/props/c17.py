"""C17 — components and parameter maps are dicts keyed by upper-cased names.

MC      spec/MC_CaselessMap: full reachable graph of the reference mapping over a
        key set with case variants; invariants UpperOnly, NoDup; OrderKept asserted on
        every transition; every transition printed as a vector.
REPLAY  every transition on CaselessDict, Parameters, Component, Event, vRecur
        (from-state rebuilt canonically), then random walks over the transition
        graph on one long-lived object per class (spec behaviours -> code).
RECORD  long random operation sequences over a larger key pool on real objects.
VALIDATE spec/Trace_CaselessMap steps the reference along every logged call.
CANON   spec/MC_CanonSort: all subsets of names vs sorted_keys() of real objects.
"""
import random

from vf.core import Ctx, cfg_text, main_wrapper, Machinery

import icalendar
from icalendar.caselessdict import CaselessDict
from icalendar.parser import Parameters
from icalendar.cal import Component, Event, Calendar, Timezone
from icalendar.prop import vRecur


def S(a):
    return "".join(map(chr, a))


def L(s):
    return [ord(c) for c in s]


NAN = float("nan")
NAN_MODE = [False]


class Kind:
    """gamma/alpha for one mapping class."""

    def __init__(self, cls, name, wrap=False, plain_eq=True):
        self.cls, self.name, self.wrap, self.plain_eq = cls, name, wrap, plain_eq

    def enc(self, v):
        if v == -1:
            return None
        if v == 2 and NAN_MODE[0]:
            v = NAN            # one shared non-reflexive object: mappings holding the same object are equal (as for dict)
        return [v] if self.wrap else v

    def dec(self, v):
        if v is None:
            return -1
        if self.wrap:
            if isinstance(v, list) and len(v) == 1:
                return 2 if v[0] is NAN else v[0]
            return ("odd", repr(v))
        return 2 if v is NAN else v

    def state(self, obj):
        return [[L(k), self.dec(v)] for k, v in obj.items()]

    def build(self, pre):
        obj = self.cls()
        for k, v in pre:
            obj[S(k)] = self.enc(v)
        return obj


KINDS = [Kind(CaselessDict, "CaselessDict"), Kind(Parameters, "Parameters"),
         Kind(Component, "Component", plain_eq=False), Kind(Event, "Event", plain_eq=False),
         Kind(vRecur, "vRecur", wrap=True)]


def rval(kind, v):
    d = kind.dec(v)
    return ["none", 0] if d == -1 else ["val", d]


class _SK(str):
    """a str subclass used as a key"""


def _mapping(d, rnd):
    """the same mapping as a dict, an OrderedDict, a UserDict or a read-only proxy"""
    import collections
    import types
    return rnd.choice([lambda: d, lambda: collections.OrderedDict(d), lambda: collections.UserDict(d), lambda: types.MappingProxyType(d)])()


def apply(kind: Kind, obj, o, rnd):
    """Run one abstract operation on the real object. Returns (obj, result)."""
    op = o["op"]
    k = S(o["k"]) if o["k"] else ""
    if rnd.random() < 0.3 and op not in ("new", "update"):
        k = k.encode()
    elif rnd.random() < 0.15 and op not in ("new", "update"):
        k = _SK(k)                                         # a str subclass is a string
    v = kind.enc(o["v"])
    pairs = [(S(p[0]) if rnd.random() < 0.8 else _SK(S(p[0])), kind.enc(p[1])) for p in o["pairs"]]
    kw = {S(p[0]): kind.enc(p[1]) for p in o["kw"]}
    try:
        if op == "new":
            form = rnd.random()
            if form < 0.5 or len({p[0] for p in pairs}) != len(pairs):
                obj = kind.cls(pairs if form < 0.35 else (p for p in pairs), **kw)      # a list or a one-shot generator of pairs
            else:
                obj = kind.cls(_mapping(dict(pairs), rnd), **kw)
            return obj, ["none", 0]
        if op == "getitem":
            return obj, rval(kind, obj[k])
        if op == "setitem":
            obj[k] = v
            return obj, ["none", 0]
        if op == "delitem":
            del obj[k]
            return obj, ["none", 0]
        if op == "contains":
            return obj, ["bool", int(k in obj)]
        if op == "get":
            r = obj.get(k) if (o["v"] == -1 and rnd.random() < 0.5) else obj.get(k, v)
            return obj, rval(kind, r)
        if op == "pop":
            r = obj.pop(k) if (o["v"] == -1 and rnd.random() < 0.5) else obj.pop(k, v)
            return obj, rval(kind, r)
        if op == "setdefault":
            r = obj.setdefault(k) if (o["v"] == -1 and rnd.random() < 0.5) else obj.setdefault(k, v)
            return obj, rval(kind, r)
        if op == "update":
            form = rnd.random()
            if form < 0.5 or len({p[0] for p in pairs}) != len(pairs):
                obj.update(pairs if form < 0.3 else (tuple(pairs) if form < 0.4 else (p for p in pairs)), **kw)
            else:
                obj.update(_mapping(dict(pairs), rnd), **kw)
            return obj, ["none", 0]
        if op == "copy":
            c = obj.copy()
            if type(c) is not type(obj):
                return obj, ["badtype", type(c).__name__]
            return obj, ["map", kind.state(c)]
        if op == "or":
            c = obj | dict(pairs)
            if type(c) is not type(obj):
                return obj, ["badtype", type(c).__name__]
            return obj, ["map", kind.state(c)]
        if op == "ror":
            c = dict(pairs) | obj
            return obj, ["map", kind.state(kind.cls(c))]
        if op == "ior":
            obj |= dict(pairs)
            return obj, ["none", 0]
        if op == "eq":
            other = {p[0]: p[1] for p in pairs}
            if not kind.plain_eq:
                other = kind.cls(other)
            elif rnd.random() < 0.5:
                # the same mapping held by another mapping type, in another insertion order: equality is about the content
                import collections
                rev = list(reversed(list(other.items())))
                other = rnd.choice([collections.OrderedDict, dict, collections.UserDict])(rev)
            a, b = (obj == other), (obj != other)
            if a == b:
                return obj, ["eq-ne-inconsistent", 0]
            return obj, ["bool", int(a)]
        if op == "keys":
            return obj, ["keys", [L(x) for x in obj.keys()]]
        if op == "len":
            return obj, ["val", len(obj)]
        if op == "clear":
            obj.clear()
            return obj, ["none", 0]
        if op == "popitem":
            kk, vv = obj.popitem()
            return obj, ["item", [L(kk), kind.dec(vv)]]
    except KeyError:
        return obj, ["KeyError", 0]
    raise Machinery(f"unknown op {op}")


def run(ctx: Ctx):
    rnd = random.Random(ctx.seed)
    keys = [[97], [65], [98]] if ctx.quick else [[97], [65], [98], [66]]
    r = ctx.mc("MC_CaselessMap", cfg_text(
        spec="Spec", constants={"Vals": {1, 2}, "MaxPairs": 2},
        invariants=["InvUpper", "InvNoDup"]),
        defs={"RawKeys": {tuple(k) for k in keys}}, workers=4 if ctx.quick else 8, timeout=3000)
    vecs = r.prints
    if len(vecs) < 500:
        raise Machinery("too few transitions")
    if not any(v["res"][0] == "KeyError" for v in vecs):
        raise Machinery("vacuous: no KeyError transition")
    ctx.sample(vecs[len(vecs) // 2])
    graph = {}
    for v in vecs:
        graph.setdefault(repr(v["pre"]), []).append(v)
    # -- every transition, from a canonically rebuilt from-state
    for v in vecs:
        o = v["o"]
        nontriv = bool(o["k"] and o["k"][0] >= 97) or any(p[0][0] >= 97 for p in o["pairs"] + o["kw"])
        for kind in KINDS:
            ctx.case((kind.name, repr(v["pre"]), repr(o)), nontriv)
            NAN_MODE[0] = rnd.random() < 0.25          # value 2 is sometimes a NaN object
            obj = kind.build(v["pre"])
            if kind.state(obj) != v["pre"]:
                raise Machinery(f"gamma/alpha self-check failed for {kind.name} {v['pre']}")
            obj, res = apply(kind, obj, o, rnd)
            post = kind.state(obj)
            if res != v["res"]:
                ctx.fail(f"P:C17:result-{o['op']}", {"cls": kind.name, "pre": v["pre"], "o": o}, res, v["res"])
            if post != v["post"]:
                ctx.fail(f"P:C17:state-{o['op']}", {"cls": kind.name, "pre": v["pre"], "o": o}, post, v["post"])
    # -- walks over the graph on one long-lived object (spec behaviours -> code)
    nwalks, depth = (60, 40) if ctx.quick else (600, 60)
    for kind in KINDS:
        for w in range(nwalks):
            obj = kind.cls()
            cur = []
            path = []
            for _ in range(depth):
                v = rnd.choice(graph[repr(cur)])
                path.append(v["o"])
                obj, res = apply(kind, obj, v["o"], rnd)
                post = kind.state(obj)
                ctx.evaluations += 1
                # the sorted views follow EVERY way of changing the mapping (pop, popitem, clear, |=, update ...)
                try:
                    sk, si = list(obj.sorted_keys()), [k for k, _ in obj.sorted_items()]
                except Exception as e:   # noqa: BLE001
                    sk, si = [type(e).__name__], []
                cur_keys = [S(p[0]) for p in post]
                order = list(type(obj).canonical_order or ())
                want_sorted = [k for k in order if k in cur_keys] + sorted(k for k in cur_keys if k not in order)
                if sk != want_sorted or si != want_sorted:
                    ctx.fail(f"P:C17:canonical-order", {"cls": kind.name, "path": path[-6:], "after": v["o"]["op"]}, [sk, si], want_sorted)
                    break
                if res != v["res"] or post != v["post"]:
                    ctx.fail(f"P:C17:walk-{v['o']['op']}", {"cls": kind.name, "path": path[-6:]},
                             [res, post], [v["res"], v["post"]])
                    break
                cur = v["post"]
    # -- M-clauses outside the statement as read in DESIGN.md section 3
    try:
        if not (CaselessDict(a=1) == {"a": 1}):
            ctx.notes.append("M:C17:eq-lowercase-plain-mapping: CaselessDict(a=1) == {'a': 1} is False (not required by the reading in DESIGN 3)")
    except Exception as e:
        ctx.notes.append(f"M:C17:eq raised {type(e).__name__}")

    # ------------------------------------------------------------- RECORD + VALIDATE
    pool = ["dtstart", "DTSTART", "DtStart", "x-a", "X-A", "x-b", "summary", "Summary", "uid", "tzid", "TZID", "k9"]
    events = []
    meta = []
    nseq, seqlen = (40, 120) if ctx.quick else (400, 200)
    opnames = ["getitem", "setitem", "setitem", "delitem", "contains", "get", "pop", "setdefault", "update",
               "copy", "or", "ror", "ior", "eq", "keys", "len", "popitem", "new", "clear"]
    for i in range(nseq):
        kind = KINDS[i % len(KINDS)]
        obj = kind.cls()
        events.append({"o": {"op": "reset", "k": [], "v": 0, "pairs": [], "kw": []}, "res": ["none", 0], "post": []})
        meta.append({"cls": kind.name, "seq": i})
        for j in range(seqlen):
            op = rnd.choice(opnames)
            if op in ("new", "clear") and rnd.random() < 0.7:
                op = "setitem"
            k = rnd.choice(pool)
            npairs = rnd.randint(0, 3)
            pairs = [[L(rnd.choice(pool)), rnd.randint(1, 9)] for _ in range(npairs)]
            kw = [[L(rnd.choice([p for p in pool if "-" not in p])), rnd.randint(1, 9)]] if rnd.random() < 0.3 else []
            if op == "eq":
                st = kind.state(obj)
                pairs = [list(p) for p in st]
                if rnd.random() < 0.5 and pairs:
                    pairs[rnd.randrange(len(pairs))][1] = 77
                rnd.shuffle(pairs)
                kw = []
            if op in ("or", "ror", "ior"):
                # gamma passes these as a plain dict: raw keys must be distinct, otherwise the
                # dict literal itself (not the code under test) reorders the assignments
                seen = set()
                pairs = [p for p in pairs if not (tuple(p[0]) in seen or seen.add(tuple(p[0])))]
            if op not in ("new", "update"):
                kw = []
            if op in ("or", "ror", "ior", "eq", "new", "update"):
                k = ""
            else:
                pairs = []
            vv = rnd.choice([-1, 1, 2, 3])
            if op in ("getitem", "delitem", "contains", "setitem"):
                vv = rnd.randint(1, 9) if op == "setitem" else 0
            o = {"op": op, "k": L(k), "v": vv if op in ("setitem", "get", "pop", "setdefault") else 0,
                 "pairs": pairs, "kw": kw}
            obj, res = apply(kind, obj, o, rnd)
            events.append({"o": o, "res": res, "post": kind.state(obj)})
            meta.append({"cls": kind.name, "seq": i, "step": j, "o": o})
    ctx.sample({"trace_event": events[5]})
    for idx, clause, known in ctx.validate_trace("Trace_CaselessMap", events, cfg_text(spec="Spec"),
                                                 chunk=10000, timeout=3000, boundary=lambda e: e["o"]["op"] == "reset"):
        ctx.fail(clause, meta[idx], [events[idx]["res"], events[idx]["post"]], None)
    ctx.evaluations += len(events)

    # ------------------------------------------------------------- canonical order
    names = ["SUMMARY", "DTSTART", "DTEND", "UID", "ATTENDEE", "X-B", "A", "RRULE"]
    # user subclasses with their own declared order, sorted after (and before) their parents were sorted in this process
    Meeting = type("Meeting", (Event,), {"canonical_order": ("X-B", "SUMMARY", "A")})
    Plain = type("Plain", (CaselessDict,), {"canonical_order": ("RRULE", "A")})
    Inherits = type("Inherits", (Event,), {})
    Deep = type("Deep", (Meeting,), {"canonical_order": ("UID",)})
    for cls in (Event, Meeting, Calendar, Timezone, Component, Plain, vRecur, Inherits, Deep, Meeting, Event):
        order = list(cls.canonical_order or ())
        nm = names if cls is not vRecur else ["FREQ", "COUNT", "BYDAY", "RSCALE", "X-A", "A", "WKST", "UNTIL"]
        if cls is Calendar:
            nm = ["VERSION", "PRODID", "METHOD", "CALSCALE", "X-B", "A", "NAME", "UID"]
        if cls is Timezone:
            nm = ["TZID", "TZURL", "A", "X-LIC-LOCATION", "LAST-MODIFIED"]
        rr = ctx.mc("MC_CanonSort", cfg_text(spec="Spec", invariants=["InvPerm", "Vec"]),
                    defs={"Names": {tuple(L(n)) for n in nm}, "Order": [tuple(L(x)) for x in order]},
                    workers=2, timeout=600)
        for v in rr.prints:
            ks = [S(x) for x in v["S"]]
            rnd.shuffle(ks)
            obj = cls()
            for kk in ks:
                obj[kk.lower() if rnd.random() < 0.5 else kk] = [1]
            got = obj.sorted_keys()
            want = [S(x) for x in v["sorted"]]
            ctx.case((cls.__name__, tuple(sorted(ks))), len(ks) > 1)
            if got != want:
                ctx.fail("P:C17:canonical-order", {"cls": cls.__name__, "keys": ks}, got, want)
            if [k for k, _ in obj.sorted_items()] != want:
                ctx.fail("P:C17:canonical-order-items", {"cls": cls.__name__, "keys": ks}, None, want)
    ctx.assumptions += [
        "equality with a plain mapping is required only for mappings whose keys are already upper-case (DESIGN.md section 3)",
        "key upper-casing is modelled for ASCII names (RFC 5545 names are ASCII)",
    ]
    # ------------------------------------------------------------- SUITE: calls observed in the repository's own tests
    from vf import suite
    suite.step(ctx, "cdict", ["P:C17"])
    # ------------------------------------------------------------- FRESH: history independence of returned objects (spec/Fresh.tla)
    from vf import fresh
    fresh.step(ctx, "C17")
    # ------------------------------------------------------------- VIEW: views after every edit history (spec/View.tla)
    from vf import view
    view.step(ctx, "C17")
    return ctx.finish(rule=(
        "every transition of the reference mapping over keys {a,A,b[,B]} x values {1,2} (ops: new/update with <=2 pairs "
        "+ <=1 keyword, get/set/del/contains/get/pop/setdefault/copy/|/|=/==/keys/len/clear/popitem) replayed on 5 classes; "
        "graph walks; recorded random sequences validated by TLC. non-trivial = the operation mentions a lower-case key"))


if __name__ == "__main__":
    main_wrapper(run, "C17")
