"""C18 — used-timezone discovery is complete; adding missing timezones closes it.

MC      spec/MC_UsedTzids: full graph over ids {K1, K2 known; U unknown}, four sites of use,
        0..2 VTIMEZONEs per id; InvImpl (missing-set mirror = Ref), action property Closure
        (AddMissing adds exactly the known missing ids once, is idempotent, leaves U missing);
        the pre-fix remove() mirror is refuted.
REPLAY  every state as a real Calendar (API-built and parsed) under both providers:
        get_used_tzids, get_missing_tzids, then add_missing_timezones twice.
RECORD  random calendars with deeper nesting, more ids and multi-valued properties.
VALIDATE spec/Trace_UsedTzids.
"""
import copy
import random
from datetime import date, datetime, timedelta

from vf.core import Ctx, cfg_text, main_wrapper, Machinery
from icalendar import Calendar, Event, Todo, Timezone, FreeBusy, Component, Alarm
from icalendar.timezone import tzp

IDMAP = {"K1": "Europe/Berlin", "K2": "America/New_York", "U": "Custom/Nowhere",
         "K3": "Asia/Tokyo", "K4": "Africa/Cairo", "U2": "Mitteleurop\u00e4ische Zeit \u4e2d\u6b27",      # (a custom id need not be ASCII)
         # ids the provider resolves under another spelling: the VTIMEZONE that closes the gap must carry THIS spelling
         "K5": "W. Europe Standard Time", "K6": "/America/New_York", "K7": "US/Eastern",
         # UTC named by an explicit TZID parameter (not the Z suffix) is a used id like any other
         "K8": "UTC", "K9": "Etc/UTC",
         # zones at the edge of the offset range (+14:00), and ids only ONE provider resolves (known = what tzp.timezone() finds)
         "K10": "Pacific/Kiritimati", "K11": "Etc/GMT-14", "K12": "Line Islands Standard Time", "K13": "posix/Europe/Vaduz", "K14": "europe/berlin"}
ALIAS = {"K5", "K6", "K7", "K8", "K9", "K12", "K13", "K14"}
ONLY = {"K13": "zoneinfo", "K14": "pytz"}
REV = {v: k for k, v in IDMAP.items()}
F, L_ = date(2020, 1, 1), date(2021, 6, 1)
CUSTOM = """BEGIN:VTIMEZONE\r\nTZID:%s\r\nBEGIN:STANDARD\r\nDTSTART:19700101T000000\r\nTZOFFSETFROM:+0200\r\nTZOFFSETTO:+0200\r\nTZNAME:CST\r\nEND:STANDARD\r\nEND:VTIMEZONE\r\n"""
_tzcache = {}


def tz_component(idk):
    tzid = IDMAP[idk]
    key = (tzp.name, idk)
    if key not in _tzcache:
        if idk.startswith("K"):
            _tzcache[key] = Timezone.from_tzid(tzid, first_date=F, last_date=L_)
        else:
            _tzcache[key] = CUSTOM % tzid
    if isinstance(_tzcache[key], str):
        t = Timezone.from_ical(_tzcache[key])     # parsing caches the id ...
        tzp.use(tzp.name)                          # ... so empty the cache again
        return t
    return copy.deepcopy(_tzcache[key])


def zoned(idk, n=0):
    """A zoned date-time; unknown ids cannot be tzinfo objects, they are attached as TZID parameter."""
    return datetime(2020, 6, 1, 10, 0) + timedelta(days=n)


def add_use(cal, idk, site, n):
    tzid = IDMAP[idk]
    known = idk.startswith("K") and idk not in ALIAS     # alias ids are attached as TZID parameters, like unknown ones
    dt = tzp.localize(zoned(idk, n), tzid) if known else zoned(idk, n)
    params = None if known else {"TZID": tzid}
    if site == "single":
        e = Event()
        e.add("dtstart", dt, parameters=params)
        cal.add_component(e)
    elif site == "list":
        e = Event()
        e.add("dtstart", datetime(2020, 1, 1, 0, 0))
        other = tzp.localize(zoned(idk, n + 1), tzid) if known else zoned(idk, n + 1)
        e.add("rdate", [dt, other], parameters=params)
        e.add("exdate", [datetime(2020, 1, 2)])
        cal.add_component(e)
    elif site == "period":
        fb = FreeBusy()
        end = dt + timedelta(hours=1)
        fb.add("freebusy", (dt, end), parameters=params)
        cal.add_component(fb)
    elif site == "nested":
        t = Todo()
        inner = Component()
        inner.name = "X-INNER"
        inner.add("recurrence-id", dt, parameters=params)
        a = Alarm()
        a.add_component(inner)
        t.add_component(a)
        cal.add_component(t)
    elif site == "due":
        t = Todo()
        t.add("due", dt, parameters=params)
        cal.add_component(t)
    elif site == "second-of-many":
        e = Event()
        e.add("rdate", [datetime(2020, 1, 1)])
        e.add("rdate", [dt], parameters=params)
        cal.add_component(e)
    else:
        raise Machinery(site)


def build(uses, present, rnd):
    cal = Calendar()
    items = [("use", u) for u in uses] + [("tz", k) for k, n in sorted(present.items()) for _ in range(n)]
    rnd.shuffle(items)       # position of VTIMEZONEs relative to their uses must not matter
    for n, (kind, it) in enumerate(items):
        if kind == "use":
            add_use(cal, it["id"], it["site"], n)
        else:
            cal.add_component(tz_component(it))
    return cal


def observe(cal):
    out = {}
    try:
        out["used"] = sorted(REV.get(x, x) for x in cal.get_used_tzids())
    except Exception as e:   # noqa: BLE001
        out["used"] = ["EXC:" + type(e).__name__]
    try:
        out["missing"] = sorted(REV.get(x, x) for x in cal.get_missing_tzids())
    except Exception as e:   # noqa: BLE001
        out["missing"] = ["EXC:" + type(e).__name__]
    cnt = {}
    try:
        for tz in cal.timezones:
            k = REV.get(tz.tz_name, tz.tz_name)
            cnt[k] = cnt.get(k, 0) + 1
    except Exception as e:   # noqa: BLE001
        cnt = {"EXC": type(e).__name__}
    out["present"] = cnt
    return out


def full_cycle(cal):
    """queries, AddMissing, queries, AddMissing, queries"""
    seq = [observe(cal)]
    for _ in range(2):
        try:
            cal.add_missing_timezones(first_date=F, last_date=L_)
            seq.append(observe(cal))
        except Exception as e:   # noqa: BLE001
            seq.append({"EXC": type(e).__name__})
    return seq


def nz(d):
    return {k: v for k, v in d.items() if v}


def run(ctx: Ctx):
    rnd = random.Random(ctx.seed)
    consts = {"Ids": {"K1", "K2", "U"}, "Known": {"K1", "K2"}, "Sites": {"single", "list", "period", "nested"},
              "MaxUses": 2 if ctx.quick else 3, "MaxTz": 2}
    r0 = ctx.mc("MC_UsedTzids", cfg_text(spec="Spec", constants={**consts, "MaxUses": 1, "Old": True}, invariants=["InvImpl"]),
                expect_ok=False, count=False, workers=1, timeout=300)
    if r0.violated != "InvImpl":
        raise Machinery("pre-fix remove() mirror should be refuted")
    r = ctx.mc("MC_UsedTzids", cfg_text(spec="Spec", constants={**consts, "Old": False},
                                        invariants=["InvImpl", "Vec"], properties=["Closure"]), workers=4, timeout=1800)
    vecs = r.prints
    if len(vecs) < 2000:
        raise Machinery("too few states")
    ctx.sample(vecs[len(vecs) // 2])
    try:
        for prov in ("zoneinfo", "pytz"):
            tzp.use(prov)
            sel = vecs if not ctx.quick else (vecs[::2] if prov == "zoneinfo" else vecs[::6])
            for v in sel:
                unused_tz = any(n > 0 and k not in v["used"] for k, n in v["present"].items())
                ctx.case((prov, repr(v["uses"]), repr(v["present"])), unused_tz or len(v["uses"]) > 1)
                for route in ("api", "text"):
                    tzp.use(prov)      # empties the process-wide cache of parsed VTIMEZONEs (C12's subject)
                    cal = build(v["uses"], v["present"], rnd)
                    if route == "text":
                        cal = Calendar.from_ical(cal.to_ical())
                    seq = full_cycle(cal)
                    case = {"uses": v["uses"], "present": v["present"], "route": route, "provider": prov}
                    o = seq[0]
                    if o["used"] != sorted(v["used"]):
                        ctx.fail("P:C18:used", case, o["used"], v["used"])
                    if o["missing"] != sorted(v["missing"]):
                        ctx.fail("P:C18:missing", case, o["missing"], v["missing"])
                    if o["present"] != nz(v["present"]):
                        raise Machinery(f"gamma/alpha self-check: {o['present']} vs {v['present']}")
                    want_after = nz(v["after"])
                    still = sorted(k for k in v["missing"] if k == "U")
                    for step, oo in enumerate(seq[1:], 1):
                        if "EXC" in oo:
                            ctx.fail("P:C18:add-missing-total", case, oo, None)
                            break
                        if oo["present"] != want_after:
                            ctx.fail("P:C18:closure" if step == 1 else "P:C18:idempotent", case, oo["present"], want_after)
                        if oo["missing"] != still:
                            ctx.fail("P:C18:missing-after", case, oo["missing"], still)
                        if oo["used"] != sorted(v["used"]):
                            ctx.fail("P:C18:used-after", case, oo["used"], v["used"])
                    ctx.evaluations += 1
    finally:
        tzp.use_default()

    # ------------------------------------------------------------- RECORD: richer calendars
    ev, meta = [], []
    n = 60 if ctx.quick else 600
    ids = ["K1", "K2", "K3", "K4", "U", "U2", "K5", "K6", "K7", "K8", "K9", "K10", "K11", "K12", "K13", "K14"]
    sites = ["single", "list", "period", "nested", "due", "second-of-many"]
    try:
        for i in range(n):
            tzp.use(("zoneinfo", "pytz")[i % 2])
            uses = [{"id": rnd.choice(ids), "site": rnd.choice(sites)} for _ in range(rnd.randint(0, 5))]
            # VTIMEZONEs are generated for ids the ACTIVE provider resolves (an id only the other provider knows is "unknown" here)
            present = {k: (rnd.choice([0, 0, 1, 2]) if ONLY.get(k, tzp.name) == tzp.name else 0) for k in ids}
            tzp.use(tzp.name)
            try:
                cal = build(uses, present, rnd)
                if rnd.random() < 0.5:
                    cal = Calendar.from_ical(cal.to_ical())
            except Exception as e:   # noqa: BLE001
                # building the calendar already needs Timezone.from_tzid for the ids the provider resolves
                ctx.fail("P:C18:add-missing-total", {"uses": uses, "present": present, "provider": tzp.name, "exc": type(e).__name__}, str(e)[:160], None)
                continue
            seq = full_cycle(cal)
            ev.append({"uses": uses, "present": present, "seq": seq})
            meta.append({"uses": uses, "present": present, "provider": tzp.name})
            ctx.case(("rnd", i), True)
    finally:
        tzp.use_default()
    ctx.sample({"trace_event": ev[0]})
    for prov in ("zoneinfo", "pytz"):
        known_ids = {k for k in ids if k.startswith("K") and ONLY.get(k, prov) == prov}
        cfg = cfg_text(spec="Spec2", constants={"Ids": set(ids), "Known": known_ids, "Sites": set(sites), "MaxUses": 9, "MaxTz": 2, "Old": False})
        sel = [j for j, m in enumerate(meta) if m["provider"] == prov]
        for idx, clause, known in ctx.validate_trace("Trace_UsedTzids", [ev[j] for j in sel], cfg, chunk=5000, timeout=1200, name=f"trace-{prov}"):
            ctx.fail(clause, meta[sel[idx]], ev[sel[idx]]["seq"], None)
    # ------------------------------------------------------------- histories in which the provider learns / forgets custom ids
    rh0 = ctx.mc("MC_UsedTzidsHist", cfg_text(spec="Spec", constants={"Iana": {"K1"}, "Custom": {"U"}, "MaxOps": 4, "NegMemo": True},
                                              invariants=["InvClosed"]), expect_ok=False, count=False, workers=1, timeout=300)
    if rh0.violated != "InvClosed":
        raise Machinery("a cached 'unknown' verdict should be refuted against InvClosed")
    hvecs = []
    for mo in (3, 4, 5) if ctx.quick else (3, 4, 5, 6):
        rh = ctx.mc("MC_UsedTzidsHist", cfg_text(spec="Spec", constants={"Iana": {"K1"}, "Custom": {"U", "U2"}, "MaxOps": mo, "NegMemo": False},
                                                 invariants=["InvClosed", "InvOnlyUsed", "Vec"]), workers=2, timeout=600)
        hvecs += rh.prints
    if len(hvecs) < 40:
        raise Machinery(f"too few learn/forget histories {len(hvecs)}")
    try:
        for prov in ("zoneinfo", "pytz"):
            for v in hvecs:
                tzp.use(prov)
                cal = Calendar()
                n = 0
                try:
                    for op in v["hist"]:
                        if op["op"] == "use":
                            n += 1
                            add_use(cal, op["id"], "single" if n % 2 else "due", n)
                        elif op["op"] == "learn":
                            Calendar.from_ical("BEGIN:VCALENDAR\r\n" + CUSTOM % IDMAP[op["id"]] + "END:VCALENDAR\r\n")
                        elif op["op"] == "forget":
                            tzp.use(prov)
                        else:
                            cal.add_missing_timezones(first_date=F, last_date=L_)
                    o = observe(cal)
                except Exception as e:   # noqa: BLE001
                    o = {"missing": ["EXC:" + type(e).__name__], "present": {}}
                ctx.case(("hist", prov, repr(v["hist"])), any(op["op"] in ("learn", "forget") for op in v["hist"]))
                case = {"hist": v["hist"], "provider": prov}
                if o["missing"] != sorted(v["missing"]):
                    ctx.fail("P:C18:missing-after-history", case, o["missing"], sorted(v["missing"]))
                elif sorted(k for k, c in o["present"].items() if c) != sorted(v["present"]) or any(c > 1 for c in o["present"].values()):
                    ctx.fail("P:C18:closure-after-history", case, o["present"], sorted(v["present"]))
    finally:
        tzp.use_default()
    ctx.assumptions += ["known ids: IANA zones of the active provider; unknown ids are attached as TZID parameters on floating values",
                        "the process-wide cache of parsed VTIMEZONEs is emptied before each case (history dependence is C12's subject)",
                        "add_missing_timezones is called with a short date window to keep generation fast (window choice is C13's subject)"]
    # ------------------------------------------------------------- FRESH: history independence of returned objects (spec/Fresh.tla)
    from vf import fresh
    fresh.step(ctx, "C18")
    # ------------------------------------------------------------- VIEW: views after every edit history (spec/View.tla)
    from vf import view
    view.step(ctx, "C18")
    return ctx.finish(rule=(
        "every state of the model (<=2/3 uses over 3 ids x 4 sites, 0..2 VTIMEZONEs per id) as an API-built and as a parsed "
        "calendar under both providers, queries + add_missing_timezones twice; random richer calendars validated by TLC; "
        "non-trivial = an unused/duplicate VTIMEZONE is present or more than one use"))


if __name__ == "__main__":
    main_wrapper(run, "C18")
