"""C19 — recurrence rules round-trip all parts, FREQ first, same occurrences.

MC      spec/MC_Recur: FREQ x subsets of further parts from a pool of representative part
        instances in every insertion order; InvGrammar (text in the RECUR grammar, FREQ first),
        InvDen (RefParse(text) = the supplied parts, canonically ordered), InvStable, InvOrder.
REPLAY  vRecur built from each rule (key case and scalar/list variants) -> to_ical -> from_ical ->
        to_ical; admissible texts (parts permuted, trailing ';') -> from_ical.
RECORD  random rules incl. many-valued parts; occurrence sequences of rrulestr(text) vs an rrule
        built from the supplied parts by an independent kwargs mapping.
VALIDATE spec/Trace_Recur: grammar, FreqFirst, denotation, re-encoding, occurrence equality.
"""
import random
from datetime import date, datetime, timedelta
from zoneinfo import ZoneInfo

import dateutil.rrule as dr

from vf.core import Ctx, cfg_text, main_wrapper, Machinery
from icalendar.prop import vRecur, vWeekday, vMonth, vInt, vFrequency, vText, vSkip

UTC = ZoneInfo("UTC")


def L(s):
    if isinstance(s, bytes):
        s = s.decode()
    return [ord(c) for c in s]


def S(a):
    return "".join(map(chr, a))


def I(n):
    return ("i", -1 if n < 0 else 1, abs(n))


def W(s):
    """weekdaynum literal -> abstract value (parsed here, independently of the code under test)"""
    name, num = s[-2:], s[:-2]
    return ("w", int(num) if num else 0, tuple(L(name)))


def part(name, *vals):
    return (tuple(L(name)), tuple(vals))


FREQS = [part("FREQ", ("s", tuple(L(f)))) for f in ("SECONDLY", "MINUTELY", "HOURLY", "DAILY", "WEEKLY", "MONTHLY", "YEARLY")]
POOL = [
    part("COUNT", I(1)), part("COUNT", I(10)), part("INTERVAL", I(2)),
    part("UNTIL", ("d", 2025, 12, 31)), part("UNTIL", ("t", 2025, 12, 31, 23, 59, 59, 1)), part("UNTIL", ("t", 2025, 6, 1, 9, 0, 0, 0)),
    part("BYSECOND", I(0)), part("BYSECOND", I(0), I(30)), part("BYMINUTE", I(15), I(45)), part("BYHOUR", I(9)), part("BYHOUR", I(8), I(17), I(23)),
    part("BYDAY", W("MO")), part("BYDAY", W("MO"), W("WE"), W("FR")), part("BYDAY", W("-1SU")), part("BYDAY", W("+2TU"), W("-1FR")),
    part("BYDAY", W("53SA")),
    part("BYMONTHDAY", I(1)), part("BYMONTHDAY", I(-1)), part("BYMONTHDAY", I(1), I(15), I(-1)),
    part("BYYEARDAY", I(100)), part("BYYEARDAY", I(-1), I(200)), part("BYWEEKNO", I(20)), part("BYWEEKNO", I(-2), I(1)),
    part("BYMONTH", ("m", 1, 0)), part("BYMONTH", ("m", 3, 0), ("m", 11, 0)), part("BYMONTH", ("m", 5, 1)),
    part("BYSETPOS", I(-1)), part("BYSETPOS", I(1), I(-1)), part("WKST", W("SU")), part("WKST", W("MO")),
    part("SKIP", ("s", tuple(L("FORWARD")))), part("RSCALE", ("s", tuple(L("GREGORIAN")))),
    part("X-CUSTOM", ("s", tuple(L("abc")))),
    # values that compare or hash equal without being the same rule value; repeated values
    part("BYMONTH", ("m", 5, 0), ("m", 5, 1)), part("BYMONTH", ("m", 4, 1), ("m", 4, 0), ("m", 12, 0)),
    part("BYDAY", W("MO"), W("MO")), part("BYDAY", W("1MO"), W("MO"), W("+1MO")), part("BYHOUR", I(9), I(9)), part("BYMONTHDAY", I(1), I(-1), I(1)),
    part("BYSETPOS", I(0)), part("COUNT", I(0)),
    # limits of the RFC ranges: BYSECOND 0..60, BYMINUTE 0..59, BYHOUR 0..23, BYMONTHDAY +-31, BYYEARDAY +-366, BYWEEKNO +-53
    part("BYSECOND", I(60)), part("BYSECOND", I(59), I(60)), part("BYMINUTE", I(59)), part("BYHOUR", I(23), I(0)), part("BYMONTHDAY", I(31), I(-31)),
    part("BYYEARDAY", I(366), I(-366)), part("BYWEEKNO", I(53), I(-53)), part("BYSETPOS", I(366), I(-366)),
    # two-digit months, plain and leap (RFC 7529: 1..13 with an optional L), next to their one-digit prefixes
    part("BYMONTH", ("m", 10, 1)), part("BYMONTH", ("m", 12, 1), ("m", 1, 1)), part("BYMONTH", ("m", 13, 0)), part("BYMONTH", ("m", 11, 1), ("m", 11, 0), ("m", 1, 0)),
    part("BYMONTH", ("m", 10, 0), ("m", 1, 0)),
]


class _DT(datetime):
    """a datetime subclass (pandas.Timestamp, freezegun, pendulum are such) is a DATE-TIME"""


class _D(date):
    pass


class _I(int):
    pass


SUBCLASS = [False]          # toggled by build(): hand over instances of subclasses


def py_value(v):
    if SUBCLASS[0]:
        k = v[0]
        if k == "d":
            return _D(v[1], v[2], v[3])
        if k == "t":
            d = _DT(*v[1:7])
            return d.replace(tzinfo=UTC) if v[7] else d
        if k == "i":
            return _I(v[1] * v[2])
    return _py_value(v)


def _py_value(v):
    k = v[0]
    if k == "i":
        return v[1] * v[2]
    if k == "w":
        return (str(v[1]) if v[1] else "") + S(v[2])
    if k == "m":
        return f"{v[1]}L" if v[2] else v[1]
    if k == "d":
        return date(v[1], v[2], v[3])
    if k == "t":
        d = datetime(*v[1:7])
        return d.replace(tzinfo=UTC) if v[7] else d
    return S(v[1])


def build(rule, rnd):
    """vRecur from the supplied parts with key-case and scalar/list variants."""
    kw = {}
    SUBCLASS[0] = rnd.random() < 0.3
    for name, vals in rule:
        key = S(name)
        key = key.lower() if rnd.random() < 0.5 else key
        pv = [py_value(v) for v in vals]
        # a part may be given as a scalar, a list or a tuple
        kw[key] = pv[0] if (len(pv) == 1 and rnd.random() < 0.5) else (tuple(pv) if rnd.random() < 0.3 else pv)
    if rnd.random() < 0.5 and not any("-" in k for k in kw):
        return vRecur(**kw)
    return vRecur(kw)


def alpha_val(x):
    if isinstance(x, vWeekday):
        return ["w", x.relative or 0, L(x.weekday)]
    if isinstance(x, vMonth):
        return ["m", int(x), int(bool(x.leap))]
    if isinstance(x, bool):
        return ["odd", repr(x)]
    if isinstance(x, int):
        return ["i", -1 if x < 0 else 1, abs(x)]
    if isinstance(x, datetime):
        utc = 0
        if x.tzinfo is not None:
            utc = 1 if x.utcoffset() == timedelta(0) else 2
        return ["t", x.year, x.month, x.day, x.hour, x.minute, x.second, utc]
    if isinstance(x, date):
        return ["d", x.year, x.month, x.day]
    if isinstance(x, vSkip):
        return ["s", L(x.value)]
    if isinstance(x, str):
        return ["s", L(str.__str__(x))]
    return ["odd", repr(x)]


def alpha_rule(r):
    out = []
    for k, v in r.items():
        vals = v if isinstance(v, (list, tuple)) else [v]
        out.append([L(k), [alpha_val(x) for x in vals]])
    return out


def jl(x):
    """tuples -> lists (JSON shape)"""
    if isinstance(x, (tuple, list)):
        return [jl(y) for y in x]
    return x


DR_FREQ = {"SECONDLY": dr.SECONDLY, "MINUTELY": dr.MINUTELY, "HOURLY": dr.HOURLY, "DAILY": dr.DAILY, "WEEKLY": dr.WEEKLY,
           "MONTHLY": dr.MONTHLY, "YEARLY": dr.YEARLY}
DR_WD = {"MO": dr.MO, "TU": dr.TU, "WE": dr.WE, "TH": dr.TH, "FR": dr.FR, "SA": dr.SA, "SU": dr.SU}


def expand_supplied(rule, dtstart):
    """Occurrences from the parts the caller supplied, by a mapping independent of the library."""
    kw = {}
    freq = None
    for name, vals in rule:
        n = S(name)
        if n == "FREQ":
            freq = DR_FREQ[S(vals[0][1])]
        elif n == "COUNT":
            kw["count"] = vals[0][1] * vals[0][2]
        elif n == "INTERVAL":
            kw["interval"] = vals[0][2]
        elif n == "UNTIL":
            u = py_value(vals[0])
            if isinstance(u, datetime):
                if u.tzinfo is not None and dtstart.tzinfo is None:
                    return None
                if u.tzinfo is None and dtstart.tzinfo is not None:
                    return None
            else:
                if dtstart.tzinfo is not None:
                    return None     # a DATE-valued UNTIL with an aware DTSTART: the expander's convention, not the codec's
                u = datetime(u.year, u.month, u.day)
            kw["until"] = u
        elif n == "WKST":
            kw["wkst"] = DR_WD[S(vals[0][2])]
        elif n == "BYDAY":
            kw["byweekday"] = [DR_WD[S(v[2])](v[1]) if v[1] else DR_WD[S(v[2])] for v in vals]
        elif n == "BYMONTH":
            if any(v[2] for v in vals):
                return None
            kw["bymonth"] = [v[1] for v in vals]
        elif n in ("BYSECOND", "BYMINUTE", "BYHOUR", "BYMONTHDAY", "BYYEARDAY", "BYWEEKNO", "BYSETPOS"):
            kw[n.lower()] = [v[1] * v[2] for v in vals]
        else:
            return None          # RSCALE / SKIP / X- parts: no standard expander semantics
    if "count" in kw and "until" in kw:
        return None
    try:
        return [x.isoformat() for x in list(dr.rrule(freq, dtstart=dtstart, **kw)[:12])] if "count" in kw or "until" in kw \
            else [x.isoformat() for x in dr.rrule(freq, dtstart=dtstart, **kw)[:12]]
    except Exception as e:   # noqa: BLE001
        return ["EXC-supplied:" + type(e).__name__]


class _Timeout(Exception):
    pass


def _limited(fn, seconds=1.0):
    """dateutil iterates impossible or very sparse rules for a very long time: bound each expansion."""
    import signal

    def handler(signum, frame):
        raise _Timeout()
    old = signal.signal(signal.SIGALRM, handler)
    signal.setitimer(signal.ITIMER_REAL, seconds)
    try:
        return fn()
    except _Timeout:
        return None
    finally:
        signal.setitimer(signal.ITIMER_REAL, 0)
        signal.signal(signal.SIGALRM, old)


def expand_text(text, dtstart):
    try:
        return [x.isoformat() for x in dr.rrulestr(text, dtstart=dtstart)[:12]]
    except Exception as e:   # noqa: BLE001
        return ["EXC-text:" + type(e).__name__ + ":" + str(e)[:60]]


def observe(rule, rnd, with_occ):
    # parts at the limits of their ranges (BYSECOND=60, BYSETPOS=+-366 ...) are beyond what the expander handles in reasonable time
    if any(S(n) in ("BYSECOND", "BYSETPOS", "BYYEARDAY", "BYWEEKNO") and any(v[0] == "i" and v[2] >= 53 for v in vals) for n, vals in rule):
        with_occ = False
    try:
        r = build(rule, rnd)
        text = r.to_ical().decode()
    except Exception as x:   # noqa: BLE001
        return {"rule": jl(rule), "text": L("EXC:" + type(x).__name__), "back": [], "again": [], "occ_same": True}
    e = {"rule": jl(rule), "text": L(text)}
    try:
        back = vRecur.from_ical(text)
        # reads of parts that are not set (on the built and on the decoded rule) are reads: they change nothing
        for obj in (r, back):
            for absent in ("BYSETPOS", "UNTIL", "X-NOT-THERE", "byeaster"):
                if absent.upper() in obj:
                    continue
                try:
                    obj[absent]
                except KeyError:
                    pass
                obj.get(absent)
                absent in obj
        if r.to_ical().decode() != text:
            e["text"] = L(r.to_ical().decode())          # judged by TLC against the supplied parts
        # encode -> edit a value list in place / pop a part -> encode: the text follows the rule as it now stands
        r2 = vRecur.from_ical(text)
        r2.to_ical()
        edited = False
        for k_ in list(r2.keys()):
            if k_ not in ("FREQ",) and isinstance(r2[k_], list) and r2[k_]:
                r2[k_].append(r2[k_][0])
                edited = k_
                break
        if edited:
            fresh = vRecur.from_ical(text)
            fresh[edited].append(fresh[edited][0])
            if r2.to_ical() != fresh.to_ical():
                e["again"] = L("STALE-AFTER-EDIT:") + L(r2.to_ical())      # the re-encoding clause of the trace spec then fails
                e["stale_after_edit"] = edited
        r3 = vRecur.from_ical(text)
        r3.to_ical()
        for k_ in list(r3.keys()):
            if k_ != "FREQ":
                r3.pop(k_)
                fresh = vRecur.from_ical(text)
                del fresh[k_]
                if r3.to_ical() != fresh.to_ical():
                    e["again"] = L("STALE-AFTER-POP:") + L(r3.to_ical())
                    e["stale_after_edit"] = "pop " + k_
                break
        e["back"] = alpha_rule(back)
        e["again"] = L(back.to_ical()) if not e.get("stale_after_edit") else L(f"STALE-AFTER-EDIT({e['stale_after_edit']}):") + L(back.to_ical())
    except Exception as x:   # noqa: BLE001
        e["back"] = [["EXC", [[type(x).__name__]]]]
        e["again"] = []
    e["occ_same"] = True
    if with_occ:
        for ds in (datetime(2024, 1, 31, 9, 0), datetime(2023, 12, 25, 23, 59, 59, tzinfo=UTC)):
            if S([p for p in rule if S(p[0]) == "FREQ"][0][1][0][1]) in ("SECONDLY", "MINUTELY", "HOURLY"):
                continue
            a = _limited(lambda: expand_supplied(rule, ds))
            if a is None or (a and a[0].startswith("EXC-supplied")):
                continue
            b = _limited(lambda: expand_text(text, ds), 5.0)
            if b is None:
                continue
            if a != b:
                e["occ_same"] = False
                e["occ"] = [a[:4], b[:4]]
    return e


def run(ctx: Ctx):
    rnd = random.Random(ctx.seed)
    # the part order of the pinned encoder, transcribed (never read from the code under test:
    # a change there must show up as a difference from the mirror and be judged by Ref)
    canon = [tuple(L(x)) for x in ("RSCALE", "FREQ", "UNTIL", "COUNT", "INTERVAL", "BYSECOND", "BYMINUTE", "BYHOUR", "BYDAY",
                                   "BYWEEKDAY", "BYMONTHDAY", "BYYEARDAY", "BYWEEKNO", "BYMONTH", "BYSETPOS", "WKST", "SKIP")]
    pool = POOL if not ctx.quick else POOL[::2] + [POOL[-2], POOL[-1]]
    freqs = FREQS if not ctx.quick else [FREQS[3], FREQS[5], FREQS[6]]
    r = ctx.mc("MC_Recur", cfg_text(spec="Spec", constants={"MaxParts": 2},
                                    invariants=["InvGrammar", "InvDen", "InvStable", "InvOrder", "Vec"]),
               defs={"Pool": set(pool), "Freqs": set(freqs), "Canon": canon}, workers=6 if ctx.quick else 14, timeout=6000)
    vecs = r.prints
    if not ctx.quick:
        # three parts in every insertion order over a core of the pool (all 41 instances would be 460k rules)
        core = POOL[::3] + POOL[-8:-2:2]
        r3 = ctx.mc("MC_Recur", cfg_text(spec="Spec", constants={"MaxParts": 3},
                                         invariants=["InvGrammar", "InvDen", "InvStable", "InvOrder", "Vec"]),
                    defs={"Pool": set(core), "Freqs": set(FREQS[2:]), "Canon": canon}, workers=14, timeout=6000)
        vecs = vecs + [v for v in r3.prints if len(v["rule"]) == 4]
    if len(vecs) < 1000:
        raise Machinery(f"too few rules {len(vecs)}")
    ctx.sample(vecs[len(vecs) // 2])
    ev, meta = [], []
    for n, v in enumerate(vecs):
        rule = v["rule"]
        ctx.case(repr(rule), len(rule) > 1)
        e = observe(rule, rnd, with_occ=(n % (3 if ctx.quick else 7) == 0))
        canon_rule = v["canon"]
        if e["text"] == v["text"] and e["back"] == canon_rule and e["again"] == v["text"]:
            if not e["occ_same"]:
                ctx.fail("P:C19:same-occurrences", {"rule": rule, "text": S(v["text"])}, e.get("occ"), None)
        else:
            ctx.drifted("M:C19:mirror", {"rule": rule}, S(e["text"]), S(v["text"]))
            ev.append(e)
            meta.append({"rule": rule})
        # admissible texts: parts permuted (FREQ kept first), trailing ';'
        parts_txt = S(v["text"]).split(";")
        if len(parts_txt) > 2 and n % 4 == 0:
            head = 2 if parts_txt[0].startswith("RSCALE") else 1
            rest = parts_txt[head:]
            rnd.shuffle(rest)
            alt_parts = parts_txt[:head] + rest
            mode = rnd.random()
            if mode < 0.5:       # rule part names are case-insensitive (RFC 5545 ABNF strings)
                alt_parts = [(kv.split("=", 1)[0].lower() if mode < 0.25 else kv.split("=", 1)[0].title()) + "=" + kv.split("=", 1)[1]
                             for kv in alt_parts]
            alt = ";".join(alt_parts) + (";" if rnd.random() < 0.5 else "")
            try:
                back = alpha_rule(vRecur.from_ical(alt))
            except Exception as x:   # noqa: BLE001
                back = [["EXC", [[type(x).__name__]]]]
            ev.append({"k": "dec", "text": L(alt), "back": back, "rule": [], "again": [], "occ_same": True})
            meta.append({"text": alt})
    # ------------------------------------------------------------- RECORD random rules
    nrand = 200 if ctx.quick else 3000
    byname = {}
    for p in POOL:
        byname.setdefault(p[0], []).append(p)
    for i in range(nrand):
        rule = [rnd.choice(FREQS)]
        names = rnd.sample(sorted(byname), rnd.randint(0, 6))
        for nm in names:
            p = rnd.choice(byname[nm])
            if p[1][0][0] == "i" and rnd.random() < 0.5 and S(nm).startswith("BY"):
                lim = {"BYSECOND": 59, "BYMINUTE": 59, "BYHOUR": 23, "BYMONTHDAY": 31, "BYYEARDAY": 366, "BYWEEKNO": 53, "BYSETPOS": 366}[S(nm)]
                signed = S(nm) not in ("BYSECOND", "BYMINUTE", "BYHOUR")
                vals = tuple(I(rnd.choice([1, -1] if signed else [1]) * rnd.randint(1 if signed else 0, lim)) for _ in range(rnd.randint(1, 5)))
                p = (nm, vals)
            rule.append(p)
        if any(S(p[0]) == "COUNT" for p in rule) and any(S(p[0]) == "UNTIL" for p in rule):
            rule = [p for p in rule if S(p[0]) != "UNTIL"]
        rnd.shuffle(rule)
        ctx.case(("rnd", repr(rule)), True)
        ev.append(observe(rule, rnd, with_occ=True))
        meta.append({"rule": jl(rule)})
    for e in ev:
        e.setdefault("k", "enc")
        e.pop("occ", None)
    ctx.sample({"trace_event": ev[-1]})
    cfg = cfg_text(spec="Spec")
    for idx, clause, known in ctx.validate_trace("Trace_Recur", ev, cfg, chunk=3000, timeout=3000):
        ctx.fail(clause, meta[idx], {"text": S(ev[idx]["text"]), "back": ev[idx]["back"]}, None)
    ctx.assumptions += [
        "occurrence sequences are expanded by dateutil.rrule on both sides (text vs. an independent kwargs mapping of the supplied parts); first 12 occurrences, two DTSTARTs",
        "RSCALE / SKIP / leap-month rules and X- parts have no expander semantics and are checked structurally only",
    ]
    # ------------------------------------------------------------- FRESH: history independence of returned objects (spec/Fresh.tla)
    from vf import fresh
    fresh.step(ctx, "C19")
    # ------------------------------------------------------------- VIEW: views after every edit history (spec/View.tla)
    from vf import view
    view.step(ctx, "C19")
    return ctx.finish(rule=(
        "FREQ x all subsets of <=2/3 further parts from a pool of 33 part instances (single/multiple, signed, ordinal weekdays, leap "
        "month, three UNTIL kinds, RSCALE, SKIP, X-) in every insertion order; permuted / trailing-';' texts; random many-valued "
        "rules with occurrence comparison; non-trivial = more than FREQ alone"))


if __name__ == "__main__":
    main_wrapper(run, "C19")
