"""C20 — traversal is complete; equality is an order-insensitive equivalence.

MC      spec/MC_ComponentTree: all trees with <= MaxN nodes and all pairs of them: Equiv is
        reflexive and symmetric, invariant under mirroring the children, sensitive to every
        single-field perturbation; the post-fix __eq__ mirror equals Equiv on every pair, the
        pinned pre-fix mirror is refuted (kinds not compared, duplicate children).
REPLAY  every tree: walk() order/identity, walk(name) in any letter case, walk(select=),
        events/todos/timezones, == with non-components; every pair: ==, reversed, !=.
RECORD  random deep trees with typed values: deepcopy, pickle, serialise-and-parse copies,
        shuffles and single-value perturbations, under both providers.
VALIDATE spec/Trace_ComponentTree evaluates Equiv on the alpha-projected trees.
"""
import copy
import pickle
import random
from datetime import date, datetime, timedelta

from vf.core import Ctx, cfg_text, main_wrapper, Machinery
from icalendar import Calendar, Event, Todo, Journal, Timezone, Alarm, Component, FreeBusy
from icalendar.cal import component_factory
from icalendar.timezone import tzp
from icalendar.prop import vRecur

CLS = {"VEVENT": Event, "VTODO": Todo, "VCALENDAR": Calendar, "VJOURNAL": Journal, "VTIMEZONE": Timezone,
       "VALARM": Alarm, "VFREEBUSY": FreeBusy}


def node(name, pr, rnd):
    c = CLS[name]() if name in CLS else Component()
    if name not in CLS:
        c.name = name
    if pr == "p":
        c.add("summary" if rnd.random() < 0.5 else "SUMMARY", "p")
    elif pr == "q":
        c.add("Summary", "q")
    elif pr == "pq":
        items = [("summary", "p"), ("uid", "q")]
        rnd.shuffle(items)
        for k, v in items:
            c.add(k.upper() if rnd.random() < 0.5 else k, v)
    return c


def build(t, rnd):
    nodes = [node(n, p, rnd) for n, p in zip(t["nm"], t["pr"])]
    for i, p in enumerate(t["par"]):
        if p:
            nodes[p - 1].add_component(nodes[i])
    return nodes


CUSTOM_TZ_CAL2 = (b"BEGIN:VCALENDAR\r\nVERSION:2.0\r\nPRODID:x\r\nBEGIN:VTIMEZONE\r\nTZID:Custom/Verif-Ex\r\nBEGIN:STANDARD\r\nDTSTART:19701025T030000\r\n"
                  b"RRULE:FREQ=YEARLY;BYDAY=-1SU;BYMONTH=10\r\nEXDATE:20231029T030000\r\nRDATE:20231112T030000\r\nTZOFFSETFROM:+0200\r\nTZOFFSETTO:+0100\r\nTZNAME:CET\r\n"
                  b"END:STANDARD\r\nBEGIN:DAYLIGHT\r\nDTSTART:19700329T020000\r\nRRULE:FREQ=YEARLY;BYDAY=-1SU;BYMONTH=3\r\nEXDATE:20220327T020000\r\nTZOFFSETFROM:+0100\r\n"
                  b"TZOFFSETTO:+0200\r\nTZNAME:CEST\r\nEND:DAYLIGHT\r\nEND:VTIMEZONE\r\nBEGIN:VEVENT\r\nUID:1\r\nDTSTART;TZID=Custom/Verif-Ex:20231105T100000\r\n"
                  b"DTEND;TZID=Custom/Verif-Ex:20231120T100000\r\nEND:VEVENT\r\nBEGIN:VTODO\r\nUID:2\r\nDUE;TZID=Custom/Verif-Ex:20220601T100000\r\n"
                  b"RDATE;TZID=Custom/Verif-Ex:20231030T100000,20231113T100000\r\nEND:VTODO\r\nEND:VCALENDAR\r\n")

# a "full history" definition: the older rules end with UNTIL, the newer ones take over; values in the weeks in which the expired
# and the current rule disagree (a copy that loses UNTIL keeps the expired rule firing)
CUSTOM_TZ_CAL3 = (b"BEGIN:VCALENDAR\r\nVERSION:2.0\r\nPRODID:x\r\nBEGIN:VTIMEZONE\r\nTZID:Custom/Verif-Hist\r\n"
                  b"BEGIN:DAYLIGHT\r\nDTSTART:19810329T020000\r\nRRULE:FREQ=YEARLY;BYMONTH=3;BYDAY=-1SU\r\nTZOFFSETFROM:+0100\r\nTZOFFSETTO:+0200\r\nTZNAME:CEST\r\nEND:DAYLIGHT\r\n"
                  b"BEGIN:STANDARD\r\nDTSTART:19810927T030000\r\nRRULE:FREQ=YEARLY;BYMONTH=9;BYDAY=-1SU;UNTIL=19950924T010000Z\r\nTZOFFSETFROM:+0200\r\nTZOFFSETTO:+0100\r\nTZNAME:CET\r\nEND:STANDARD\r\n"
                  b"BEGIN:STANDARD\r\nDTSTART:19961027T030000\r\nRRULE:FREQ=YEARLY;BYMONTH=10;BYDAY=-1SU\r\nTZOFFSETFROM:+0200\r\nTZOFFSETTO:+0100\r\nTZNAME:CET\r\nEND:STANDARD\r\n"
                  b"END:VTIMEZONE\r\nBEGIN:VEVENT\r\nUID:1\r\nDTSTART;TZID=Custom/Verif-Hist:20101005T120000\r\nDTEND;TZID=Custom/Verif-Hist:20101105T120000\r\n"
                  b"RDATE;TZID=Custom/Verif-Hist:20001010T090000,19941010T090000,20240930T090000\r\nEND:VEVENT\r\n"
                  b"BEGIN:VTODO\r\nUID:2\r\nDUE;TZID=Custom/Verif-Hist:20201001T100000\r\nEND:VTODO\r\nEND:VCALENDAR\r\n")


def alpha(comp):
    """flat projection: par / nm / pr (canonical string of the property map)"""
    par, nm, pr = [], [], []

    def visit(c, parent):
        par.append(parent)
        idx = len(par)
        nm.append(str(c.name))
        props = []
        for k in sorted(c.keys()):
            vals = c[k] if isinstance(c[k], list) else [c[k]]
            for v in vals:
                try:
                    txt = v.to_ical() if hasattr(v, "to_ical") else repr(v)
                except Exception as e:   # noqa: BLE001
                    txt = "EXC" + type(e).__name__
                prm = sorted((pk, repr(pv)) for pk, pv in getattr(v, "params", {}).items())
                props.append((k, repr(txt), prm))
        pr.append(repr(props))
        for s in c.subcomponents:
            visit(s, idx)
    visit(comp, 0)
    return {"par": par, "nm": nm, "pr": pr}


def eq3(a, b):
    out = {}
    for key, fn in (("eq", lambda: a == b), ("eqr", lambda: b == a), ("ne", lambda: a != b)):
        try:
            out[key] = bool(fn())
        except Exception as e:   # noqa: BLE001
            out[key] = "EXC:" + type(e).__name__
    return out


def random_tree(rnd, depth, tzs):
    kinds = ["VEVENT", "VTODO", "VJOURNAL", "VALARM", "X-UNKNOWN", "X-OTHER", "VFREEBUSY"]

    def values(c):
        if rnd.random() < 0.8:
            c.add("summary", rnd.choice(["a", "b", "x, y", "é"]))
        if rnd.random() < 0.5:
            tz = rnd.choice(tzs)
            dt = datetime(2024, rnd.randint(1, 12), rnd.randint(1, 28), rnd.randint(0, 23))
            c.add("dtstart", tzp.localize(dt, tz) if tz else dt)
        if rnd.random() < 0.3:
            c.add("rrule", vRecur(freq="WEEKLY", byday=["MO", "2TU"], count=rnd.randint(1, 5)))
        if rnd.random() < 0.3:
            c.add("attendee", "mailto:a@example.com", parameters={"CN": rnd.choice(["A", "B B"]), "ROLE": "CHAIR"})
            c.add("attendee", "mailto:b@example.com")
        if rnd.random() < 0.2:
            c.add("duration", timedelta(hours=rnd.randint(1, 3)))
        if rnd.random() < 0.2:
            c.add("exdate", [date(2024, 1, rnd.randint(1, 5)), date(2024, 2, 1)])
        if rnd.random() < 0.2:
            c.add("geo", (1.5, rnd.choice([2.25, -3.0])))

    def make(d):
        name = rnd.choice(kinds)
        c = CLS[name]() if name in CLS else Component()
        if name not in CLS:
            c.name = name
        values(c)
        if d < depth:
            for _ in range(rnd.choice([0, 1, 1, 2, 3])):
                c.add_component(make(d + 1))
        return c
    cal = Calendar()
    cal.add("version", "2.0")
    cal.add("prodid", "-//verif//")
    for _ in range(rnd.randint(1, 3)):
        cal.add_component(make(2))
    return cal


CUSTOM_TZ_CAL = b"""BEGIN:VCALENDAR\r\nVERSION:2.0\r\nPRODID:x\r\nBEGIN:VTIMEZONE\r\nTZID:Custom/Verif\r\nBEGIN:STANDARD\r\nDTSTART:19701025T030000\r\nRRULE:FREQ=YEARLY;BYDAY=-1SU;BYMONTH=10\r\nTZOFFSETFROM:+0200\r\nTZOFFSETTO:+0100\r\nTZNAME:CET\r\nEND:STANDARD\r\nBEGIN:DAYLIGHT\r\nDTSTART:19700329T020000\r\nRRULE:FREQ=YEARLY;BYDAY=-1SU;BYMONTH=3\r\nTZOFFSETFROM:+0100\r\nTZOFFSETTO:+0200\r\nTZNAME:CEST\r\nEND:DAYLIGHT\r\nEND:VTIMEZONE\r\nBEGIN:VEVENT\r\nUID:1\r\nDTSTART;TZID=Custom/Verif:20240601T100000\r\nRRULE:FREQ=DAILY;COUNT=3\r\nEND:VEVENT\r\nEND:VCALENDAR\r\n"""


def run(ctx: Ctx):
    rnd = random.Random(ctx.seed)
    # vacuity guard
    r0 = ctx.mc("MC_ComponentTree", cfg_text(spec="Spec", constants={
        "MaxN": 3, "Names": {"VEVENT", "VTODO"}, "Props": {"none"}, "Pairs": True, "Old": True},
        invariants=["InvImpl"]), expect_ok=False, count=False, workers=2, timeout=300)
    if r0.violated != "InvImpl":
        raise Machinery("pinned __eq__ mirror should be refuted")
    # ---- trees: traversal
    # every tree of up to 4 nodes over three names; thorough adds every tree of up to 5 nodes over two names (26 260 trees;
    # TLC computes initial states on one core, so the five-node/three-name instance -- 190 000 trees -- does not finish in an hour)
    tree_runs = [dict(MaxN=4, Names={"VEVENT", "VTODO", "X-U"})] + ([] if ctx.quick else [dict(MaxN=5, Names={"VEVENT", "X-U"})])
    trees, seen_t = [], set()
    for tr_ in tree_runs:
        rt = ctx.mc("MC_ComponentTree", cfg_text(spec="Spec", constants={**tr_, "Props": {"none", "p"}, "Pairs": False, "Old": False},
                                                 invariants=["InvRefl", "InvPerturb", "InvMirror", "VecTree"]), workers=6 if ctx.quick else 14, timeout=3000)
        for v in rt.prints:
            key = repr(v["t"])
            if key not in seen_t:
                seen_t.add(key)
                trees.append(v)
    if len(trees) < 1000:
        raise Machinery("too few trees")
    ctx.sample(trees[len(trees) // 2])
    ntree = 0
    for v in trees:
        t = v["t"]
        ctx.case(("tree", repr(t)), len(t["par"]) > 2)
        nodes = build(t, rnd)
        root = nodes[0]
        got = root.walk()
        want = [nodes[i - 1] for i in v["pre"]]
        if len(got) != len(want) or any(a is not b for a, b in zip(got, want)):
            ctx.fail("P:C20:walk-preorder", {"t": t}, [c.name for c in got], [c.name for c in want])
        for name, idxs in v["walks"].items():
            q = "".join(ch.lower() if rnd.random() < 0.5 else ch for ch in name)
            got = root.walk(q)
            want = [nodes[i - 1] for i in idxs]
            if len(got) != len(want) or any(a is not b for a, b in zip(got, want)):
                ctx.fail("P:C20:walk-by-name", {"t": t, "name": q}, [c.name for c in got], idxs)
        for name, idxs in v["walks"].items():
            # both restrictions in one call: the components of that name that also satisfy the predicate
            got = root.walk(name, select=lambda c: "SUMMARY" in c)
            want = [nodes[i - 1] for i in idxs if t["pr"][i - 1] != "none"]
            if len(got) != len(want) or any(a is not b for a, b in zip(got, want)):
                ctx.fail("P:C20:walk-by-name", {"t": t, "name": name, "with_select": True}, [c.name for c in got], [i for i in idxs if t["pr"][i - 1] != "none"])
        got = root.walk(select=lambda c: "SUMMARY" in c)
        want = [nodes[i - 1] for i in v["pre"] if t["pr"][i - 1] != "none"]
        if len(got) != len(want) or any(a is not b for a, b in zip(got, want)):
            ctx.fail("P:C20:walk-select", {"t": t}, [c.name for c in got], None)
        cal = Calendar()
        cal.add_component(root)
        for attr, name in (("events", "VEVENT"), ("todos", "VTODO"), ("timezones", "VTIMEZONE")):
            got = getattr(cal, attr)
            want = [nodes[i - 1] for i in v["walks"].get(name, [])]
            if len(got) != len(want) or any(a is not b for a, b in zip(got, want)):
                ctx.fail(f"P:C20:accessor-{attr}", {"t": t}, [c.name for c in got], None)
        # the timezones accessor on the same shapes: the unknown kind of the model becomes VTIMEZONE (at any depth)
        if "X-U" in t["nm"]:
            t2 = dict(t, nm=["VTIMEZONE" if n == "X-U" else n for n in t["nm"]])
            nodes2 = build(t2, rnd)
            cal2 = Calendar()
            cal2.add_component(nodes2[0])
            got = cal2.timezones
            want = [nodes2[i - 1] for i in v["walks"].get("X-U", [])]
            if len(got) != len(want) or any(a is not b for a, b in zip(got, want)):
                ctx.fail("P:C20:accessor-timezones", {"t": t2}, [c.name for c in got], v["walks"].get("X-U", []))
        for other in (None, 3, {}, "x", [], 1.5, object()):
            r3 = eq3(root, other)
            if r3 != {"eq": False, "eqr": False, "ne": True}:
                ctx.fail("P:C20:eq-non-component", {"t": t, "other": repr(other)[:20]}, r3, None)
                break
        m = build(v["mirror"], rnd)[0]
        r3 = eq3(root, m)
        if r3 != {"eq": True, "eqr": True, "ne": False}:
            ctx.fail("P:C20:eq-child-order", {"t": t}, r3, None)
        # the same tree as PARSED from text whose BEGIN/END names are written in another letter case: traversal by name and
        # equality are case-insensitive in the component name (known and unknown kinds alike)
        ntree += 1
        if ntree % (3 if ctx.quick else 1) == 0:
            import re as _re
            text = root.to_ical().decode("utf-8")
            recased = _re.sub(r"(?m)^(BEGIN|END):(.+?)\r?$", lambda mm: "".join(ch.lower() if rnd.random() < 0.6 else ch for ch in mm.group(1)) + ":" +
                              "".join(ch.lower() if rnd.random() < 0.6 else ch for ch in mm.group(2)) + "\r", text)
            try:
                p_up, p_lo = Component.from_ical(text), Component.from_ical(recased)
            except Exception as e:   # noqa: BLE001
                ctx.fail("P:C20:walk-by-name", {"t": t, "route": "parsed", "exc": type(e).__name__}, str(e)[:100], None)
                continue
            pn = p_lo.walk()
            if [c.name for c in pn] != [nodes[i - 1].name for i in v["pre"]]:
                ctx.fail("P:C20:walk-preorder", {"t": t, "route": "parsed-recased"}, [c.name for c in pn], [nodes[i - 1].name for i in v["pre"]])
            else:
                for name, idxs in v["walks"].items():
                    q = "".join(ch.lower() if rnd.random() < 0.5 else ch for ch in name)
                    got = p_lo.walk(q)
                    want = [pn[v["pre"].index(i)] for i in idxs]
                    if len(got) != len(want) or any(a is not b for a, b in zip(got, want)):
                        ctx.fail("P:C20:walk-by-name", {"t": t, "name": q, "route": "parsed-recased"}, [c.name for c in got], idxs)
            r3 = eq3(p_up, p_lo)
            if r3 != {"eq": True, "eqr": True, "ne": False}:
                ctx.fail("P:C20:eq-name-case", {"t": t}, r3, None)
    # ---- pairs: equality
    pair_runs = [dict(MaxN=3, Names={"VEVENT", "VTODO"}, Props={"none", "p"}),
                 dict(MaxN=4, Names={"VEVENT", "VTODO"}, Props={"none"})]      # duplicates among three children
    if not ctx.quick:
        pair_runs += [
                      dict(MaxN=3, Names={"VEVENT", "VTODO", "X-U"}, Props={"none", "pq"})]
    for pr in pair_runs:
        rp = ctx.mc("MC_ComponentTree", cfg_text(spec="Spec", constants={**pr, "Pairs": True, "Old": False},
                                                 invariants=["InvSym", "InvImpl", "VecPair"]),
                    workers=6 if ctx.quick else 14, timeout=3000)
        neq = 0
        for v in rp.prints:
            a = build(v["t"], rnd)[0]
            b = build(v["u"], rnd)[0]
            ctx.case(("pair", repr(v["t"]), repr(v["u"])), v["t"] != v["u"])
            neq += v["eq"]
            r3 = eq3(a, b)
            want = {"eq": v["eq"], "eqr": v["eq"], "ne": not v["eq"]}
            if r3 != want:
                ctx.fail("P:C20:eq-matches-ref", {"t": v["t"], "u": v["u"]}, r3, want)
        if neq == 0 or neq == len(rp.prints):
            raise Machinery("vacuous pair table")
        ctx.sample({"pair": rp.prints[len(rp.prints) // 3]})

    # ------------------------------------------------------------- values that differ although they are "close" or denote the same instant
    from zoneinfo import ZoneInfo as _ZI
    from datetime import datetime as _dt, date as _d, timedelta as _td

    def _with(name, value, params=None):
        e = Event()
        e.add("uid", "same")
        e.add(name, value, parameters=params)
        return e
    near = [("geo", (48.20668612, 16.37011), (48.20668613, 16.37011)), ("geo", (0.0, 1e-12), (0.0, 2e-12)), ("geo", (1.0, 2.0), (1.0000000001, 2.0)),
            ("dtstart", _dt(2024, 6, 1, 12, 0, tzinfo=_ZI("Europe/Berlin")), _dt(2024, 6, 1, 12, 0, tzinfo=_ZI("Europe/Paris"))),
            ("dtstart", _dt(2024, 6, 1, 12, 0, tzinfo=_ZI("Europe/Berlin")), _dt(2024, 6, 1, 10, 0, tzinfo=_ZI("UTC"))),
            ("dtstart", _dt(2024, 6, 1, 0, 0), _d(2024, 6, 1)), ("duration", _td(hours=24), _td(days=1, seconds=1)),
            ("exdate", [_dt(2024, 6, 1, 12, 0, tzinfo=_ZI("Europe/Berlin"))], [_dt(2024, 6, 1, 12, 0, tzinfo=_ZI("Europe/Paris"))]),
            ("summary", "caf\u00e9", "cafe\u0301"), ("summary", "a", "A"), ("priority", 1, True), ("x-num", "1", "1.0"), ("sequence", 0, False)]
    for name, va, vb in near:
        a_, b_ = _with(name, va), _with(name, vb)
        ctx.evaluations += 1
        ctx.case(("near", name, repr(va), repr(vb)), True)
        if a_.to_ical() == b_.to_ical():
            continue          # the two spellings are the same property on the wire: nothing to distinguish
        r3 = eq3(a_, b_)
        if r3 != {"eq": False, "eqr": False, "ne": True}:
            ctx.fail("P:C20:eq-matches-ref", {"what": "components that serialise differently compare equal", "name": name, "a": repr(va), "b": repr(vb)}, r3, None)
        cal_a, cal_b = Calendar(), Calendar()
        cal_a.add_component(a_)
        cal_b.add_component(b_)
        r3 = eq3(cal_a, cal_b)
        if r3 != {"eq": False, "eqr": False, "ne": True}:
            ctx.fail("P:C20:eq-matches-ref", {"what": "trees whose subcomponents serialise differently compare equal", "name": name, "a": repr(va), "b": repr(vb)}, r3, None)

    # ------------------------------------------------------------- RECORD
    ev, meta = [], []
    n = 40 if ctx.quick else 400
    try:
        for i in range(n):
            prov = ("zoneinfo", "pytz")[i % 2]
            tzp.use(prov)
            tzs = [None, "UTC", "Europe/Berlin", "America/New_York"]
            if i % 5 == 4:
                # alternately: a custom zone whose yearly rule has an EXDATE and an RDATE, with events inside the span they affect
                cal = Calendar.from_ical((CUSTOM_TZ_CAL, CUSTOM_TZ_CAL2, CUSTOM_TZ_CAL3)[(i // 10) % 3])    # each under both providers
            else:
                cal = random_tree(rnd, rnd.randint(2, 6), tzs)
            a = alpha(cal)
            ctx.case(("rnd", i), True)
            ev.append({"k": "walk", "a": a, "order": _walk_order(cal, a)})
            meta.append({"provider": prov, "i": i, "what": "walk"})
            b0 = cal.to_ical()
            for how, fn in (("deepcopy", lambda c: copy.deepcopy(c)),
                            ("pickle", lambda c: pickle.loads(pickle.dumps(c))),
                            ("reparse", lambda c: Calendar.from_ical(c.to_ical()))):
                try:
                    cp = fn(cal)
                    e = {"k": "copy", "how": how, "a": a, "b": alpha(cp), **eq3(cal, cp),
                         "same_bytes": cp.to_ical() == b0}
                except Exception as x:   # noqa: BLE001
                    ctx.fail(f"P:C20:copy-total-{how}", {"provider": prov, "i": i, "how": how, "custom_tz": i % 5 == 4,
                                                        "exc": type(x).__name__}, type(x).__name__ + str(x)[:80], None)
                    continue
                if any(isinstance(e[k], str) for k in ("eq", "eqr", "ne")):
                    ctx.fail(f"P:C20:copy-equal-{how}", {"provider": prov, "i": i}, e, None)
                    continue
                ev.append(e)
                meta.append({"provider": prov, "i": i, "how": how})
            # shuffle subcomponents at a random node; perturb one value
            def dup(c):
                try:
                    return copy.deepcopy(c)
                except Exception:   # noqa: BLE001  (reported above as copy-total-deepcopy)
                    return Calendar.from_ical(c.to_ical())
            sh = dup(cal)
            for c in sh.walk():
                rnd.shuffle(c.subcomponents)
            ev.append({"k": "eq", "a": a, "b": alpha(sh), **eq3(cal, sh)})
            meta.append({"provider": prov, "i": i, "what": "shuffle"})
            pt = dup(cal)
            target = rnd.choice(pt.walk())
            mode = rnd.random()
            if mode < 0.4:
                target["X-PERTURB"] = "1"
            elif mode < 0.7 and target.subcomponents:
                target.subcomponents.pop()
            elif mode < 0.85 and target.subcomponents:
                target.subcomponents.append(dup(target.subcomponents[0]))
            else:
                target["SUMMARY"] = "changed-" + str(i)
            e = {"k": "eq", "a": a, "b": alpha(pt), **eq3(cal, pt)}
            if any(isinstance(e[k], str) for k in ("eq", "eqr", "ne")):
                ctx.fail("P:C20:eq-total", {"provider": prov, "i": i}, e, None)
            else:
                ev.append(e)
                meta.append({"provider": prov, "i": i, "what": "perturb"})
    finally:
        tzp.use_default()
    ctx.sample({"trace_event": {k: (v if k not in ("a", "b") else {"par": v["par"], "nm": v["nm"]}) for k, v in ev[1].items()}})
    for idx, clause, known in ctx.validate_trace("Trace_ComponentTree", ev, cfg_text(spec="Spec"), chunk=2000, timeout=3000):
        ctx.fail(clause, meta[idx], {k: ev[idx].get(k) for k in ("eq", "eqr", "ne", "same_bytes", "how")}, None)
    ctx.assumptions += [
        "property maps are compared through their canonical serialisation (name, encoded value, sorted parameters)",
        "unknown components are generic Component objects carrying their name",
    ]
    # ------------------------------------------------------------- FRESH: history independence of returned objects (spec/Fresh.tla)
    from vf import fresh
    fresh.step(ctx, "C20")
    # ------------------------------------------------------------- VIEW: views after every edit history (spec/View.tla)
    from vf import view
    view.step(ctx, "C20")
    return ctx.finish(rule=(
        "all trees with <=4/5 nodes over {VEVENT, VTODO, X-U} x {no property, SUMMARY}; all pairs of trees with <=3(/4) nodes; "
        "random trees to depth 6 with typed values copied by deepcopy/pickle/reparse, shuffled and perturbed, both providers; "
        "non-trivial = more than two nodes / the two trees differ"))


def _pre(a):
    kids = {}
    for i, p in enumerate(a["par"], 1):
        kids.setdefault(p, []).append(i)
    out = []

    def go(i):
        out.append(i)
        for k in kids.get(i, []):
            go(k)
    go(1)
    return out


def _walk_order(cal, a):
    """indices (in alpha numbering, which is creation = pre-order) of the components walk() returns"""
    ids = {}

    def number(c):
        ids[id(c)] = len(ids) + 1
        for s in c.subcomponents:
            number(s)
    number(cal)
    return [ids.get(id(c), 0) for c in cal.walk()]


if __name__ == "__main__":
    main_wrapper(run, "C20")
