"""gamma: abstract case -> call into the real icalendar working tree;
alpha: result -> abstract value.  Imported with PYTHONPATH=<repo>/src so the
code under test is always the current working tree."""
from __future__ import annotations

import icalendar
from icalendar import Calendar, Event, Todo
from icalendar.parser import Contentline, Contentlines, Parameters
from icalendar.prop import vCategory, vText


def unfold_lines(b: bytes) -> list[str]:
    """Independent RFC unfolding of serialised output (CRLF + one SP/TAB)."""
    t = b.decode("utf-8")
    t = t.replace("\r\n ", "").replace("\r\n\t", "")
    lines = t.split("\r\n")
    if lines and lines[-1] == "":
        lines.pop()
    return lines


def text_encode(s: str) -> str:
    return vText(s).to_ical().decode("utf-8")


def text_codec(s: str) -> str:
    return str(vText.from_ical(vText(s).to_ical()))


def text_decode(t: str) -> str:
    return str(vText.from_ical(t))


def _prop_roundtrip(name, value):
    ev = Event()
    ev.add(name, value)
    b = ev.to_ical()
    wire = None
    for ln in unfold_lines(b):
        if ln.upper().startswith(name.upper() + ":"):
            wire = ln[len(name) + 1:]
    ev2 = Event.from_ical(b)
    return ev2, wire


def text_property(s: str, name="summary"):
    try:
        ev2, wire = _prop_roundtrip(name, s)
    except Exception:
        return False, None, None
    v = ev2.get(name)
    if v is None or isinstance(v, list) or ev2.errors or len(ev2) != 1 or ev2.subcomponents:
        return False, None, wire
    return True, str(v), wire


def cat_codec(items):
    return [str(x) for x in vCategory.from_ical(vCategory(items).to_ical())]


def cat_property(items, form=list):
    """form: how the items are handed to add(): list, tuple, or a one-shot iterator (generator / map / iter)"""
    try:
        handed = {"gen": lambda: (x for x in list(items)), "map": lambda: map(str, list(items)), "iter": lambda: iter(list(items))}.get(form, lambda: form(items))()
        ev2, wire = _prop_roundtrip("categories", handed)
    except Exception:
        return False, None, None
    v = ev2.get("categories")
    if v is None or isinstance(v, list) or ev2.errors or len(ev2) != 1:
        return False, None, wire
    return True, [str(x) for x in v.cats], wire


def switch_provider(name: str, route: int = 0):
    """the documented ways of selecting a time zone provider are equivalent (each starts from an empty VTIMEZONE cache):
    tzp.use(name), tzp.use_<name>(), icalendar.use_<name>() -- the harness takes them in turn"""
    from icalendar.timezone import tzp
    r = route % 3
    if r == 0:
        tzp.use(name)
    elif r == 1:
        getattr(tzp, f"use_{name}")()
    else:
        getattr(icalendar, f"use_{name}")()
