"""Launcher of a property check: `python -m vf.run c05 --tier quick`.

Exit codes are part of the interface: 0 = the property held on everything explored, 1 = a VIOLATION line was printed,
2 = the machinery itself failed.  Anything that goes wrong before or outside the check's own verdict logic (a module
that does not import, an exception that escapes) is a machinery failure, never exit 1.
"""
import runpy
import sys
import traceback


def main():
    name = sys.argv[1]
    sys.argv = [f"vf.props.{name}"] + sys.argv[2:]
    try:
        runpy.run_module(f"vf.props.{name}", run_name="__main__", alter_sys=True)
    except SystemExit:
        raise
    except BaseException:   # noqa: BLE001
        traceback.print_exc()
        print(f"MACHINERY-FAILURE {name.upper()}: the check did not reach a verdict", file=sys.stderr)
        sys.exit(2)


if __name__ == "__main__":
    main()
