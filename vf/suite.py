"""SUITE binding: the repository's own test-suite is run once under the tracing plugin
(vf/suitetrace.py) and the recorded calls are validated by TLC against the Trace_* specifications.

The recording is cached under work/suite/<hash of the library sources + the plugin>, so that several
property checks on the same tree share one run of the suite; any change to the tree gives a new hash.
"""
import hashlib
import json
import os
import shutil
import subprocess
import sys
from pathlib import Path

from vf.core import Ctx, Machinery, REPO, WORK, VERIF, cfg_text

PLUGIN = Path(__file__).with_name("suitetrace.py")


def tree_hash():
    h = hashlib.sha256()
    files = sorted(p for p in (REPO / "src").rglob("*") if p.is_file() and p.suffix in (".py", ".ics", ".txt", ".cfg", ".toml"))
    for p in files:
        h.update(str(p.relative_to(REPO)).encode())
        h.update(p.read_bytes())
    h.update(PLUGIN.read_bytes())
    return h.hexdigest()[:20]


def record(ctx: Ctx):
    """-> directory with <family>.ndjson, <family>.meta.ndjson, summary.json for the current tree"""
    root = WORK / "suite"
    root.mkdir(parents=True, exist_ok=True)
    d = root / tree_hash()
    if (d / "summary.json").exists():
        return d, True
    import time
    for old in root.iterdir():          # keep the disk small: drop other trees' recordings and stale partial ones
        if old.name.endswith(".part") and time.time() - old.stat().st_mtime < 3600:
            continue                    # another check may be recording right now
        shutil.rmtree(old, ignore_errors=True)
    tmp = root / f"{d.name}.{os.getpid()}.part"
    env = dict(os.environ, VF_SUITE_TRACE_DIR=str(tmp), ICALENDAR_VERIF="1", PYTHONHASHSEED="0",
               PYTHONPATH=f"{REPO / 'src'}:{VERIF}")
    try:
        p = subprocess.run([sys.executable, "-m", "pytest", "-q", "-p", "no:cacheprovider", "-p", "vf.suitetrace",
                            "--timeout=900", "--continue-on-collection-errors", "--hypothesis-seed=0"],
                           cwd=REPO, env=env, capture_output=True, text=True, timeout=3000)
    except subprocess.TimeoutExpired:
        raise Machinery("the repository's test-suite did not finish under the tracing plugin")
    if not (tmp / "summary.json").exists():
        raise Machinery("tracing plugin wrote no summary: " + (p.stdout + p.stderr)[-1500:])
    summ = json.loads((tmp / "summary.json").read_text())
    if (summ.get("tests") or 0) < 8000:
        raise Machinery(f"the traced suite collected only {summ.get('tests')} tests")
    summ["pytest_tail"] = p.stdout.strip().splitlines()[-1:]
    (tmp / "summary.json").write_text(json.dumps(summ, indent=1))
    try:
        tmp.rename(d)
    except OSError:                     # another process finished the same recording first
        shutil.rmtree(tmp, ignore_errors=True)
    return d, False


def load(d: Path, family: str):
    ev = [json.loads(x) for x in open(d / f"{family}.ndjson")]
    meta = [json.loads(x) for x in open(d / f"{family}.meta.ndjson")]
    if len(ev) != len(meta):
        raise Machinery(f"suite family {family}: events and meta are not aligned")
    return ev, meta


def validate(ctx: Ctx, family: str, module: str, prefixes, *, min_events, chunk=4000, case_of=None, whole_groups=False):
    """Validate one recorded family with TLC.  prefixes: clause prefixes that are this property's P-clauses;
    M-clauses (mirror drift) are reported as drift; other properties' clauses are ignored here."""
    d, cached = record(ctx)
    ev, meta = load(d, family)
    summ = json.loads((d / "summary.json").read_text())
    if len(ev) < min_events:
        # On the unchanged tree the number of recorded calls is fixed (several times the minimum).  A changed library may call
        # the modelled function less often -- e.g. a fast path in front of it -- and that must not turn the whole check into a
        # machinery failure: the recorded events are still validated, the shortfall is reported in the evidence, and the other
        # steps of the check decide.
        ctx.notes.append(f"SUITE {family}: only {len(ev)} distinct events were recorded (at least {min_events} on the unchanged tree): "
                         "the library reaches the modelled function less often than the pinned tree does")
        if not ev:
            return 0
    ctx.notes.append(f"SUITE {family}: {len(ev)} distinct events of {summ['families'][family]['calls']} recorded calls "
                     f"({'cached recording' if cached else 'fresh recording'}; {summ.get('pytest_tail')})")
    for i, m in enumerate(meta[:: max(1, len(meta) // 300)]):
        ctx.case(("suite", family, i), True)
    if whole_groups:
        # the automaton state must not be cut inside a parse: chunk on "start" events
        starts = [i for i, e in enumerate(ev) if e.get("ev") == "start"] + [len(ev)]
        groups, g0 = [], 0
        for b in starts[1:]:
            if b - g0 >= chunk or b == len(ev):
                groups.append((g0, b))
                g0 = b
    else:
        groups, g0 = [], 0
        for i, e in enumerate(ev):
            # never cut between the "reset" event carrying the pre-state and the operation it belongs to
            if i - g0 >= chunk and (e.get("o") or {}).get("op", "reset") == "reset":
                groups.append((g0, i))
                g0 = i
        groups.append((g0, len(ev)))
    for g0, g1 in groups:
        for idx, clause, known in ctx.validate_trace(module, ev[g0:g1], cfg_text(spec="Spec"), chunk=10 ** 9, timeout=3000,
                                                     name=f"suite-{family}-{g0}"):
            gi = g0 + idx
            case = {"suite_test": meta[gi]["test"], "family": family, "event": _short(ev[gi]), "impl_equal": known}
            if case_of:
                case.update(case_of(ev[gi]))
            if clause.startswith("M:"):
                ctx.drifted(clause, case)
            elif any(clause.startswith(p) for p in prefixes):
                ctx.fail(clause, case, _short(ev[gi]), None)
    ctx.evaluations += len(ev)
    return len(ev)


def _short(e):
    out = {}
    for k, v in e.items():
        if isinstance(v, list) and v and all(isinstance(x, int) for x in v):
            try:
                out[k] = "".join(map(chr, v))[:300]
            except ValueError:
                out[k] = v[:300]
        else:
            out[k] = v
    return out


FAMILIES = {
    # minimum event counts are a vacuity guard only (about a sixth of what the unchanged tree yields): a change to the
    # library may legitimately alter how often a function is called
    "text": ("Trace_TextCodec", ["P:C07"], 100),
    "fold": ("Trace_Folding", ["P:C06"], 150),
    "parts": ("Trace_ContentLine", ["P:C01", "P:C05", "P:C08"], 150),
    "join": ("Trace_ContentLine", ["P:C01", "P:C05", "P:C08"], 150),
    "cdict": ("Trace_CaselessMap", ["P:C17"], 1000),
    "lines": ("Trace_ParserLines", ["P:C04"], 700),
    "values": ("Trace_ValueCodecs", ["P:C03"], 150),
}

def step(ctx: Ctx, family: str, prefixes=None, case_of=None):
    """the SUITE step of a property check: validate one family of the traced suite run, keeping only the
    clauses of this property (prefixes); returns the number of events"""
    mod, pref, mn = FAMILIES[family]
    n = validate(ctx, family, mod, prefixes or pref, min_events=mn, whole_groups=(family == "lines"), case_of=case_of)
    ctx.assumptions.append(
        f"SUITE: calls of the modelled functions observed while the repository's own test-suite runs ({family} family, "
        "de-duplicated, arguments up to 200 characters) are validated by TLC against the same trace specification")
    return n


if __name__ == "__main__":
    # debugging aid: validate every family of the current tree's recording and print what fails
    import time
    ctx = Ctx("SUITEDEBUG", "thorough", 0)
    for famname in (sys.argv[1:] or list(FAMILIES)):
        mod, pref, mn = FAMILIES[famname]
        t0 = time.time()
        n = validate(ctx, famname, mod, pref, min_events=mn, whole_groups=(famname == "lines"))
        print(famname, n, "events", round(time.time() - t0, 1), "s; violations so far", len(ctx.violations), "drift", len(ctx.drift),
              "known", dict(ctx.known_hits))
    for v in ctx.violations[:40]:
        print(json.dumps(v)[:700])
    for v in ctx.drift[:20]:
        print("DRIFT", json.dumps(v)[:700])
