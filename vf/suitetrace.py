"""pytest plugin (-p vf.suitetrace): records calls of the modelled functions while the repository's own
test-suite runs, as ndjson events in the formats the Trace_* specifications read.

Code -> spec binding over REAL executions: the library is not modified for this (apart from the guarded
per-line parser hooks of icalendar/_verif.py); the public functions are wrapped from outside at their
call/return boundary -- in a sequential library the linearisation point of an operation is the return
of the public call.  Wrappers never change arguments, results or exceptions; a projection that fails is
counted as 'unprojectable' and dropped.  Nested calls of wrapped CaselessDict methods are not logged
(depth counter): the intermediate states of update()/__init__ are not states of the abstract mapping.

Every family is de-duplicated by content (the same triple is checked once) and capped; the name of the
first test that produced an event goes to <family>.meta.ndjson, line-aligned with <family>.ndjson.
"""
import hashlib
import json
import os
from collections import OrderedDict

DIR = os.environ.get("VF_SUITE_TRACE_DIR")
MAXLEN = int(os.environ.get("VF_SUITE_MAXLEN", "200"))
CAPS = {"values": 80000, "text": 60000, "fold": 30000, "parts": 60000, "join": 60000, "cdict": 120000, "lines": 400000}

CURRENT = {"test": "<collection>"}
FAMS = {}
STATS = {"unprojectable": 0, "too_long": 0}


def L(s):
    return [ord(c) for c in s]


class Family:
    def __init__(self, name):
        self.name = name
        self.f = open(os.path.join(DIR, name + ".ndjson"), "w")
        self.m = open(os.path.join(DIR, name + ".meta.ndjson"), "w")
        self.seen = set()
        self.n = 0
        self.total = 0
        self.dropped = 0

    def add(self, events):
        """events: one event (dict) or a group (list of dicts) that must stay together"""
        group = events if isinstance(events, list) else [events]
        self.total += 1
        s = [json.dumps(e, separators=(",", ":"), sort_keys=True) for e in group]
        h = hashlib.blake2b("\n".join(s).encode(), digest_size=12).digest()
        if h in self.seen:
            return
        if self.n + len(group) > CAPS[self.name]:
            self.dropped += 1
            return
        self.seen.add(h)
        for line in s:
            self.f.write(line + "\n")
            self.m.write(json.dumps({"test": CURRENT["test"]}) + "\n")
        self.n += len(group)

    def close(self):
        self.f.close()
        self.m.close()


def fam(name):
    if name not in FAMS:
        FAMS[name] = Family(name)
    return FAMS[name]


def guarded(fn):
    """run a projection; never let it disturb the program under test"""
    def run(*a, **k):
        try:
            return fn(*a, **k)
        except Exception:   # noqa: BLE001
            STATS["unprojectable"] += 1
            return None
    return run


# ----------------------------------------------------------------------------- text codec, folding
def wrap_text_functions():
    import icalendar.parser as P
    import icalendar.prop as R
    import icalendar

    esc0, unesc0, fold0 = P.escape_char, P.unescape_char, P.foldline

    @guarded
    def log_text(kind, s, out):
        if isinstance(s, str) and isinstance(out, str):
            if len(s) > MAXLEN:
                STATS["too_long"] += 1
                return
            fam("text").add({"k": kind, "s": L(s), "out": L(out)})

    def escape_char(text):
        out = esc0(text)
        log_text("enc", text, out)
        return out

    def unescape_char(text):
        out = unesc0(text)
        log_text("dec", text, out)
        return out

    @guarded
    def log_fold(line, limit, out):
        if len(line) > 2 * MAXLEN:
            STATS["too_long"] += 1
            return
        fam("fold").add({"k": "fold", "line": L(line), "limit": limit, "out": list(out.encode("utf-8"))})

    def foldline(line, limit=75, fold_sep="\r\n "):
        out = fold0(line, limit, fold_sep)
        if fold_sep == "\r\n " and isinstance(limit, int) and limit >= 5:
            log_fold(line, limit, out)
        return out

    for mod in (P, R, icalendar):
        for name, new, old in (("escape_char", escape_char, esc0), ("unescape_char", unescape_char, unesc0),
                               ("foldline", foldline, fold0)):
            if getattr(mod, name, None) is old:
                setattr(mod, name, new)


# ----------------------------------------------------------------------------- content lines
def alpha_params(P):
    out = []
    for k, v in P.items():
        vs = list(v) if isinstance(v, (list, tuple)) else [v]
        if not all(type(x) is str for x in vs):
            raise TypeError("typed parameter value: rendered by its own to_ical, outside this projection")
        out.append({"k": L(k), "list": isinstance(v, (list, tuple)) and len(v) > 1, "vals": [L(x) for x in vs]})
    return out


def wrap_contentline():
    import icalendar.parser as P
    C = P.Contentline
    parts0 = C.parts
    from_parts0 = C.from_parts.__func__

    @guarded
    def log_parts(line, res):
        if len(line) > MAXLEN:
            STATS["too_long"] += 1
            return
        if getattr(line, "strict", False):
            return
        if res is None:
            parts = {"ok": False}
        else:
            n, p, v = res
            parts = {"ok": True, "name": L(n), "params": alpha_params(p), "value": L(v)}
        fam("parts").add({"k": "sparts", "line": L(str(line)), "parts": parts})

    def parts(self):
        try:
            res = parts0(self)
        except ValueError:
            log_parts(self, None)
            raise
        log_parts(self, res)
        return res

    @guarded
    def value_text(values):
        t = values.to_ical() if hasattr(values, "to_ical") else None
        if isinstance(t, bytes):
            return t.decode("utf-8")
        return t

    @guarded
    def log_join(name, params, vt, srt, out):
        if vt is None or not isinstance(name, str) or len(out) > MAXLEN:
            return
        fam("join").add({"k": "sjoin", "name": L(name), "ps": alpha_params(params), "v": L(vt), "sorted": bool(srt),
                         "line": L(str(out))})

    def from_parts(cls, name, params, values, sorted=True):
        vt = value_text(values) if hasattr(values, "to_ical") else None
        out = from_parts0(cls, name, params, values, sorted)
        log_join(name, params, vt, sorted, out)
        return out

    C.parts = parts
    C.from_parts = classmethod(from_parts)


# ----------------------------------------------------------------------------- caseless mapping
def wrap_caselessdict():
    from icalendar.caselessdict import CaselessDict as CD
    depth = [0]

    def snap(obj):
        return list(OrderedDict.items(obj))

    class Tok:
        """value tokens local to one event, by identity (None is -1)"""

        def __init__(self):
            self.ids = {}

        def __call__(self, v):
            if v is None:
                return -1
            return self.ids.setdefault(id(v), len(self.ids))

    def key_ok(k):
        return isinstance(k, str) and len(k) <= 40

    @guarded
    def log(obj, pre, op, k, v, pairs, kw, res):
        t = Tok()
        if not all(key_ok(x) for x, _ in pre) or not (k is None or key_ok(k)):
            STATS["unprojectable"] += 1
            return
        if any(not key_ok(x) for x, _ in pairs) or len(pre) > 12 or len(pairs) > 8:
            STATS["too_long"] += 1
            return
        a_pre = [[L(x), t(y)] for x, y in pre]
        o = {"op": op, "k": L(k) if k is not None else [], "v": t(v), "pairs": [[L(x), t(y)] for x, y in pairs],
             "kw": [[L(x), t(y)] for x, y in kw]}
        post = [[L(x) if isinstance(x, str) else [0], t(y)] for x, y in snap(obj)]
        kind, val = res
        if kind == "val":
            r = ["none", 0] if val is None else ["val", t(val)]
        elif kind == "item":
            r = ["item", [L(val[0]), t(val[1])]]
        else:
            r = [kind, val]
        fam("cdict").add([{"o": {"op": "reset", "k": [], "v": -1, "pairs": [], "kw": []}, "res": ["none", 0], "post": a_pre,
                           "cls": type(obj).__name__},
                          {"o": o, "res": r, "post": post, "cls": type(obj).__name__}])

    def norm_key(key):
        return key.decode("utf-8") if isinstance(key, bytes) else key

    def wrap(name, op, shape):
        orig = getattr(CD, name)

        def method(self, *a, **kw):
            if depth[0] > 0 or FAMS.get("cdict") is not None and FAMS["cdict"].n >= CAPS["cdict"]:
                return orig(self, *a, **kw)
            depth[0] += 1
            try:
                pre = snap(self)
                pairs, kws = [], []
                if shape == "update":
                    ok = True
                    for m in a:
                        if hasattr(m, "items"):
                            pairs += list(m.items())
                        elif isinstance(m, (list, tuple)):
                            pairs += [tuple(x) for x in m]
                        else:
                            ok = False      # a one-shot iterator: must not be consumed here
                    kws = list(kw.items())
                    if not ok:
                        return orig(self, *a, **kw)
                try:
                    out = orig(self, *a, **kw)
                except KeyError:
                    if shape in ("k", "kv"):
                        log(self, pre, op, norm_key(a[0]) if a else None, a[1] if len(a) > 1 else None, [], [], ("KeyError", 0))
                    elif shape == "none":
                        log(self, pre, op, None, None, [], [], ("KeyError", 0))
                    raise
                if shape == "update":
                    log(self, pre, op, None, None, pairs, kws, ("none", 0))
                elif shape == "none":
                    log(self, pre, op, None, None, [], [], ("item", out) if op == "popitem" else ("none", 0))
                else:
                    k = norm_key(a[0]) if a else norm_key(kw.get("key"))
                    v = a[1] if len(a) > 1 else kw.get("default", kw.get("value"))
                    if op in ("setitem", "delitem"):
                        res = ("none", 0)
                    elif op == "contains":
                        res = ("bool", int(bool(out)))
                    else:
                        res = ("val", out)
                    log(self, pre, op, k, v, [], [], res)
                return out
            finally:
                depth[0] -= 1
        method.__name__ = name
        setattr(CD, name, method)

    wrap("__setitem__", "setitem", "kv")
    wrap("__delitem__", "delitem", "k")
    wrap("__getitem__", "getitem", "k")
    wrap("__contains__", "contains", "k")
    wrap("get", "get", "kv")
    wrap("pop", "pop", "kv")
    wrap("setdefault", "setdefault", "kv")
    wrap("update", "update", "update")
    wrap("popitem", "popitem", "none")


# ----------------------------------------------------------------------------- parser line loop
def wrap_parser():
    from icalendar import _verif
    from icalendar.cal import Component
    if not getattr(_verif, "ENABLED", False):
        return
    buf = []
    depth = [0]
    _verif.set_sink(lambda e: buf.append(e) if depth[0] == 1 else None)
    orig = Component.from_ical.__func__

    @guarded
    def flush(multiple, outcome, ncomps):
        if any(len(e["line"]) > MAXLEN for e in buf) or len(buf) > 400:
            STATS["too_long"] += 1
            return
        group = [{"ev": "start"}]
        for e in buf:
            group.append({"ev": e["ev"], "line": L(e["line"]), "depth": e["depth"], "comps": e["comps"]})
        group.append({"ev": "finish", "outcome": outcome, "ncomps": ncomps})
        fam("lines").add(group)

    def from_ical(cls, st, multiple=False):
        depth[0] += 1
        if depth[0] == 1:
            del buf[:]
        try:
            out = orig(cls, st, multiple)
        except BaseException:
            if depth[0] == 1:
                flush(multiple, "err", -1)
            depth[0] -= 1
            raise
        if depth[0] == 1:
            flush(multiple, "ok", len(out) if multiple and isinstance(out, list) else -1)
        depth[0] -= 1
        return out

    Component.from_ical = classmethod(from_ical)


# ----------------------------------------------------------------------------- value codecs
def wrap_value_codecs():
    import icalendar.prop as R
    from datetime import date, datetime, time, timedelta

    def a_dt(x):
        if type(x) is not datetime and not isinstance(x, datetime):
            raise TypeError
        utc = 0
        if x.tzinfo is not None:
            if x.utcoffset() != timedelta(0) or R.tzid_from_dt(x) != "UTC":
                raise TypeError("zoned")
            utc = 1
        return [x.year, x.month, x.day, x.hour, x.minute, x.second, utc]

    def a_date(x):
        if type(x) is not date:
            raise TypeError
        return [x.year, x.month, x.day]

    def a_time(x):
        if not isinstance(x, time) or x.tzinfo is not None:
            raise TypeError
        return [x.hour, x.minute, x.second]

    def a_dur(td):
        if not isinstance(td, timedelta) or td.microseconds:
            raise TypeError
        sign = 1
        if td < timedelta(0):
            sign, td = -1, -td
        return [sign, td.days, td.seconds]

    def a_off(td):
        if not isinstance(td, timedelta) or td.microseconds:
            raise TypeError
        sign = 1
        if td < timedelta(0):
            sign, td = -1, -td
        if td >= timedelta(hours=24):
            raise TypeError("outside the UTC-OFFSET domain")
        return [sign, td.days * 86400 + td.seconds]

    def a_period(p):
        a, b = p
        return [a_dt(a), "d" if isinstance(b, timedelta) else "e", a_dur(b) if isinstance(b, timedelta) else a_dt(b)]

    def a_int(n):
        n = int(n)
        return [1 if n >= 0 else -1, L(str(abs(n)))]

    table = [
        ("date", R.vDate, lambda o: a_date(o.dt), a_date),
        ("date-time", R.vDatetime, lambda o: a_dt(o.dt), a_dt),
        ("time", R.vTime, lambda o: a_time(o.dt), a_time),
        ("duration", R.vDuration, lambda o: a_dur(o.td), a_dur),
        ("utc-offset", R.vUTCOffset, lambda o: a_off(o.td), a_off),
        ("period", R.vPeriod, lambda o: a_period((o.start, o.duration if o.by_duration else o.end)), a_period),
        ("integer", R.vInt, a_int, a_int),
        ("boolean", R.vBoolean, lambda o: int(bool(o)), lambda x: int(bool(x))),
        ("float", R.vFloat, lambda o: float(o).hex(), lambda x: float(x).hex()),
        ("geo", R.vGeo, lambda o: [float(o.latitude).hex(), float(o.longitude).hex()], lambda x: [float(x[0]).hex(), float(x[1]).hex()]),
    ]

    def install(typ, cls, a_self, a_native):
        to0 = cls.__dict__.get("to_ical")
        if to0 is not None:
            @guarded
            def log_enc(self, out):
                t = out.decode("utf-8") if isinstance(out, bytes) else out
                if len(t) > MAXLEN:
                    return
                fam("values").add({"k": "senc", "type": typ, "v": a_self(self), "text": L(t)})

            def to_ical(self, *a, **k):
                out = to0(self, *a, **k)
                log_enc(self, out)
                return out
            cls.to_ical = to_ical
        raw = cls.__dict__.get("from_ical")
        if raw is None:
            return
        fn = raw.__func__ if isinstance(raw, (staticmethod, classmethod)) else raw

        @guarded
        def log_dec(text, res):
            if not isinstance(text, str) or len(text) > MAXLEN:
                return
            fam("values").add({"k": "sdec", "type": typ, "text": L(text), "back": a_native(res)})

        if isinstance(raw, staticmethod):
            def from_ical(ical, *a, **k):
                res = fn(ical, *a, **k)
                if not a and not k:
                    log_dec(ical, res)
                return res
            cls.from_ical = staticmethod(from_ical)
        elif isinstance(raw, classmethod):
            def from_ical_c(c, ical, *a, **k):
                res = fn(c, ical, *a, **k)
                if not a and not k:
                    log_dec(ical, res)
                return res
            cls.from_ical = classmethod(from_ical_c)

    for row in table:
        install(*row)


# ----------------------------------------------------------------------------- pytest hooks
def pytest_configure(config):
    if not DIR:
        return
    os.makedirs(DIR, exist_ok=True)
    for n in CAPS:
        fam(n)
    wrap_text_functions()
    wrap_contentline()
    wrap_caselessdict()
    wrap_parser()
    wrap_value_codecs()


def pytest_runtest_setup(item):
    CURRENT["test"] = item.nodeid


def pytest_sessionfinish(session, exitstatus):
    if not DIR:
        return
    summary = {"families": {n: {"events": f.n, "calls": f.total, "dropped_after_cap": f.dropped} for n, f in FAMS.items()},
               "stats": STATS, "tests": getattr(session, "testscollected", None), "exitstatus": int(exitstatus),
               "maxlen": MAXLEN}
    for f in FAMS.values():
        f.close()
    with open(os.path.join(DIR, "summary.json"), "w") as fh:
        json.dump(summary, fh, indent=1)
