"""VIEW step: a view of a mutable object shows its content as it is when the view is taken (spec/View.tla).

TLC enumerates every behaviour of the model of MaxOps operations (assignments and deletions through the
mapping interface, appends and item assignments through a held value, views) that ends with a view, has an
earlier view and an edit through a held value; each behaviour is replayed on real objects.  After every
"read" the real view is compared with the view of an object that is built from scratch with the model's
content at that moment and is viewed exactly once.  The two memo variants of the model (remember the view
until the mapping interface is used / for ever) must be refuted by TLC, otherwise the step is vacuous.

An Obj describes one real object and one of its views:
    make()            a new, empty object
    set(o, k, seq)    o[key k] = value made of seq          (through the mapping interface)
    delete(o, k)      del o[key k]
    held(o, k)        the mutable list the object holds for key k (edited in place by "inner" / "poke")
    item(v)           model value -> list item
    read(o)           the view (JSON-able)
"""
import json

from vf.core import Ctx, cfg_text, Machinery

_VECS = {}


class Obj:
    def __init__(self, name, make, set, delete, held, item, read):
        self.name, self.make, self.set, self.delete, self.held, self.item, self.read = name, make, set, delete, held, item, read


def behaviours(ctx: Ctx):
    n = 4 if ctx.quick else 5
    if n in _VECS:
        return _VECS[n]
    consts = {"Keys": {1, 2}, "Vals": {1, 2}, "MaxOps": n}
    r = ctx.mc("MC_View", cfg_text(spec="Spec", constants={**consts, "Memo": "none"}, invariants=["Current", "Vec"], properties=["ReadIsPure"]),
               workers=4, timeout=1200)
    vecs = r.prints
    if len(vecs) < 100:
        raise Machinery(f"MC_View: too few behaviours {len(vecs)}")
    for memo in ("interface", "forever"):
        g = ctx.mc("MC_View", cfg_text(spec="Spec", constants={**consts, "Memo": memo}, invariants=["Current"]),
                   expect_ok=False, count=False, workers=1, timeout=600)
        if g.ok or "Current" not in str(g.violated):
            raise Machinery(f"vacuity guard: TLC did not refute Current on the {memo}-memo variant of View")
    ctx.notes.append(f"VIEW: {len(vecs)} behaviours of spec/View.tla ({n} operations, two keys, two values); Current refuted on both memo variants (guard)")
    _VECS[n] = vecs
    return vecs


def _norm(x):
    return json.loads(json.dumps(x, sort_keys=True, default=repr))


def replay(ctx: Ctx, pid: str, ob: Obj, vecs):
    nfail = 0
    for v in vecs:
        o = ob.make()
        content = {1: [], 2: []}
        order = []          # first-insertion order of the present keys (part of a mapping's state; the model abstracts from it)
        for step, op in enumerate(v["hist"]):
            k, kind = op["k"], op["op"]
            try:
                if kind == "set":
                    content[k] = list(op["s"])
                    if k not in order:
                        order.append(k)
                    ob.set(o, k, [ob.item(x) for x in op["s"]])
                elif kind == "del":
                    content[k] = []
                    order.remove(k)
                    ob.delete(o, k)
                elif kind == "inner":
                    content[k].append(op["v"])
                    ob.held(o, k).append(ob.item(op["v"]))
                elif kind == "poke":
                    content[k][0] = op["v"]
                    ob.held(o, k)[0] = ob.item(op["v"])
                else:
                    got = _norm(ob.read(o))
                    fresh = ob.make()
                    for kk in order:
                        if content[kk]:
                            ob.set(fresh, kk, [ob.item(x) for x in content[kk]])
                    want = _norm(ob.read(fresh))
                    ctx.evaluations += 1
                    if got != want and nfail < 4:
                        nfail += ctx.fail(f"P:{pid}:view-is-current", {"object": ob.name, "hist": v["hist"][:step + 1], "content": content},
                                          got, want) or 1
            except Exception as e:   # noqa: BLE001
                if nfail < 4:
                    nfail += ctx.fail(f"P:{pid}:view-is-current", {"object": ob.name, "hist": v["hist"][:step + 1], "exc": type(e).__name__}, str(e)[:200], None) or 1
                break
        ctx.case(("view", ob.name, json.dumps(v["hist"])), True)
    return len(vecs)


WORDS = {1: "a", 2: "b,c;d"}


def registry():
    from datetime import datetime
    from zoneinfo import ZoneInfo
    from icalendar import Calendar, Event, vRecur, Alarm
    from icalendar.caselessdict import CaselessDict
    from icalendar.parser import Parameters, Contentline
    from icalendar.prop import vText, vCategory, vDDDLists, vCalAddress
    PK = {1: "MEMBER", 2: "x-p"}

    def w(v):
        return WORDS[v]

    def params_on_event():
        e = Event()
        a = vCalAddress("mailto:x@example.com")
        e["ATTENDEE"] = a
        return e

    RK = {1: "BYMONTH", 2: "BYMONTHDAY"}

    def recur():
        return vRecur(freq="YEARLY")

    CK = {1: "CATEGORIES", 2: "RESOURCES"}

    def ev_cats_set(o, k, s):
        o[CK[k]] = vCategory(list(s))
    MK = {1: "COMMENT", 2: "contact"}
    Z = {1: "Europe/Berlin", 2: "America/New_York"}
    DK = {1: "RDATE", 2: "EXDATE"}

    def cal_with_event():
        c = Calendar()
        c.add_component(Event())
        return c

    def dl(v):
        return vDDDLists([datetime(2024, 1, v, 12, 0, tzinfo=ZoneInfo(Z[v]))])

    return {
        "C08": [
            Obj("Parameters.to_ical", Parameters, lambda o, k, s: o.__setitem__(PK[k], s), lambda o, k: o.__delitem__(PK[k]), lambda o, k: o[PK[k]], w,
                lambda o: [o.to_ical().decode(), o.to_ical(sorted=False).decode()]),
            Obj("Contentline.from_parts(params)", Parameters, lambda o, k, s: o.__setitem__(PK[k].swapcase(), s), lambda o, k: o.pop(PK[k]), lambda o, k: o[PK[k]], w,
                lambda o: str(Contentline.from_parts("X-A", o, vText("v")))),
            Obj("Event.to_ical (parameters of a property)", params_on_event, lambda o, k, s: o["ATTENDEE"].params.__setitem__(PK[k], s),
                lambda o, k: o["ATTENDEE"].params.__delitem__(PK[k]), lambda o, k: o["attendee"].params[PK[k]], w, lambda o: o.to_ical().decode()),
        ],
        "C19": [
            Obj("vRecur.to_ical", recur, lambda o, k, s: o.__setitem__(RK[k], s), lambda o, k: o.__delitem__(RK[k]), lambda o, k: o[RK[k]], lambda v: v + 2,
                lambda o: o.to_ical().decode()),
            Obj("Event.to_ical (RRULE)", lambda: _event_with_rrule(Event, recur), lambda o, k, s: o["RRULE"].__setitem__(RK[k].lower(), s),
                lambda o, k: o["RRULE"].__delitem__(RK[k]), lambda o, k: o["rrule"][RK[k]], lambda v: v + 2, lambda o: o.to_ical().decode()),
        ],
        "C10": [
            Obj("Event.to_ical (category lists)", Event, ev_cats_set, lambda o, k: o.__delitem__(CK[k]), lambda o, k: o[CK[k]].cats, lambda v: vText(w(v)),
                lambda o: [o.to_ical().decode(), o.to_ical(sorted=False).decode()]),
            Obj("Event.to_ical (multi-valued property)", Event, lambda o, k, s: o.__setitem__(MK[k], s), lambda o, k: o.pop(MK[k]), lambda o, k: o[MK[k]], lambda v: vText(w(v)),
                lambda o: [o.to_ical().decode(), [str(x) for x in o.content_lines()]]),
        ],
        "C17": [
            Obj("CaselessDict views", CaselessDict, lambda o, k, s: o.__setitem__(MK[k], s), lambda o, k: o.__delitem__(MK[k].swapcase()), lambda o, k: o[MK[k].title()], w,
                lambda o: [o.sorted_keys(), [[a, list(b)] for a, b in o.sorted_items()], sorted(o.keys()), repr(dict(o))]),
        ],
        "C18": [
            Obj("Calendar.get_used_tzids", cal_with_event, lambda o, k, s: o.subcomponents[0].__setitem__(DK[k], s), lambda o, k: o.subcomponents[0].__delitem__(DK[k]),
                lambda o, k: o.subcomponents[0][DK[k]], dl, lambda o: [sorted(o.get_used_tzids()), sorted(o.get_missing_tzids())]),
        ],
        "C20": [
            Obj("Component equality and walk", Event, ev_cats_set, lambda o, k: o.__delitem__(CK[k]), lambda o, k: o[CK[k]].cats, lambda v: vText(w(v)),
                lambda o: [o == Event.from_ical(o.to_ical()), [c.name for c in o.walk()], o != Event()]),
        ],
    }


def _event_with_rrule(Event, recur):
    e = Event()
    e["RRULE"] = recur()
    return e


def step(ctx: Ctx, pid: str):
    objs = registry().get(pid, [])
    if not objs:
        raise Machinery(f"VIEW: no objects registered for {pid}")
    vecs = behaviours(ctx)
    n = 0
    for ob in objs:
        n += replay(ctx, pid, ob, vecs)
    ctx.assumptions.append(
        "VIEW: an object's view (to_ical, sorted views, used time zones, equality) is compared with the view of an object built from scratch "
        "with the same content after every edit history of spec/View.tla, incl. edits made through a held list")
    ctx.notes.append(f"VIEW: objects replayed for {pid}: {[o.name for o in objs]}")
    return n


if __name__ == "__main__":
    import sys
    ctx = Ctx("VIEWDEBUG", "quick", 0)
    for pid in (sys.argv[1:] or list(registry())):
        print(pid, step(ctx, pid), "behaviour replays; violations", len(ctx.violations))
    for v in ctx.violations[:10]:
        print(json.dumps(v)[:600])
